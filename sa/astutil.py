"""Small helpers over `ast` nodes shared by the engine and the rules."""

from __future__ import annotations

import ast
from collections.abc import Iterable, Iterator


class AnalysisError(Exception):
    """The analysed source has a shape the checker cannot decide on.

    Reported as ``ANALYSIS-ERROR`` with exit status 2: the property is then
    undecided - neither passed nor violated.
    """


def src(node: ast.AST | None) -> str:
    """Normalised source text of a node (``ast.unparse``)."""
    if node is None:
        return "<none>"
    try:
        return ast.unparse(node)
    except Exception:  # pragma: no cover - defensive
        return ast.dump(node)


def attr_chain(node: ast.AST) -> tuple[str, ...] | None:
    """``a.b.c`` -> ('a', 'b', 'c'); `None` when the root is not a plain name.

    ``super().x`` gives ('super()', 'x').
    """
    parts: list[str] = []
    while isinstance(node, ast.Attribute):
        parts.append(node.attr)
        node = node.value
    if isinstance(node, ast.Name):
        parts.append(node.id)
    elif isinstance(node, ast.Call) and isinstance(node.func, ast.Name) and node.func.id == "super":
        parts.append("super()")
    else:
        return None
    return tuple(reversed(parts))


def dotted(node: ast.AST) -> str | None:
    chain = attr_chain(node)
    return ".".join(chain) if chain else None


def call_name(call: ast.Call) -> str | None:
    """Dotted name of the callee of a call, if it is a name/attribute chain."""
    return dotted(call.func)


def call_attr(call: ast.Call) -> str | None:
    """Last component of the callee (method or function name)."""
    f = call.func
    if isinstance(f, ast.Attribute):
        return f.attr
    if isinstance(f, ast.Name):
        return f.id
    return None


_SCOPE_NODES = (ast.FunctionDef, ast.AsyncFunctionDef, ast.ClassDef)


def walk_no_nested_defs(node: ast.AST) -> Iterator[ast.AST]:
    """Like ``ast.walk`` but does not descend into nested def/class bodies.

    Lambdas and comprehensions *are* descended into (they are expressions whose
    free variables matter for data flow).
    """
    stack = [node]
    first = True
    while stack:
        n = stack.pop()
        if not first and isinstance(n, _SCOPE_NODES):
            continue
        first = False
        yield n
        stack.extend(ast.iter_child_nodes(n))


def iter_calls(node: ast.AST) -> Iterator[ast.Call]:
    for n in walk_no_nested_defs(node):
        if isinstance(n, ast.Call):
            yield n


def names_read(node: ast.AST) -> set[str]:
    """All plain names loaded anywhere inside ``node`` (lambdas included)."""
    out: set[str] = set()
    for n in ast.walk(node):
        if isinstance(n, ast.Name) and isinstance(n.ctx, ast.Load):
            out.add(n.id)
    return out


def chains_read(node: ast.AST) -> set[tuple[str, ...]]:
    """All maximal attribute chains (``a.b.c``) read inside ``node``."""
    out: set[tuple[str, ...]] = set()
    inner: set[int] = set()
    for n in ast.walk(node):
        if isinstance(n, ast.Attribute) and id(n) not in inner:
            ch = attr_chain(n)
            if ch is not None:
                out.add(ch)
            v = n.value
            while isinstance(v, ast.Attribute):
                inner.add(id(v))
                v = v.value
        elif isinstance(n, ast.Name) and isinstance(n.ctx, ast.Load):
            out.add((n.id,))
    return out


def target_names(target: ast.AST) -> list[str]:
    """Plain names bound by an assignment / for / with target."""
    out: list[str] = []
    for n in ast.walk(target):
        if isinstance(n, ast.Name) and isinstance(n.ctx, (ast.Store, ast.Del)):
            out.append(n.id)
    return out


def is_const(node: ast.AST | None, value: object = ...) -> bool:
    if not isinstance(node, ast.Constant):
        return False
    if value is ...:
        return True
    return node.value is value or (type(node.value) is type(value) and node.value == value)


def const_value(node: ast.AST | None) -> tuple[bool, object]:
    """(is_constant, value) for literals, incl. ``-1`` and empty tuples."""
    if isinstance(node, ast.Constant):
        return True, node.value
    if isinstance(node, ast.UnaryOp) and isinstance(node.op, ast.USub) and isinstance(node.operand, ast.Constant):
        v = node.operand.value
        if isinstance(v, (int, float)):
            return True, -v
    if isinstance(node, ast.Tuple) and not node.elts:
        return True, ()
    return False, None


def strip_docstring(body: list[ast.stmt]) -> list[ast.stmt]:
    if body and isinstance(body[0], ast.Expr) and isinstance(body[0].value, ast.Constant) and isinstance(
        body[0].value.value, str
    ):
        return body[1:]
    return body


def pattern_class_names(pattern: ast.pattern) -> list[str]:
    """Class names a (possibly or-) class pattern tests for; [] if not a class pattern."""
    if isinstance(pattern, ast.MatchClass):
        d = dotted(pattern.cls)
        return [d] if d else []
    if isinstance(pattern, ast.MatchOr):
        out: list[str] = []
        for p in pattern.patterns:
            out.extend(pattern_class_names(p))
        return out
    if isinstance(pattern, ast.MatchAs) and pattern.pattern is not None:
        return pattern_class_names(pattern.pattern)
    return []


def pattern_is_wildcard(pattern: ast.pattern) -> bool:
    return isinstance(pattern, ast.MatchAs) and pattern.pattern is None


def pattern_captures(pattern: ast.pattern) -> dict[str, tuple[str, ...]]:
    """Names bound by a pattern -> access path below the subject.

    ``Calculation(tag=t, expression=e)`` -> {'t': ('tag',), 'e': ('expression',)}
    ``Chain() as c`` -> {'c': ()}.  Positional sub-patterns get ('#0',) etc.
    """
    out: dict[str, tuple[str, ...]] = {}

    def rec(p: ast.pattern, path: tuple[str, ...]) -> None:
        if isinstance(p, ast.MatchAs):
            if p.name is not None:
                out[p.name] = path
            if p.pattern is not None:
                rec(p.pattern, path)
        elif isinstance(p, ast.MatchClass):
            for i, sp in enumerate(p.patterns):
                rec(sp, path + (f"#{i}",))
            for k, sp in zip(p.kwd_attrs, p.kwd_patterns):
                rec(sp, path + (k,))
        elif isinstance(p, ast.MatchOr):
            for sp in p.patterns:
                rec(sp, path)
        elif isinstance(p, ast.MatchSequence):
            for i, sp in enumerate(p.patterns):
                rec(sp, path + (f"[{i}]",))
        elif isinstance(p, ast.MatchStar):
            if p.name:
                out[p.name] = path + ("*",)
        elif isinstance(p, ast.MatchMapping):
            for k, sp in zip(p.keys, p.patterns):
                rec(sp, path + (f"[{src(k)}]",))

    rec(pattern, ())
    return out


def kw(call: ast.Call, name: str) -> ast.expr | None:
    """The argument passed for ``name``: by keyword, or - for constructor calls of package dataclasses, which the
    normaliser annotates with their field names - positionally."""
    for k in call.keywords:
        if k.arg == name:
            return k.value
    by = getattr(call, "_by_field", None)
    if by is not None:
        return by.get(name)
    by = getattr(call, "_by_param", None)
    if by is not None:
        return by.get(name)
    return None


def ctor_args(call: ast.Call) -> list[ast.expr] | None:
    """Arguments of an annotated dataclass constructor call in field order (a prefix of the fields), else None."""
    by = getattr(call, "_by_field", None)
    order = getattr(call, "_field_order", None)
    if by is None or order is None:
        return None
    out = []
    for nm in order:
        if nm in by:
            out.append(by[nm])
        else:
            break
    return out if len(out) == len(by) else None


def ctor_text(call: ast.Call) -> str:
    """Canonical text of a constructor call: positional in field order when that is possible."""
    args = ctor_args(call)
    if args is None:
        return src(call)
    return f"{src(call.func)}({', '.join(src(a) for a in args)})"


def arg_or_kw(call: ast.Call, index: int, name: str) -> ast.expr | None:
    v = kw(call, name)
    if v is not None:
        return v
    if index < len(call.args) and not any(isinstance(a, ast.Starred) for a in call.args[: index + 1]):
        return call.args[index]
    return None


def first_line(node: ast.AST) -> int:
    return getattr(node, "lineno", 0)


def uniq(seq: Iterable) -> list:
    seen = set()
    out = []
    for x in seq:
        if x not in seen:
            seen.add(x)
            out.append(x)
    return out
