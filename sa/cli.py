"""Command line: ``python -m sa.cli <Cxx> [--tier quick|thorough] [--replay FILE]``."""

from __future__ import annotations

import argparse
import importlib
import json
import os
import sys
import traceback

from .astutil import AnalysisError
from .model import Model, SourceSet
from .report import analysis_error

PROPS = [f"C{n:02d}" for n in range(1, 21)]


def load_prop(prop: str):
    return importlib.import_module(f"sa.props.{prop.lower()}")


def build_run(prop: str, tier: str, sources: SourceSet | None = None):
    """Evaluate all rules of a property on a source set; no output, no files."""
    mod = load_prop(prop)
    sources = sources or SourceSet.load()
    model = Model(sources)
    return mod.check(model, tier)


def run_prop(prop: str, tier: str, sources: SourceSet | None = None, quiet: bool = False) -> int:
    mod = load_prop(prop)
    level = getattr(mod, "LEVEL", "other")
    try:
        run = build_run(prop, tier, sources)
        run.quiet = quiet
        return run.finish()
    except AnalysisError as e:
        from . import report as _report

        cur = _report.CURRENT
        if cur is not None and cur.prop == prop and cur.violations:
            new, _, _ = cur.classify()
            if new:
                cur.aborted = f"{type(e).__name__}: {e}"
                cur.quiet = quiet
                return cur.finish()
        return analysis_error(prop, tier, level, e)
    except Exception as e:  # a crash of the checker is never a property verdict
        traceback.print_exc()
        return analysis_error(prop, tier, level, e)


def main(argv: list[str] | None = None) -> int:
    ap = argparse.ArgumentParser(prog="check")
    ap.add_argument("prop", help="property id (C01..C20) or 'all'")
    ap.add_argument("--tier", choices=["quick", "thorough"], default=os.environ.get("VERIF_TIER", "quick"))
    ap.add_argument("--replay", help="replay file written by an earlier VIOLATION")
    args = ap.parse_args(argv)
    if args.tier not in ("quick", "thorough"):
        args.tier = "quick"
    if args.replay:
        with open(args.replay, encoding="utf-8") as f:
            rep = json.load(f)
        prop = rep["property"]
        mod = load_prop(prop)
        try:
            model = Model(SourceSet.load())
            run = mod.check(model, args.tier)
        except Exception as e:
            return analysis_error(prop, args.tier, getattr(mod, "LEVEL", "other"), e)
        hit = [v for v in run.violations if v.key == rep["key"]]
        if hit:
            v = hit[0]
            print(f"{v.file}:{v.line}  {v.rule}  [{v.instance}]  in {v.func}: {v.message}")
            for d in v.details:
                print(f"      {d}")
            print(f"VIOLATION property={prop} replay={os.path.abspath(args.replay)}")
            return 1
        print(f"[{prop}] replayed instance {rep['key']} no longer violates {rep['rule']}")
        return 0
    props = PROPS if args.prop.lower() == "all" else [args.prop.upper()]
    worst = 0
    for p in props:
        try:
            load_prop(p)
        except ModuleNotFoundError:
            print(f"[{p}] no check registered")
            continue
        if args.tier == "thorough":
            from .audit import thorough

            code = thorough.run(p)
        else:
            code = run_prop(p, args.tier)
        worst = max(worst, code) if code != 1 else 1 if worst != 1 else 1
        if code == 1:
            worst = 1
    return worst


if __name__ == "__main__":
    sys.exit(main())
