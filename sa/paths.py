"""E3: syntax-directed guarded-path enumeration for one function.

A *path* is the sequence of steps a single execution could take through the
function body: branch decisions (``cond``), pattern tests (``case``), loop
entries (``loop``) and the simple statements executed (``stmt``), ending in an
outcome (return / raise / fall off the end).  Loops are unrolled 0 or 1 times.
No expression is evaluated; infeasible paths are pruned only when the same
atom is asserted both ways with no redefinition in between, or when a test is
a name last bound to a constant on that path.
"""

from __future__ import annotations

import ast
import dataclasses

from .astutil import AnalysisError, names_read, pattern_captures, src, target_names

MAX_PATHS = 200_000


@dataclasses.dataclass
class Step:
    kind: str  # 'cond' | 'case' | 'loop' | 'stmt'
    node: ast.AST  # expr for cond; match_case for case; For/While for loop; stmt for stmt
    value: bool = True  # cond: truth; case: matched; loop: entered
    subject: ast.expr | None = None  # case: the match subject
    origin: ast.AST | None = None  # the If/Match/For statement the step came from

    def __repr__(self) -> str:
        if self.kind == "cond":
            return f"[{'+' if self.value else '-'}] {src(self.node)}"
        if self.kind == "case":
            assert isinstance(self.node, ast.match_case)
            g = f" if {src(self.node.guard)}" if self.node.guard is not None else ""
            return f"[{'+' if self.value else '-'}] {src(self.subject)} ~ {src(self.node.pattern)}{g}"
        if self.kind == "loop":
            h = src(self.node.iter) if isinstance(self.node, ast.For) else src(self.node.test)  # type: ignore
            return f"[{'+' if self.value else '-'}] loop {h}"
        return src(self.node).split("\n")[0]

    @property
    def lineno(self) -> int:
        n = self.node
        if isinstance(n, ast.match_case):
            return n.pattern.lineno
        return getattr(n, "lineno", 0)


@dataclasses.dataclass
class Path:
    steps: list[Step]
    outcome: str  # 'return' | 'raise' | 'fall'
    node: ast.AST | None  # Return / Raise node

    @property
    def value(self) -> ast.expr | None:
        if self.outcome == "return" and isinstance(self.node, ast.Return):
            v = self.node.value
            # ``tmp = <expr>; return tmp`` with a temp that is bound once and used only here is ``return <expr>``
            if isinstance(v, ast.Name) and len(self.steps) >= 2:
                prev = self.steps[-2]
                n = prev.node
                if (
                    prev.kind == "stmt"
                    and isinstance(n, ast.Assign)
                    and len(n.targets) == 1
                    and isinstance(n.targets[0], ast.Name)
                    and n.targets[0].id == v.id
                ):
                    binds = 0
                    reads = 0
                    for s in self.steps[:-1]:
                        node = s.node
                        for w in ast.walk(node) if not isinstance(node, ast.match_case) else ast.walk(node.pattern):
                            if isinstance(w, ast.Name) and w.id == v.id:
                                if isinstance(w.ctx, ast.Store):
                                    binds += 1
                                else:
                                    reads += 1
                            elif isinstance(w, (ast.MatchAs, ast.MatchStar)) and getattr(w, "name", None) == v.id:
                                binds += 1
                    if binds == 1 and reads == 0:
                        return n.value
            return v
        if self.outcome == "raise" and isinstance(self.node, ast.Raise):
            return self.node.exc
        return None

    def conds(self) -> list[Step]:
        return [s for s in self.steps if s.kind in ("cond", "case", "loop")]

    def stmts(self) -> list[ast.stmt]:
        return [s.node for s in self.steps if s.kind == "stmt"]  # type: ignore[misc]

    def describe(self) -> list[str]:
        out = [repr(s) for s in self.steps if s.kind != "stmt"]
        if self.outcome == "return":
            out.append(f"return {src(self.value)}")
        elif self.outcome == "raise":
            out.append(f"raise {src(self.value)}")
        else:
            out.append("<falls off the end>")
        return out

    def index_of(self, node: ast.AST) -> int:
        for i, s in enumerate(self.steps):
            if s.node is node:
                return i
        return -1

    def raises(self, exc_name: str | None = None) -> bool:
        if self.outcome != "raise":
            return False
        if exc_name is None:
            return True
        return exc_name in src(self.value)


class _Break(Exception):
    pass


def _binds(step: Step) -> set[str]:
    """Names (re)bound by a step."""
    out: set[str] = set()
    n = step.node
    if step.kind == "stmt":
        if isinstance(n, ast.Assign):
            for t in n.targets:
                out.update(target_names(t))
        elif isinstance(n, (ast.AugAssign, ast.AnnAssign)):
            out.update(target_names(n.target))
        elif isinstance(n, (ast.Import, ast.ImportFrom)):
            for a in n.names:
                out.add((a.asname or a.name).split(".")[0])
        elif isinstance(n, (ast.FunctionDef, ast.ClassDef)):
            out.add(n.name)
        for sub in ast.walk(n):
            if isinstance(sub, ast.NamedExpr):
                out.update(target_names(sub.target))
    elif step.kind == "cond":
        for sub in ast.walk(n):
            if isinstance(sub, ast.NamedExpr):
                out.update(target_names(sub.target))
    elif step.kind == "case" and step.value:
        assert isinstance(n, ast.match_case)
        out.update(pattern_captures(n.pattern))
    elif step.kind == "loop" and step.value and isinstance(n, ast.For):
        out.update(target_names(n.target))
    return out


def _atom_key(step: Step) -> str | None:
    if step.kind == "cond":
        return "c:" + src(step.node)
    return None


def _simple_assign(n: ast.AST) -> tuple[ast.Name, ast.expr] | None:
    """(name, value) of ``name = value`` / ``name: T = value``."""
    if isinstance(n, ast.Assign) and len(n.targets) == 1 and isinstance(n.targets[0], ast.Name):
        return n.targets[0], n.value
    if isinstance(n, ast.AnnAssign) and isinstance(n.target, ast.Name) and n.value is not None:
        return n.target, n.value
    return None


def _consistent(steps: list[Step], new: Step) -> bool:
    """False if ``new`` contradicts an earlier atom with no redefinition in between,
    or tests a name last bound to a constant of the other truth value."""
    if new.kind != "cond":
        return True
    key = _atom_key(new)
    used = names_read(new.node)
    test = new.node
    # unwrap ``not x``
    polarity = new.value
    while isinstance(test, ast.UnaryOp) and isinstance(test.op, ast.Not):
        test = test.operand
        polarity = not polarity
    # ``name is [not] None`` right after ``name = None`` / ``name = <arithmetic>``
    none_test = None
    if isinstance(test, ast.Compare) and len(test.ops) == 1 and isinstance(test.ops[0], (ast.Is, ast.IsNot)):
        l, r = test.left, test.comparators[0]
        if isinstance(l, ast.Name) and isinstance(r, ast.Constant) and r.value is None:
            none_test = (l.id, isinstance(test.ops[0], ast.Is))
    for prev in reversed(steps):
        sa_ = _simple_assign(prev.node) if prev.kind == "stmt" else None
        if none_test is not None and sa_ is not None:
            t, val = sa_
            if t.id == none_test[0]:
                is_none = None
                if isinstance(val, ast.Constant):
                    is_none = val.value is None
                elif isinstance(val, ast.BinOp) or (isinstance(val, ast.Call) and isinstance(val.func, ast.Name) and val.func.id in ("min", "max", "len", "int", "abs", "sum")):
                    is_none = False
                if is_none is None and isinstance(val, (ast.Name, ast.Attribute)):
                    # alias of something whose None-ness was tested earlier on this path
                    vt = src(val)
                    for older in reversed(steps[: steps.index(prev)]):
                        if older.kind == "cond":
                            ot, op_ = older.node, older.value
                            while isinstance(ot, ast.UnaryOp) and isinstance(ot.op, ast.Not):
                                ot, op_ = ot.operand, not op_
                            if isinstance(ot, ast.Compare) and len(ot.ops) == 1 and isinstance(ot.ops[0], (ast.Is, ast.IsNot)) and src(ot.left) == vt and isinstance(ot.comparators[0], ast.Constant) and ot.comparators[0].value is None:
                                is_none = isinstance(ot.ops[0], ast.Is) == op_
                                break
                        if set(_binds(older)) & names_read(val):
                            break
                if is_none is not None:
                    return (is_none == none_test[1]) == polarity
        if prev.kind == "cond":
            ptest = prev.node
            ppol = prev.value
            while isinstance(ptest, ast.UnaryOp) and isinstance(ptest.op, ast.Not):
                ptest = ptest.operand
                ppol = not ppol
            if src(ptest) == src(test) and not _has_walrus(ptest):
                return ppol == polarity
        b = _binds(prev)
        if b & used:
            # constant propagation for ``name = <const>`` followed by ``if name``
            if isinstance(test, ast.Name) and sa_ is not None and sa_[0].id == test.id and isinstance(sa_[1], ast.Constant):
                return bool(sa_[1].value) == polarity
            # ``a, name = (x, <const>)`` binds name to the constant just the same
            if isinstance(test, ast.Name) and prev.kind == "stmt" and isinstance(prev.node, ast.Assign) and len(prev.node.targets) == 1:
                tt, vv = prev.node.targets[0], prev.node.value
                if isinstance(tt, (ast.Tuple, ast.List)) and isinstance(vv, (ast.Tuple, ast.List)) and len(tt.elts) == len(vv.elts):
                    for te, ve in zip(tt.elts, vv.elts):
                        if isinstance(te, ast.Name) and te.id == test.id and isinstance(ve, ast.Constant):
                            return bool(ve.value) == polarity
            return True
    del key
    return True


def _has_walrus(node: ast.AST) -> bool:
    return any(isinstance(n, ast.NamedExpr) for n in ast.walk(node))


class _Enumerator:
    def __init__(self, label: str):
        self.label = label
        self.paths: list[Path] = []
        self.count = 0

    def run(self, body: list[ast.stmt]) -> list[Path]:
        for steps, status, node in self._block(body, []):
            if status == "next":
                self.paths.append(Path(steps, "fall", None))
            elif status in ("return", "raise"):
                self.paths.append(Path(steps, status, node))
            else:
                # break/continue outside loop cannot happen in valid code
                self.paths.append(Path(steps, "fall", None))
        return self.paths

    def _tick(self) -> None:
        self.count += 1
        if self.count > MAX_PATHS:
            raise AnalysisError(f"path explosion in {self.label} (> {MAX_PATHS} partial paths)")

    def _block(self, body: list[ast.stmt], prefix: list[Step]):
        """Yield (steps, status, node); status in next/return/raise/break/continue."""
        states = [prefix]
        for stmt in body:
            nxt: list[list[Step]] = []
            for st in states:
                for steps, status, node in self._stmt(stmt, st):
                    if status == "next":
                        nxt.append(steps)
                    else:
                        yield steps, status, node
            states = nxt
            if not states:
                return
        for st in states:
            yield st, "next", None

    def _stmt(self, stmt: ast.stmt, prefix: list[Step]):
        self._tick()
        if isinstance(stmt, ast.Return) and isinstance(stmt.value, ast.IfExp):
            # ``return a if c else b`` is the two-armed ``if c: return a`` / ``else: return b``
            e = stmt.value
            synth = ast.copy_location(
                ast.If(
                    test=e.test,
                    body=[ast.copy_location(ast.Return(value=e.body), stmt)],
                    orelse=[ast.copy_location(ast.Return(value=e.orelse), stmt)],
                ),
                stmt,
            )
            yield from self._if(synth, prefix)
        elif (
            isinstance(stmt, ast.Assign)
            and len(stmt.targets) == 1
            and isinstance(stmt.value, ast.IfExp)
        ):
            e = stmt.value
            synth = ast.copy_location(
                ast.If(
                    test=e.test,
                    body=[ast.copy_location(ast.Assign(targets=stmt.targets, value=e.body), stmt)],
                    orelse=[ast.copy_location(ast.Assign(targets=stmt.targets, value=e.orelse), stmt)],
                ),
                stmt,
            )
            yield from self._if(synth, prefix)
        elif isinstance(stmt, ast.Return):
            yield prefix + [Step("stmt", stmt)], "return", stmt
        elif isinstance(stmt, ast.Raise):
            yield prefix + [Step("stmt", stmt)], "raise", stmt
        elif isinstance(stmt, ast.Break):
            yield prefix, "break", stmt
        elif isinstance(stmt, ast.Continue):
            yield prefix, "continue", stmt
        elif isinstance(stmt, ast.If):
            yield from self._if(stmt, prefix)
        elif isinstance(stmt, ast.Match):
            yield from self._match(stmt, prefix)
        elif isinstance(stmt, (ast.For, ast.While)):
            yield from self._loop(stmt, prefix)
        elif isinstance(stmt, ast.Assert):
            # a failing assert is not a behaviour the rules reason about
            yield prefix + [Step("stmt", stmt)], "next", None
        elif isinstance(stmt, ast.With):
            # the context expressions are evaluated (and bound), then the body runs
            cur = prefix
            for item in stmt.items:
                if item.optional_vars is not None:
                    synth = ast.copy_location(ast.Assign(targets=[item.optional_vars], value=item.context_expr), stmt)
                else:
                    synth = ast.copy_location(ast.Expr(value=item.context_expr), stmt)
                cur = cur + [Step("stmt", synth, origin=stmt)]
            yield from self._block(stmt.body, cur)
        elif isinstance(stmt, ast.Try):
            yield from self._try(stmt, prefix)
        elif isinstance(stmt, (ast.AsyncFor, ast.AsyncWith)) or (
            hasattr(ast, "TryStar") and isinstance(stmt, ast.TryStar)
        ):
            raise AnalysisError(
                f"{self.label}: statement kind {type(stmt).__name__} at line {stmt.lineno} "
                "is not supported by the path enumerator"
            )
        else:
            yield prefix + [Step("stmt", stmt)], "next", None

    def _try(self, stmt: ast.Try, prefix: list[Step]):
        """try body completes (then else, then finally) - or a handler runs, entered from the state before the try
        (what the body did before raising is not assumed); `finally` follows whatever continues."""

        def then_finally(paths):
            for steps, status, node in paths:
                if status == "next" and stmt.finalbody:
                    yield from self._block(stmt.finalbody, steps)
                else:
                    yield steps, status, node

        def normal():
            for steps, status, node in self._block(stmt.body, prefix):
                if status == "next" and stmt.orelse:
                    yield from self._block(stmt.orelse, steps)
                else:
                    yield steps, status, node

        yield from then_finally(normal())
        for h in stmt.handlers:
            marker = ast.copy_location(ast.Expr(value=ast.Constant(f"<except {src(h.type) if h.type is not None else ''}>")), h)
            entered = prefix + [Step("stmt", marker, origin=stmt)]
            if h.name:
                bind = ast.copy_location(ast.Assign(targets=[ast.Name(h.name, ast.Store())], value=ast.Constant(None)), h)
                entered = entered + [Step("stmt", bind, origin=stmt)]
            yield from then_finally(self._block(h.body, entered))

    def _branch(self, test: ast.expr, value: bool, prefix: list[Step], origin: ast.AST) -> list[Step] | None:
        step = Step("cond", test, value, origin=origin)
        if not _consistent(prefix, step):
            return None
        return prefix + [step]

    def _if(self, stmt: ast.If, prefix: list[Step]):
        t = self._branch(stmt.test, True, prefix, stmt)
        if t is not None:
            yield from self._block(stmt.body, t)
        f = self._branch(stmt.test, False, prefix, stmt)
        if f is not None:
            if stmt.orelse:
                yield from self._block(stmt.orelse, f)
            else:
                yield f, "next", None

    def _match(self, stmt: ast.Match, prefix: list[Step]):
        failed: list[Step] = []
        irrefutable = False
        for case in stmt.cases:
            base = prefix + failed
            matched = base + [Step("case", case, True, subject=stmt.subject, origin=stmt)]
            if case.guard is not None:
                g = self._branch(case.guard, True, matched, stmt)
                if g is not None:
                    yield from self._block(case.body, g)
            else:
                yield from self._block(case.body, matched)
            failed = failed + [Step("case", case, False, subject=stmt.subject, origin=stmt)]
            if case.guard is None and _irrefutable(case.pattern):
                irrefutable = True
                break
        if not irrefutable:
            yield prefix + failed, "next", None

    def _loop(self, stmt: ast.For | ast.While, prefix: list[Step]):
        # zero iterations
        zero = prefix + [Step("loop", stmt, False, origin=stmt)]
        if stmt.orelse:
            yield from self._block(stmt.orelse, zero)
        else:
            yield zero, "next", None
        # one iteration
        one = prefix + [Step("loop", stmt, True, origin=stmt)]
        for steps, status, node in self._block(stmt.body, one):
            if status in ("next", "continue"):
                if stmt.orelse:
                    yield from self._block(stmt.orelse, steps)
                else:
                    yield steps, "next", None
            elif status == "break":
                yield steps, "next", None
            else:
                yield steps, status, node


def _irrefutable(p: ast.pattern) -> bool:
    if isinstance(p, ast.MatchAs):
        return p.pattern is None or _irrefutable(p.pattern)
    if isinstance(p, ast.MatchOr):
        return any(_irrefutable(x) for x in p.patterns)
    return False


def enumerate_paths(body: list[ast.stmt], label: str = "<function>") -> list[Path]:
    return _Enumerator(label).run(body)


def function_paths(fi) -> list[Path]:
    """Paths of a `FunctionInfo` (docstring skipped)."""
    return enumerate_paths(fi.body, fi.key)


# --------------------------------------------------------------------------- queries


def env_at(path: Path, index: int | None = None) -> dict[str, ast.expr | tuple]:
    """Last binding of each simple name before step ``index`` (default: the end).

    Values are the bound expression, or for pattern captures a tuple
    ``('capture', subject_expr, access_path)``, or ``('loopvar', iter_expr)``,
    or ``('unpack', expr, position)`` for tuple targets.
    """
    env: dict[str, ast.expr | tuple] = {}
    steps = path.steps if index is None else path.steps[:index]
    for s in steps:
        n = s.node
        if s.kind == "stmt":
            if isinstance(n, ast.Assign):
                for t in n.targets:
                    _bind_target(env, t, n.value)
            elif isinstance(n, ast.AnnAssign) and n.value is not None:
                _bind_target(env, n.target, n.value)
            elif isinstance(n, ast.AugAssign) and isinstance(n.target, ast.Name):
                env[n.target.id] = ast.BinOp(left=ast.Name(n.target.id, ast.Load()), op=n.op, right=n.value)
            for sub in ast.walk(n):
                if isinstance(sub, ast.NamedExpr) and isinstance(sub.target, ast.Name):
                    env[sub.target.id] = sub.value
        elif s.kind == "cond":
            for sub in ast.walk(n):
                if isinstance(sub, ast.NamedExpr) and isinstance(sub.target, ast.Name):
                    env[sub.target.id] = sub.value
        elif s.kind == "case" and s.value:
            assert isinstance(n, ast.match_case)
            for name, access in pattern_captures(n.pattern).items():
                env[name] = ("capture", s.subject, access)
        elif s.kind == "loop" and s.value and isinstance(n, ast.For):
            for name in target_names(n.target):
                env[name] = ("loopvar", n.iter)
    return env


def _bind_target(env: dict, target: ast.expr, value: ast.expr) -> None:
    if isinstance(target, ast.Name):
        env[target.id] = value
    elif isinstance(target, (ast.Tuple, ast.List)):
        if isinstance(value, (ast.Tuple, ast.List)) and len(value.elts) == len(target.elts):
            for t, v in zip(target.elts, value.elts):
                _bind_target(env, t, v)
        else:
            for i, t in enumerate(target.elts):
                if isinstance(t, ast.Name):
                    env[t.id] = ("unpack", value, i)
                elif isinstance(t, ast.Starred) and isinstance(t.value, ast.Name):
                    env[t.value.id] = ("unpack", value, f"*{i}")


def resolve_name(path: Path, name: str, index: int | None = None, depth: int = 8):
    """Follow simple copies ``a = b`` back to the defining expression."""
    cur_index = index
    cur = name
    for _ in range(depth):
        env = env_at(path, cur_index)
        v = env.get(cur)
        if isinstance(v, ast.Name) and v.id != cur:
            cur = v.id
            continue
        if v is None and cur != name:
            return ast.Name(cur, ast.Load())  # ended at a parameter / global
        return v
    return None
