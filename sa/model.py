"""E1: the package model - modules, classes, dataclass fields, MRO, closed sets.

Everything is read from source text with `ast`; nothing is imported.
"""

from __future__ import annotations

import ast
import dataclasses
import hashlib
import os
from collections.abc import Iterator

from .astutil import AnalysisError, dotted, src, strip_docstring

PKG_SUBDIR = "python/lsst/daf/relation"


def repo_root() -> str:
    return os.environ.get("VERIF_REPO", "/repo")


class SourceSet:
    """Mapping from package-relative path (``sql/_engine.py``) to source text."""

    def __init__(self, files: dict[str, str], root: str):
        self.files = dict(files)
        self.root = root

    @classmethod
    def load(cls, root: str | None = None) -> SourceSet:
        root = root or repo_root()
        pkg = os.path.join(root, PKG_SUBDIR)
        if not os.path.isdir(pkg):
            raise AnalysisError(f"package directory {pkg} does not exist")
        files: dict[str, str] = {}
        for dirpath, dirnames, filenames in os.walk(pkg):
            dirnames[:] = sorted(d for d in dirnames if d != "__pycache__")
            for fn in sorted(filenames):
                if fn.endswith(".py"):
                    full = os.path.join(dirpath, fn)
                    rel = os.path.relpath(full, pkg)
                    with open(full, encoding="utf-8") as f:
                        files[rel] = f.read()
        return cls(files, root)

    def with_override(self, rel: str, text: str) -> SourceSet:
        files = dict(self.files)
        files[rel] = text
        return SourceSet(files, self.root)

    def digest(self) -> str:
        h = hashlib.sha256()
        for k in sorted(self.files):
            h.update(k.encode())
            h.update(b"\0")
            h.update(self.files[k].encode())
            h.update(b"\0")
        return h.hexdigest()[:16]


@dataclasses.dataclass
class FieldInfo:
    name: str
    owner: ClassInfo
    annotation: ast.expr | None
    default: ast.expr | None
    node: ast.AnnAssign
    is_initvar: bool = False
    is_classvar: bool = False
    field_kwargs: dict[str, ast.expr] = dataclasses.field(default_factory=dict)

    @property
    def annotation_src(self) -> str:
        return src(self.annotation) if self.annotation is not None else ""

    def flag(self, name: str, default: bool) -> bool:
        v = self.field_kwargs.get(name)
        if isinstance(v, ast.Constant) and isinstance(v.value, bool):
            return v.value
        return default

    @property
    def compare(self) -> bool:
        return self.flag("compare", True)

    @property
    def has_default(self) -> bool:
        return self.default is not None or "default" in self.field_kwargs or "default_factory" in self.field_kwargs


@dataclasses.dataclass
class FunctionInfo:
    name: str
    module: ModuleInfo
    cls: ClassInfo | None
    node: ast.FunctionDef
    decorators: list[str]

    def __hash__(self) -> int:
        return id(self.node)

    def __eq__(self, other: object) -> bool:
        return self is other

    @property
    def qualname(self) -> str:
        return f"{self.cls.name}.{self.name}" if self.cls else self.name

    @property
    def key(self) -> str:
        return f"{self.module.rel}::{self.qualname}"

    @property
    def is_property(self) -> bool:
        return "property" in self.decorators

    @property
    def is_classmethod(self) -> bool:
        return "classmethod" in self.decorators

    @property
    def is_staticmethod(self) -> bool:
        return "staticmethod" in self.decorators

    @property
    def is_abstract(self) -> bool:
        return "abstractmethod" in self.decorators

    @property
    def is_cached(self) -> bool:
        return any(d.split(".")[-1] in ("cached_getter", "cached_property", "cache", "lru_cache") for d in self.decorators)

    @property
    def body(self) -> list[ast.stmt]:
        return strip_docstring(self.node.body)

    @property
    def params(self) -> list[str]:
        a = self.node.args
        return [x.arg for x in a.posonlyargs + a.args + a.kwonlyargs] + (
            [a.vararg.arg] if a.vararg else []
        ) + ([a.kwarg.arg] if a.kwarg else [])

    def param_annotation(self, name: str) -> ast.expr | None:
        a = self.node.args
        for x in a.posonlyargs + a.args + a.kwonlyargs + ([a.vararg] if a.vararg else []) + (
            [a.kwarg] if a.kwarg else []
        ):
            if x.arg == name:
                return x.annotation
        return None

    def loc(self, node: ast.AST | None = None) -> str:
        line = getattr(node, "lineno", None) if node is not None else self.node.lineno
        return f"{self.module.path}:{line}"


@dataclasses.dataclass
class ClassInfo:
    name: str
    module: ModuleInfo
    node: ast.ClassDef
    base_exprs: list[ast.expr]
    decorators: list[str]
    dataclass_kwargs: dict[str, object] | None  # None when not a dataclass
    own_fields: list[FieldInfo] = dataclasses.field(default_factory=list)
    own_annotations: dict[str, ast.AnnAssign] = dataclasses.field(default_factory=dict)
    methods: dict[str, FunctionInfo] = dataclasses.field(default_factory=dict)
    class_assigns: dict[str, ast.expr] = dataclasses.field(default_factory=dict)
    bases: list[ClassInfo] = dataclasses.field(default_factory=list)  # in-package, resolved
    external_bases: list[str] = dataclasses.field(default_factory=list)
    whitelist: set[str] | None = None

    def __hash__(self) -> int:
        return hash((self.module.rel, self.name))

    def __eq__(self, other: object) -> bool:
        return self is other

    def __repr__(self) -> str:
        return f"<class {self.key}>"

    @property
    def key(self) -> str:
        return f"{self.module.rel}::{self.name}"

    @property
    def is_dataclass(self) -> bool:
        return self.dataclass_kwargs is not None

    @property
    def frozen(self) -> bool:
        return bool(self.dataclass_kwargs and self.dataclass_kwargs.get("frozen") is True)

    @property
    def eq(self) -> bool:
        return bool(self.dataclass_kwargs is not None and self.dataclass_kwargs.get("eq", True) is True)

    def loc(self, node: ast.AST | None = None) -> str:
        line = getattr(node, "lineno", None) if node is not None else self.node.lineno
        return f"{self.module.path}:{line}"


@dataclasses.dataclass
class ModuleInfo:
    rel: str  # package-relative path
    path: str  # path for reports
    tree: ast.Module
    source: str
    classes: dict[str, ClassInfo] = dataclasses.field(default_factory=dict)
    functions: dict[str, FunctionInfo] = dataclasses.field(default_factory=dict)
    imports: dict[str, tuple[str, str]] = dataclasses.field(default_factory=dict)  # local -> (module rel | ext, name)
    star_imports: list[str] = dataclasses.field(default_factory=list)
    assigns: dict[str, ast.expr] = dataclasses.field(default_factory=dict)

    @property
    def package_parts(self) -> list[str]:
        parts = self.rel.split("/")[:-1]
        return parts

    def __hash__(self) -> int:
        return hash(self.rel)

    def __eq__(self, other: object) -> bool:
        return self is other


class _NoConst:
    def __repr__(self) -> str:
        return "NONCONST"


NONCONST = _NoConst()
ABSTRACT = "ABSTRACT"


class Model:
    """Resolved view of the package."""

    def __init__(self, sources: SourceSet):
        self.sources = sources
        self.modules: dict[str, ModuleInfo] = {}
        trees: dict[str, ast.Module] = {}
        for rel, text in sorted(sources.files.items()):
            path = os.path.join(sources.root, PKG_SUBDIR, rel)
            try:
                trees[rel] = ast.parse(text, filename=path)
            except SyntaxError as e:
                raise AnalysisError(f"{path} does not parse: {e}") from e
        # behaviour-preserving canonicalisation of the model's own copy (see sa/normalize.py)
        from .normalize import nest_operation_patterns, append_loops_to_extend, sequence_match_to_if, propagate_new_aliases, nested_defs_to_lambdas, lazy_pipelines, inline_new_temps, literals_right, aliases_to_captures, annotate_constructor_calls, loops_to_comprehensions, positional_calls, closed_class_names, isinstance_to_match, normalize_package

        closed = closed_class_names(trees)
        self.inlined = normalize_package(trees)
        from .normalize import inline_base_inits

        self.inlined += inline_base_inits(trees)
        self.dispatches_converted = 0
        for rel, tree in trees.items():
            self.inlined += sequence_match_to_if(tree)
            self.inlined += inline_new_temps(rel, tree)
            from .normalize import slice_calls_to_slices

            self.inlined += slice_calls_to_slices(tree)
            from .normalize import constant_matches_to_ifs

            self.inlined += constant_matches_to_ifs(tree)
            self.dispatches_converted += isinstance_to_match(tree, closed)
            self.inlined += aliases_to_captures(tree)
            self.inlined += propagate_new_aliases(rel, tree)
            self.inlined += nest_operation_patterns(tree)
            self.inlined += loops_to_comprehensions(tree)
            self.inlined += append_loops_to_extend(tree)
            self.inlined += literals_right(tree)
            self.inlined += lazy_pipelines(tree)
            self.inlined += nested_defs_to_lambdas(tree)
            path = os.path.join(sources.root, PKG_SUBDIR, rel)
            self.modules[rel] = ModuleInfo(rel=rel, path=path, tree=tree, source=sources.files[rel])
        self.constructor_calls = annotate_constructor_calls(trees)
        self.positional_calls = positional_calls(trees)
        for m in self.modules.values():
            self._index_module(m)
        for m in self.modules.values():
            for c in m.classes.values():
                self._resolve_bases(c)
        self._mro_cache: dict[ClassInfo, list[ClassInfo]] = {}
        self._sub_cache: dict[ClassInfo, list[ClassInfo]] = {}

    # ------------------------------------------------------------------ indexing

    def _resolve_relative(self, m: ModuleInfo, level: int, module: str | None) -> str | None:
        """Package-relative path of the module named by a relative import."""
        if level == 0:
            if module and (module == "lsst.daf.relation" or module.startswith("lsst.daf.relation.")):
                parts = module.split(".")[3:]
            else:
                return None
        else:
            base = m.package_parts
            if level - 1 > len(base):
                return None
            parts = base[: len(base) - (level - 1)] + (module.split(".") if module else [])
        cand_mod = "/".join(parts) + ".py" if parts else None
        cand_pkg = "/".join(parts + ["__init__.py"])
        if cand_mod and cand_mod in self.modules:
            return cand_mod
        if cand_pkg in self.modules:
            return cand_pkg
        return None

    def _index_module(self, m: ModuleInfo) -> None:
        for node in ast.walk(m.tree):
            if isinstance(node, ast.ImportFrom):
                target = self._resolve_relative(m, node.level, node.module)
                extname = ("." * node.level) + (node.module or "")
                for alias in node.names:
                    if alias.name == "*":
                        if target:
                            m.star_imports.append(target)
                        continue
                    local = alias.asname or alias.name
                    # Do not let function-local imports shadow a module-level definition.
                    m.imports.setdefault(local, (target or f"ext:{extname}", alias.name))
            elif isinstance(node, ast.Import):
                for alias in node.names:
                    local = alias.asname or alias.name.split(".")[0]
                    m.imports.setdefault(local, (f"ext:{alias.name}", ""))
        for node in m.tree.body:
            self._index_stmt(m, node)

    def _index_stmt(self, m: ModuleInfo, node: ast.stmt) -> None:
        if isinstance(node, ast.ClassDef):
            m.classes[node.name] = self._make_class(m, node)
        elif isinstance(node, ast.FunctionDef):
            m.functions[node.name] = FunctionInfo(node.name, m, None, node, [_deco_name(d) for d in node.decorator_list])
        elif isinstance(node, ast.Assign):
            for t in node.targets:
                if isinstance(t, ast.Name):
                    m.assigns[t.id] = node.value
        elif isinstance(node, ast.AnnAssign) and isinstance(node.target, ast.Name) and node.value is not None:
            m.assigns[node.target.id] = node.value
        elif isinstance(node, (ast.If, ast.Try)):
            for sub in ast.iter_child_nodes(node):
                if isinstance(sub, ast.stmt):
                    self._index_stmt(m, sub)
                elif isinstance(sub, ast.ExceptHandler):
                    for s in sub.body:
                        self._index_stmt(m, s)

    def _make_class(self, m: ModuleInfo, node: ast.ClassDef) -> ClassInfo:
        decorators = [_deco_name(d) for d in node.decorator_list]
        dc_kwargs: dict[str, object] | None = None
        for d in node.decorator_list:
            name = _deco_name(d)
            if name.split(".")[-1] == "dataclass":
                dc_kwargs = {}
                if isinstance(d, ast.Call):
                    for k in d.keywords:
                        if k.arg and isinstance(k.value, ast.Constant):
                            dc_kwargs[k.arg] = k.value.value
        c = ClassInfo(node.name, m, node, list(node.bases), decorators, dc_kwargs)
        for stmt in node.body:
            if isinstance(stmt, ast.FunctionDef):
                fi = FunctionInfo(stmt.name, m, c, stmt, [_deco_name(d) for d in stmt.decorator_list])
                # property setters etc. are not used in this package; keep first definition
                c.methods.setdefault(stmt.name, fi)
            elif isinstance(stmt, ast.AnnAssign) and isinstance(stmt.target, ast.Name):
                c.own_annotations[stmt.target.id] = stmt
                ann = stmt.annotation
                ann_s = src(ann)
                is_classvar = "ClassVar" in ann_s
                is_initvar = "InitVar" in ann_s
                default = stmt.value
                fkw: dict[str, ast.expr] = {}
                if isinstance(default, ast.Call) and (dotted(default.func) or "").split(".")[-1] == "field":
                    for k in default.keywords:
                        if k.arg:
                            fkw[k.arg] = k.value
                    default = None
                if dc_kwargs is not None and not is_classvar:
                    c.own_fields.append(
                        FieldInfo(stmt.target.id, c, ann, default, stmt, is_initvar, is_classvar, fkw)
                    )
            elif isinstance(stmt, ast.Assign):
                for t in stmt.targets:
                    if isinstance(t, ast.Name):
                        c.class_assigns[t.id] = stmt.value
        isc = c.methods.get("__init_subclass__")
        if isc is not None:
            names: set[str] = set()
            for n in ast.walk(isc.node):
                if isinstance(n, ast.Set) and all(isinstance(e, ast.Constant) and isinstance(e.value, str) for e in n.elts):
                    names |= {e.value for e in n.elts}  # type: ignore[attr-defined]
            c.whitelist = names or None
        return c

    def _resolve_bases(self, c: ClassInfo) -> None:
        for b in c.base_exprs:
            e = b
            if isinstance(e, ast.Subscript):
                e = e.value
            name = dotted(e)
            if name is None:
                continue
            target = self.resolve_class(c.module, name)
            if target is not None:
                c.bases.append(target)
            else:
                c.external_bases.append(name)

    # ------------------------------------------------------------------ lookup

    def module(self, rel: str) -> ModuleInfo:
        try:
            return self.modules[rel]
        except KeyError:
            raise AnalysisError(f"anchor module {rel} is missing from the package") from None

    def _resolve_name(self, m: ModuleInfo, name: str, seen: set[tuple[str, str]] | None = None):
        """Follow imports to the (module, name) that defines ``name`` seen from ``m``."""
        seen = seen or set()
        if (m.rel, name) in seen:
            return None
        seen.add((m.rel, name))
        if name in m.classes or name in m.functions or name in m.assigns:
            return m, name
        if name in m.imports:
            target, orig = m.imports[name]
            if target.startswith("ext:"):
                return None
            return self._resolve_name(self.modules[target], orig, seen)
        for star in m.star_imports:
            r = self._resolve_name(self.modules[star], name, seen)
            if r is not None:
                return r
        return None

    def resolve_class(self, m: ModuleInfo, name: str) -> ClassInfo | None:
        head = name.split(".")[0]
        if "." in name:
            # module-qualified like ``sqlalchemy.sql.X`` or ``dataclasses.X``: external
            tgt = m.imports.get(head)
            if tgt and tgt[0].startswith("ext:"):
                return None
            name = name.split(".")[-1]
        r = self._resolve_name(m, name)
        if r is None:
            return None
        mod, n = r
        return mod.classes.get(n)

    def resolve_function(self, m: ModuleInfo, name: str) -> FunctionInfo | None:
        r = self._resolve_name(m, name)
        if r is None:
            return None
        mod, n = r
        return mod.functions.get(n)

    def cls(self, rel: str, name: str) -> ClassInfo:
        m = self.module(rel)
        if name not in m.classes:
            raise AnalysisError(f"anchor class {name} not found in {rel}")
        return m.classes[name]

    def find_class(self, name: str) -> ClassInfo:
        """Unique class with this name in the package."""
        found = [c for m in self.modules.values() for c in m.classes.values() if c.name == name]
        if len(found) != 1:
            raise AnalysisError(f"expected exactly one class named {name}, found {len(found)}")
        return found[0]

    def func(self, rel: str, qualname: str) -> FunctionInfo:
        m = self.module(rel)
        if "." in qualname:
            cn, fn = qualname.split(".", 1)
            if cn not in m.classes or fn not in m.classes[cn].methods:
                raise AnalysisError(f"anchor function {qualname} not found in {rel}")
            return m.classes[cn].methods[fn]
        if qualname not in m.functions:
            raise AnalysisError(f"anchor function {qualname} not found in {rel}")
        return m.functions[qualname]

    def all_classes(self) -> Iterator[ClassInfo]:
        for m in self.modules.values():
            yield from m.classes.values()

    def all_functions(self) -> Iterator[FunctionInfo]:
        for m in self.modules.values():
            yield from m.functions.values()
            for c in m.classes.values():
                yield from c.methods.values()

    # ------------------------------------------------------------------ hierarchy

    def mro(self, c: ClassInfo) -> list[ClassInfo]:
        if c in self._mro_cache:
            return self._mro_cache[c]
        seqs = [self.mro(b) for b in c.bases] + [list(c.bases)]
        result = [c]
        seqs = [list(s) for s in seqs if s]
        while seqs:
            for s in seqs:
                head = s[0]
                if not any(head in t[1:] for t in seqs):
                    break
            else:
                raise AnalysisError(f"inconsistent MRO for {c.key}")
            result.append(head)
            seqs = [[x for x in s if x is not head] for s in seqs]
            seqs = [s for s in seqs if s]
        self._mro_cache[c] = result
        return result

    def is_subclass(self, c: ClassInfo, base: ClassInfo) -> bool:
        return base in self.mro(c)

    def subclasses(self, base: ClassInfo, strict: bool = False) -> list[ClassInfo]:
        out = [c for c in self.all_classes() if self.is_subclass(c, base) and not (strict and c is base)]
        return sorted(out, key=lambda c: c.key)

    def lookup(self, c: ClassInfo, attr: str) -> tuple[ClassInfo, object] | None:
        """First definition of ``attr`` along the MRO: method, field, or class assignment."""
        for k in self.mro(c):
            if attr in k.methods:
                return k, k.methods[attr]
            for f in k.own_fields:
                if f.name == attr:
                    return k, f
            if attr in k.class_assigns:
                return k, k.class_assigns[attr]
            if attr in k.own_annotations:
                return k, k.own_annotations[attr]
        return None

    def method(self, c: ClassInfo, name: str) -> FunctionInfo | None:
        for k in self.mro(c):
            if name in k.methods:
                return k.methods[name]
        return None

    def fields(self, c: ClassInfo) -> list[FieldInfo]:
        """Dataclass fields incl. inherited ones, in dataclass order (no InitVar/ClassVar)."""
        out: dict[str, FieldInfo] = {}
        for k in reversed(self.mro(c)):
            if not k.is_dataclass:
                continue
            for f in k.own_fields:
                if f.name in out:
                    out.pop(f.name)
                out[f.name] = f
        return [f for f in out.values() if not f.is_initvar and not f.is_classvar]

    def init_order(self, c: ClassInfo) -> list[str]:
        """Positional parameter order of the dataclass-generated ``__init__`` (fields and InitVars with init=True)."""
        out: dict[str, FieldInfo] = {}
        for k in reversed(self.mro(c)):
            if not k.is_dataclass:
                continue
            for f in k.own_fields:
                if f.name in out:
                    out[f.name] = f  # a redefinition keeps the original position
                else:
                    out[f.name] = f
        return [f.name for f in out.values() if not f.is_classvar and f.flag("init", True) and not f.flag("kw_only", False)]

    def abstract_names(self, c: ClassInfo) -> set[str]:
        """Names still abstract on class ``c``."""
        names: set[str] = set()
        for k in self.mro(c):
            for n, f in k.methods.items():
                if f.is_abstract:
                    names.add(n)
        out = set()
        for n in names:
            hit = self.lookup(c, n)
            if hit is None:
                continue
            _, d = hit
            if isinstance(d, FunctionInfo) and d.is_abstract:
                out.add(n)
        return out

    def is_abstract(self, c: ClassInfo) -> bool:
        return bool(self.abstract_names(c)) or "ABC" in c.external_bases or "Protocol" in c.external_bases

    def const_property(self, c: ClassInfo, name: str) -> object:
        """Constant a property/method returns on every path, NONCONST, or ABSTRACT."""
        f = self.method(c, name)
        if f is None:
            hit = self.lookup(c, name)
            if hit is not None and isinstance(hit[1], ast.expr) and isinstance(hit[1], ast.Constant):
                return hit[1].value
            return NONCONST
        return function_constant(f)

    # ------------------------------------------------------------------ closed sets

    def closed_set(self, root: ClassInfo) -> list[ClassInfo]:
        if root.whitelist is None:
            raise AnalysisError(f"{root.key} no longer declares a closed hierarchy in __init_subclass__")
        return self.subclasses(root, strict=True)

    def concrete(self, classes: list[ClassInfo]) -> list[ClassInfo]:
        return [c for c in classes if not self.is_abstract(c)]


def function_constant(f: FunctionInfo) -> object:
    """The single constant every `return` of ``f`` yields, else NONCONST/ABSTRACT."""
    rets = [n for n in ast.walk(f.node) if isinstance(n, ast.Return)]
    raises = [n for n in ast.walk(f.node) if isinstance(n, ast.Raise)]
    if not rets:
        if raises and all("NotImplementedError" in src(r.exc) for r in raises):
            return ABSTRACT
        return NONCONST
    vals = []
    for r in rets:
        if not isinstance(r.value, ast.Constant):
            return NONCONST
        vals.append(r.value.value)
    first = vals[0]
    if all(v is first or (type(v) is type(first) and v == first) for v in vals):
        return first
    return NONCONST


def _deco_name(d: ast.expr) -> str:
    if isinstance(d, ast.Call):
        d = d.func
    return dotted(d) or src(d)
