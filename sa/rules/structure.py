"""Structural rules on tree building: R14.* (well-formed trees), R15.* (locked nodes,
transfer/materialize simplifications), R17.* (SQL conform / Select markers)."""

from __future__ import annotations

import ast

from ..absval import AbsState, ClsVal, Evaluator
from ..astutil import AnalysisError, attr_chain, call_attr, dotted, iter_calls, kw, pattern_captures, src
from ..facts import has_fact, path_facts
from ..flow import case_index, path_calls
from ..model import NONCONST, ClassInfo, FunctionInfo
from ..paths import Path, env_at, resolve_name
from ..props.common import (
    BINARY,
    ENGINE,
    IT_ENGINE,
    MARKER,
    MATERIALIZATION,
    OPREL,
    SQL_ENGINE,
    SQL_SELECT,
    TRANSFER,
    UNARY,
    Ctx,
    describe,
)
from .guards import Required, check_required

# ------------------------------------------------------------------ R14.1


def r14_1_who_may_construct(ctx: Ctx) -> None:
    run, m = ctx.run, ctx.m
    run.rule(
        "R14.1",
        "each node class is constructed at exactly one site (UnaryOperation._finish_apply, BinaryOperation._finish_apply, "
        "Engine.transfer, Engine.materialize, Select.apply_skip); dataclasses.replace on relations only in MarkerRelation.reapply",
        expected_min=6,
    )
    allowed = {
        "UnaryOperationRelation": (UNARY, "UnaryOperation._finish_apply"),
        "BinaryOperationRelation": (BINARY, "BinaryOperation._finish_apply"),
        "Transfer": (ENGINE, "Engine.transfer"),
        "Materialization": (ENGINE, "Engine.materialize"),
        "Select": (SQL_SELECT, "Select.apply_skip"),
    }
    seen: dict[str, int] = {k: 0 for k in allowed}
    base = ctx.k.relation_root
    for fi in m.all_functions():
        if fi.module.rel == "tests.py":
            continue
        for call in iter_calls(fi.node):
            name = dotted(call.func) or ""
            target: ClassInfo | None = None
            if name == "cls" and fi.is_classmethod and fi.cls is not None and m.is_subclass(fi.cls, base):
                target = fi.cls
            elif name in ("type(self)", "self.__class__"):
                target = fi.cls
            elif name:
                target = m.resolve_class(fi.module, name.split("[")[0])
            if target is not None and target.name in allowed:
                inst = f"construct:{target.name}@{fi.module.rel}:{fi.qualname}"
                if (fi.module.rel, fi.qualname) == allowed[target.name]:
                    seen[target.name] += 1
                    run.ok("R14.1", inst, {"call": src(call)[:100]})
                else:
                    run.fail("R14.1", inst, f"{target.name} node is constructed outside its single sanctioned site {allowed[target.name][1]}", fi=fi, node=call)
            if name in ("dataclasses.replace", "replace", "copy.copy", "copy.deepcopy", "copy.replace") and fi.cls is not None and m.is_subclass(fi.cls, base):
                inst = f"replace@{fi.module.rel}:{fi.qualname}"
                if (fi.module.rel, fi.qualname) == (MARKER, "MarkerRelation.reapply"):
                    run.ok("R14.1", inst, {"call": src(call)[:100]})
                else:
                    run.fail("R14.1", inst, "a relation is copied/rebuilt with dataclasses.replace outside MarkerRelation.reapply", fi=fi, node=call)
    for k, n in seen.items():
        if n == 0:
            raise AnalysisError(f"no construction site found for {k}: the tree-building funnel changed shape")
    # Select overrides reapply without dataclasses.replace
    sel = ctx.cls(SQL_SELECT, "Select")
    if "reapply" not in sel.methods:
        run.fail("R14.1", "Select.reapply:override", "Select no longer overrides reapply: MarkerRelation.reapply would copy the marker with stale slots", file=sel.module.path, line=sel.node.lineno, func="Select")
    else:
        run.ok("R14.1", "Select.reapply:override")


# ------------------------------------------------------------------ R14.2


def r14_2_checks_dominate(ctx: Ctx) -> None:
    run, m = ctx.run, ctx.m
    run.rule(
        "R14.2",
        "engine-consistency checks dominate node construction: engine support before the unary constructor, engine "
        "equality and predicate support before a Join node, engine/column equality for Chain, no Transfer to the same engine; "
        "_finish_apply overrides return an argument, super()._finish_apply(...) or a validating apply()",
        expected_min=12,
    )
    from .validation import inventory

    wanted = {("UnaryOperation._finish_apply"), ("Join._finish_apply"), ("Chain._begin_apply")}
    for fi, reqs, success, label in inventory(ctx):
        if fi.qualname in wanted:
            reqs2 = [r for r in reqs if r.label in ("engine-supports-operation", "same-engine", "engine-supports-predicate", "same-columns")]
            check_required(ctx, "R14.2", fi, reqs2, success, label)
    transfer = m.func(ENGINE, "Engine.transfer")
    check_required(
        ctx,
        "R14.2",
        transfer,
        [Required("not-own-engine", "EQ", ("{p0}.engine",), ("self",), False, None, reason="a Transfer must never connect an engine to itself")],
        lambda p: p.outcome == "return" and isinstance(p.value, ast.Call) and (dotted(p.value.func) or "").split(".")[-1] == "Transfer",
        "Transfer construction",
    )
    # Transfer(destination=self): the new node lives in the engine asked for
    for call in iter_calls(transfer.node):
        if (dotted(call.func) or "").split(".")[-1] == "Transfer":
            d = kw(call, "destination")
            if d is not None and src(d) == "self":
                run.ok("R14.2", "Engine.transfer:destination=self")
            else:
                run.fail("R14.2", "Engine.transfer:destination=self", f"Transfer is built with destination={src(d)}; the result would not live in the requested engine", fi=transfer, node=call)
    # overrides of _finish_apply
    for c in ctx.k.unary_ops + ctx.k.binary_ops:
        f = c.methods.get("_finish_apply")
        if f is None:
            continue
        params = [p for p in f.params if p != "self"]
        for i, p in enumerate(ctx.paths(f)):
            inst = f"{c.name}._finish_apply:path{i}"
            if p.outcome == "raise":
                run.ok("R14.2", inst)
                continue
            v = p.value
            ok = False
            if isinstance(v, ast.Name) and v.id in params:
                ok = True
            elif isinstance(v, ast.Call):
                name = dotted(v.func) or ""
                if name == "super()._finish_apply" and [src(a) for a in v.args] == params:
                    ok = True
                elif call_attr(v) == "apply" and c in ctx.k.placeholders:
                    ok = True  # PartialJoin -> Join.apply (full validation)
                elif c is ctx.k.unary_root or c is ctx.k.binary_root:
                    ok = True  # the base constructors (R14.1) and simplify recursion
            if ok:
                run.ok("R14.2", inst, {"returns": src(v)[:80]})
            else:
                run.fail("R14.2", inst, f"{c.name}._finish_apply returns `{src(v)[:80]}`: neither an argument, nor super()._finish_apply of the same operands", fi=f, node=p.node)


# ------------------------------------------------------------------ R14.3


def r14_3_placeholders(ctx: Ctx) -> None:
    run, m = ctx.run, ctx.m
    run.rule(
        "R14.3",
        "placeholder operations (identity, partial join, ignore-one) never become nodes: their _finish_apply never reaches "
        "a node constructor, and the SQL dispatchers' arms for them construct nothing",
        expected_min=6,
    )
    documented = {"Identity", "PartialJoin", "IgnoreOne"}
    computed = {c.name for c in ctx.k.placeholders}
    for name in sorted(documented):
        if name in computed:
            run.ok("R14.3", f"placeholder:{name}", {"computed": sorted(computed)})
        else:
            c = ctx.op_class(name)
            run.fail("R14.3", f"placeholder:{name}", f"{name}._finish_apply can now reach a node constructor: the placeholder could appear in a tree", file=c.module.path, line=c.node.lineno, func=name)
    for fn, subject_param in (("Engine._append_unary_to_select", 0), ("Engine._append_binary_to_select", 0)):
        f = m.func(SQL_ENGINE, fn)
        op = [p for p in f.params if p != "self"][subject_param]
        for ph in ctx.k.placeholders:
            arms = 0
            for i, p in enumerate(ctx.paths(f)):
                from ..flow import case_index

                idx = case_index(p, ph.name, op)
                if idx < 0:
                    continue
                arms += 1
                inst = f"{fn}:{ph.name}:path{i}"
                bad = [c for j, c in path_calls(p, idx) if (call_attr(c) == "_finish_apply" and isinstance(c.func, ast.Attribute) and src(c.func.value) == op) or (call_attr(c) in ("apply_skip", "reapply_skip") and any(src(a) == op for a in list(c.args) + [k.value for k in c.keywords]))]
                if bad:
                    run.fail("R14.3", inst, f"the {ph.name} arm hands the placeholder itself to `{src(bad[0])[:60]}`", fi=f, node=bad[0])
                else:
                    run.ok("R14.3", inst)
            # unary placeholders must be handled by the unary dispatcher, binary ones by the binary dispatcher
            is_unary = m.is_subclass(ph, ctx.k.unary_root)
            if arms == 0 and ((is_unary and "unary" in fn) or (not is_unary and "binary" in fn)):
                run.fail("R14.3", f"{fn}:{ph.name}:arm", f"{fn} has no arm for the placeholder {ph.name}", fi=f)


# ------------------------------------------------------------------ R14.4


def r14_4_join_columns(ctx: Ctx) -> None:
    run, m = ctx.run, ctx.m
    run.rule(
        "R14.4",
        "every Join that reaches a node has min_columns == max_columns == resolved common columns, which are key columns "
        "common to both operands",
        expected_min=5,
    )
    join = ctx.op_class("Join")
    begin = join.methods["_begin_apply"]
    for i, p in enumerate(ctx.paths(begin)):
        if p.outcome != "return":
            continue
        inst = f"Join._begin_apply:path{i}"
        v = p.value
        val = resolve_name(p, v.id) if isinstance(v, ast.Name) else v
        if isinstance(v, ast.Name) and v.id == "self":
            val = v
        if isinstance(val, ast.Call) and (dotted(val.func) or "").split(".")[-1] in ("IgnoreOne",):
            run.ok("R14.4", inst, {"returns": "IgnoreOne placeholder"})
            continue
        if isinstance(val, ast.Call) and (dotted(val.func) or "").endswith("replace"):
            a, b = kw(val, "min_columns"), kw(val, "max_columns")
            ok = a is not None and b is not None and src(a) == src(b)
            x = resolve_name(p, a.id) if ok and isinstance(a, ast.Name) else a
            ok = ok and isinstance(x, ast.Call) and call_attr(x) == "applied_common_columns"
            if ok:
                run.ok("R14.4", inst, {"returns": src(val)})
            else:
                run.fail("R14.4", inst, f"the resolved join `{src(val)[:90]}` does not set min_columns and max_columns to the same applied_common_columns(...) result", fi=begin, node=p.node)
            continue
        if isinstance(val, ast.Name) and val.id == "self":
            facts = path_facts(p)
            if has_fact(facts, "EQ", ("self.max_columns", "self.min_columns"), True):
                run.ok("R14.4", inst, {"returns": "self (already resolved)"})
            else:
                run.fail("R14.4", inst, "Join._begin_apply returns `self` on a path where max_columns == min_columns was not established", fi=begin, node=p.node, details=describe(p))
            continue
        run.fail("R14.4", inst, f"unrecognised returned operation `{src(v)}`", fi=begin, node=p.node)
    acc = join.methods.get("applied_common_columns")
    if acc is None:
        raise AnalysisError("Join.applied_common_columns is missing")
    comps = [n for n in ast.walk(acc.node) if isinstance(n, (ast.SetComp, ast.GeneratorExp, ast.ListComp))]
    ok_key = False
    ok_both = False
    for c in comps:
        gen = c.generators[0]
        it = gen.iter
        if isinstance(it, ast.BinOp) and isinstance(it.op, ast.BitAnd):
            params = [q for q in acc.params if q != "self"]
            sides = {src(it.left), src(it.right)}
            ok_both = sides == {f"{params[0]}.columns", f"{params[1]}.columns"}
        ok_key = any(isinstance(n, ast.Attribute) and n.attr == "is_key" for cond in gen.ifs for n in ast.walk(cond))
    if ok_key and ok_both:
        run.ok("R14.4", "Join.applied_common_columns:key-columns-of-both", {"comprehension": src(comps[0]) if comps else ""})
    else:
        run.fail("R14.4", "Join.applied_common_columns:key-columns-of-both", "resolved common columns are not computed as the key columns in the intersection of both operands' columns", fi=acc)
    # max_columns restriction
    if any(isinstance(n, ast.AugAssign) and isinstance(n.op, ast.BitAnd) and "max_columns" in src(n.value) for n in ast.walk(acc.node)) or any(
        isinstance(n, ast.BinOp) and isinstance(n.op, ast.BitAnd) and "max_columns" in src(n) for n in ast.walk(acc.node)
    ):
        run.ok("R14.4", "Join.applied_common_columns:max-restriction")
    else:
        run.fail("R14.4", "Join.applied_common_columns:max-restriction", "max_columns no longer restricts the resolved common columns", fi=acc)
    pj = ctx.op_class("PartialJoin").methods["_begin_apply"]
    reps = [c for c in iter_calls(pj.node) if (dotted(c.func) or "").endswith("replace") and kw(c, "min_columns") is not None]
    if not reps:
        raise AnalysisError("PartialJoin._begin_apply no longer resolves the join's common columns")
    for c in reps:
        a, b = kw(c, "min_columns"), kw(c, "max_columns")
        if a is not None and b is not None and src(a) == src(b):
            run.ok("R14.4", "PartialJoin._begin_apply:resolve", {"call": src(c)})
        else:
            run.fail("R14.4", "PartialJoin._begin_apply:resolve", "PartialJoin resolves min_columns and max_columns to different values", fi=pj, node=c)


# ------------------------------------------------------------------ R14.6


def r14_6_engine_of_node(ctx: Ctx) -> None:
    run, m = ctx.run, ctx.m
    run.rule("R14.6", "the engine of an operation/marker node is its operand's engine; only Transfer overrides `engine`", expected_min=4)
    expect = {
        (OPREL, "UnaryOperationRelation"): {"self.target.engine"},
        (OPREL, "BinaryOperationRelation"): {"self.lhs.engine", "self.rhs.engine"},
        (MARKER, "MarkerRelation"): {"self.target.engine"},
        (TRANSFER, "Transfer"): {"self.destination"},
    }
    for (rel, name), ok_vals in expect.items():
        c = ctx.cls(rel, name)
        f = c.methods.get("engine")
        inst = f"{name}.engine"
        if f is None:
            run.fail("R14.6", inst, f"{name} no longer defines `engine`", file=c.module.path, line=c.node.lineno, func=name)
            continue
        rets = {src(p.value) for p in ctx.paths(f) if p.outcome == "return"}
        if rets and rets <= ok_vals:
            run.ok("R14.6", inst, {"returns": sorted(rets)})
        else:
            run.fail("R14.6", inst, f"{name}.engine returns {sorted(rets)} instead of {sorted(ok_vals)}", fi=f)
    for c in m.subclasses(ctx.k.marker, strict=True):
        if c.name != "Transfer":
            inst = f"{c.name}.engine:not-overridden"
            if "engine" in c.methods or any(f.name == "engine" for f in c.own_fields):
                run.fail("R14.6", inst, f"marker class {c.name} overrides `engine`: engines must change only at Transfer nodes", file=c.module.path, line=c.node.lineno, func=c.name)
            else:
                run.ok("R14.6", inst)


# ------------------------------------------------------------------ R15.1


def _relation_param(fi: FunctionInfo) -> str:
    for p in fi.params:
        if p in ("self", "cls"):
            continue
        ann = fi.param_annotation(p)
        if ann is not None and "Relation" in src(ann):
            return p
    raise AnalysisError(f"{fi.key}: no Relation-typed parameter")


def r15_1_rewriters_stop_at_locked(ctx: Ctx) -> None:
    run, m, k = ctx.run, ctx.m, ctx.k
    run.rule(
        "R15.1",
        "every tree rewriter (backtrack_unary, sql conform, Transfer.simplify) descends into a node only when the node's "
        "kind cannot be locked on that path (is_locked tested and returned, or only never-locked kinds match)",
        expected_min=8,
    )
    rewriters = [
        m.func(IT_ENGINE, "Engine.backtrack_unary"),
        m.func(SQL_ENGINE, "Engine.conform"),
        m.func(TRANSFER, "Transfer.simplify"),
        m.func(ENGINE, "Engine.backtrack_unary"),
    ]
    kinds = [c for c in k.relation_kinds if not m.is_abstract(c)]
    lockable = [c for c in kinds if m.const_property(c, "is_locked") is True]
    if not lockable:
        raise AnalysisError("no relation kind has a constant-True is_locked: the locking model changed")
    # the property names the locked kinds: leaves and materializations, unconditionally
    for c in kinds:
        want = c.name in ("LeafRelation", "Materialization")
        val = m.const_property(c, "is_locked")
        inst = f"is_locked:{c.name}"
        if val is want:
            run.ok("R15.1", inst, {"is_locked": val})
        else:
            fn = m.method(c, "is_locked")
            run.fail(
                "R15.1",
                inst,
                f"{c.name}.is_locked is {'not a constant' if not isinstance(val, bool) else val}; "
                + ("leaves and materializations are locked unconditionally (a payload cached on them must stay shared and nothing may be inserted upstream)" if want else "only leaves and materializations are locked"),
                fi=fn,
            )
    for f in rewriters:
        r = _relation_param(f)
        ev = ctx.ev(f)
        descents = 0
        for i, p in enumerate(ctx.paths(f)):
            st = AbsState({r: ClsVal(frozenset(kinds))})
            for j, s in enumerate(p.steps):
                # does this step descend below `r`?
                descend = False
                if s.kind == "case" and s.value and src(s.subject) == r:
                    caps = pattern_captures(s.node.pattern)  # type: ignore[union-attr]
                    descend = any(path and path[0] in ("target", "lhs", "rhs") for path in caps.values())
                elif s.kind in ("stmt", "cond"):
                    for n in ast.walk(s.node):
                        ch = attr_chain(n) if isinstance(n, ast.Attribute) else None
                        if ch and ch[0] == r and len(ch) >= 2 and ch[1] in ("target", "lhs", "rhs"):
                            descend = True
                ev.narrow(s, st)
                if descend:
                    descents += 1
                    v = st.get(r)
                    cls_now = v.classes if isinstance(v, ClsVal) else frozenset(kinds)
                    bad = [c for c in cls_now if m.const_property(c, "is_locked") is True]
                    inst = f"{f.module.rel}:{f.qualname}:path{i}"
                    if bad:
                        run.fail(
                            "R15.1",
                            inst,
                            f"{f.qualname} descends into `{r}` on a path where it can still be a locked "
                            f"{'/'.join(sorted(c.name for c in bad))}: a locked subtree would be rewritten",
                            fi=f,
                            node=s.node if not isinstance(s.node, ast.match_case) else s.node.pattern,
                            details=describe(p),
                        )
                    else:
                        run.ok("R15.1", inst, {"kinds_at_descent": sorted(c.name for c in cls_now)})
                    break
        # a loop that walks down the tree by re-binding a name to its own child visits nodes the paths above never see
        # (loops are unrolled once): the lock test must be inside the loop
        for loop in [n for n in ast.walk(f.node) if isinstance(n, (ast.While, ast.For))]:
            child_of: dict[str, str] = {}
            for n in ast.walk(loop):
                if isinstance(n, ast.Assign) and len(n.targets) == 1 and isinstance(n.targets[0], ast.Name):
                    ch = attr_chain(n.value) if isinstance(n.value, ast.Attribute) else None
                    if ch and len(ch) >= 2 and ch[1] in ("target", "lhs", "rhs"):
                        child_of[n.targets[0].id] = ch[0]
            walkers = set()
            for n in ast.walk(loop):
                if isinstance(n, ast.Assign) and len(n.targets) == 1 and isinstance(n.targets[0], ast.Name):
                    x = n.targets[0].id
                    if child_of.get(x) == x or (isinstance(n.value, ast.Name) and child_of.get(n.value.id) == x):
                        walkers.add(x)
            for x in sorted(walkers):
                names = {x} | {c for c, par in child_of.items() if par == x}
                tests = [loop.test] if isinstance(loop, ast.While) else []
                for n in ast.walk(loop):
                    if isinstance(n, ast.If) and n.body and isinstance(n.body[-1], (ast.Return, ast.Break, ast.Raise)):
                        tests.append(n.test)
                guarded = any(isinstance(a, ast.Attribute) and a.attr == "is_locked" and isinstance(a.value, ast.Name) and a.value.id in names for t in tests for a in ast.walk(t))
                inst = f"{f.module.rel}:{f.qualname}:loop:{x}"
                if guarded:
                    run.ok("R15.1", inst)
                else:
                    run.fail(
                        "R15.1",
                        inst,
                        f"{f.qualname} walks down the tree in a loop (`{x}` is re-bound to its own child) without testing `is_locked` of each node it steps to: only the node the loop starts at "
                        "is checked, so a leaf or materialization further down is walked through and the subtree above it is rewritten or dropped",
                        fi=f,
                        node=loop,
                    )
        if descents == 0 and f.qualname != "Engine.backtrack_unary" or (descents == 0 and f.module.rel == IT_ENGINE):
            raise AnalysisError(f"{f.key} no longer descends into its relation: not a rewriter any more")
    # the base engine's backtrack_unary hands the tree back untouched
    base = m.func(ENGINE, "Engine.backtrack_unary")
    r = _relation_param(base)
    for i, p in enumerate(ctx.paths(base)):
        v = p.value
        ok = p.outcome == "return" and isinstance(v, ast.Tuple) and len(v.elts) == 3 and src(v.elts[0]) == r and isinstance(v.elts[1], ast.Constant) and v.elts[1].value is False
        if ok:
            run.ok("R15.1", f"base.backtrack_unary:path{i}")
        else:
            run.fail("R15.1", f"base.backtrack_unary:path{i}", "the base Engine.backtrack_unary must return (tree, False, ...) unchanged", fi=base, node=p.node or base.node)


# ------------------------------------------------------------------ R15.2


def _is_target_of(p: Path, e: ast.expr | None, subject: str) -> bool:
    """Does ``e`` denote ``<subject>.target`` (a pattern capture of it, a local bound to it, or the attribute)?"""
    from ..flow import denotes

    return denotes(p, e, subject, ("target",))


def r15_2_simplification_shapes(ctx: Ctx) -> None:
    run, m = ctx.run, ctx.m
    run.rule(
        "R15.2",
        "Transfer.simplify returns None or a relation already in the destination engine reached through unlocked markers; "
        "Engine.transfer returns the target itself for its own engine; Materialization.simplify/Engine.materialize add no "
        "second materialization",
        expected_min=10,
    )
    ts = m.func(TRANSFER, "Transfer.simplify")
    params = [p for p in ts.params if p != "cls"]
    tgt, dest = params[0], params[1]
    for i, p in enumerate(ctx.paths(ts)):
        inst = f"Transfer.simplify:path{i}"
        if p.outcome != "return":
            run.fail("R15.2", inst, "Transfer.simplify has a path that does not return", fi=ts, node=p.node or ts.node)
            continue
        v = p.value
        facts = path_facts(p)
        if isinstance(v, ast.Constant) and v.value is None:
            run.ok("R15.2", inst)
        elif isinstance(v, ast.Name):
            is_target_capture = _is_target_of(p, v, tgt)
            in_transfer_arm = any(s.kind == "case" and s.value and "Transfer" in src(s.node.pattern) for s in p.steps)  # type: ignore[union-attr]
            same_engine = has_fact(facts, "EQ", tuple(sorted((dest, f"{v.id}.engine"))), True) or has_fact(facts, "EQ", tuple(sorted((dest, f"{tgt}.target.engine"))), True)
            not_locked = has_fact(facts, "TRUTH", (f"{tgt}.is_locked",), False)
            if is_target_capture and in_transfer_arm and same_engine and not_locked:
                run.ok("R15.2", inst, {"returns": f"{v.id} (target of a transfer, engine == destination)"})
            else:
                run.fail(
                    "R15.2",
                    inst,
                    f"Transfer.simplify returns `{v.id}` without all of: it is the target of a Transfer, its engine equals the "
                    "destination, and the node looked through is not locked",
                    fi=ts,
                    node=p.node,
                    details=describe(p),
                )
        elif isinstance(v, ast.Call) and call_attr(v) == "simplify":
            a0 = v.args[0] if v.args else None
            ok = _is_target_of(p, a0, tgt) and len(v.args) > 1 and src(v.args[1]) == dest
            ok = ok and has_fact(facts, "TRUTH", (f"{tgt}.is_locked",), False)
            if ok:
                run.ok("R15.2", inst)
            else:
                run.fail("R15.2", inst, f"recursive simplification `{src(v)}` does not step to the marker's target with the same destination behind an is_locked test", fi=ts, node=p.node, details=describe(p))
        else:
            run.fail("R15.2", inst, f"Transfer.simplify returns `{src(v)[:60]}`", fi=ts, node=p.node)
    # Engine.transfer
    tr = m.func(ENGINE, "Engine.transfer")
    tp = [p for p in tr.params if p != "self"]
    own = [p for p in ctx.paths(tr) if has_fact(path_facts(p), "EQ", tuple(sorted((f"{tp[0]}.engine", "self"))), True)]
    if not own:
        raise AnalysisError("Engine.transfer has no `target.engine == self` path")
    for i, p in enumerate(own):
        inst = f"Engine.transfer:own-engine:path{i}"
        if p.outcome == "return" and src(p.value) == tp[0]:
            if has_fact(path_facts(p), "IS", tuple(sorted(("None", tp[1]))), True):
                run.ok("R15.2", inst)
            else:
                run.fail("R15.2", inst, "a transfer that is simplified away silently drops a payload it was given", fi=tr, node=p.node, details=describe(p))
        elif p.raises("EngineError"):
            run.ok("R15.2", inst)
        else:
            run.fail("R15.2", inst, f"transfer to the relation's own engine does not return the relation (returns `{src(p.value)[:60]}`)", fi=tr, node=p.node or tr.node, details=describe(p))
    # the simplified target replaces `target` only when simplify() found one
    calls = [c for c in iter_calls(tr.node) if call_attr(c) == "simplify"]
    if calls and len(calls[0].args) >= 2 and src(calls[0].args[0]) == tp[0] and src(calls[0].args[1]) == "self":
        run.ok("R15.2", "Engine.transfer:simplify(target, self)")
    else:
        run.fail("R15.2", "Engine.transfer:simplify(target, self)", "Engine.transfer does not look for an existing relation in the destination engine with Transfer.simplify(target, self)", fi=tr)
    # conform before wrapping
    ok_conf = False
    for p in ctx.paths(tr):
        if p.outcome == "return" and isinstance(p.value, ast.Call) and (dotted(p.value.func) or "").split(".")[-1] == "Transfer":
            a0 = p.value.args[0] if p.value.args else kw(p.value, "target")
            b = resolve_name(p, a0.id) if isinstance(a0, ast.Name) else a0
            ok_conf = isinstance(b, ast.Call) and call_attr(b) == "conform"
    if ok_conf:
        run.ok("R15.2", "Engine.transfer:conform-source")
    else:
        run.fail("R15.2", "Engine.transfer:conform-source", "the source of a new Transfer is not conformed by its own engine first", fi=tr)

    # Engine.transfer / Engine.materialize hand back the given relation or exactly one new marker around it
    for fn_name, marker, given in (("transfer", "Transfer", tp[0]), ("materialize", "Materialization", None)):
        fn = m.func(ENGINE, f"Engine.{fn_name}")
        gp = given or [q for q in fn.params if q != "self"][0]
        for i, p in enumerate(ctx.paths(fn)):
            if p.outcome != "return":
                continue
            v = p.value
            vb = resolve_name(p, v.id) if isinstance(v, ast.Name) and v.id != gp else v
            inst = f"Engine.{fn_name}:returns:path{i}"
            is_given = isinstance(v, ast.Name) and v.id == gp
            is_marker = isinstance(vb, ast.Call) and (dotted(vb.func) or "").split(".")[-1] == marker
            if is_given or is_marker:
                run.ok("R15.2", inst)
            else:
                run.fail(
                    "R15.2",
                    inst,
                    f"Engine.{fn_name} returns `{src(v)[:70]}`: it may hand back the relation it was given (or the simplified one) or a new {marker} around it, nothing else - "
                    "a substitute (another leaf, a renamed copy of a locked node) is not the object the caller holds, and whatever is cached on the one is not seen by the other",
                    fi=fn,
                    node=p.node,
                    details=describe(p),
                )

    # Materialization.simplify
    ms = m.func(MATERIALIZATION, "Materialization.simplify")
    mt = [p for p in ms.params if p != "cls"][0]
    for i, p in enumerate(ctx.paths(ms)):
        inst = f"Materialization.simplify:path{i}"
        v = p.value
        if p.outcome != "return":
            run.fail("R15.2", inst, "Materialization.simplify has a non-returning path", fi=ms, node=p.node or ms.node)
            continue
        matched = [src(s.node.pattern) for s in p.steps if s.kind == "case" and s.value]  # type: ignore[union-attr]
        if isinstance(v, ast.Constant) and v.value is True:
            if matched and any(x.startswith(("Materialization(", "LeafRelation(")) for x in matched):
                run.ok("R15.2", inst)
            else:
                run.fail("R15.2", inst, "Materialization.simplify answers True for something that is neither a leaf nor a materialization", fi=ms, node=p.node, details=describe(p))
        elif isinstance(v, ast.Constant) and v.value is False:
            run.ok("R15.2", inst)
        elif isinstance(v, ast.Call) and call_attr(v) == "simplify":
            a0 = v.args[0] if v.args else None
            ok = _is_target_of(p, a0, mt)
            fs = path_facts(p)
            ok = ok and (has_fact(fs, "EQ", tuple(sorted((f"{mt}.engine", f"{src(a0)}.engine"))), True) or has_fact(fs, "EQ", tuple(sorted((f"{mt}.engine", f"{mt}.target.engine"))), True))
            if ok:
                run.ok("R15.2", inst)
            else:
                run.fail("R15.2", inst, "Materialization.simplify looks through a marker without checking that it does not change engine", fi=ms, node=p.node, details=describe(p))
        else:
            run.fail("R15.2", inst, f"Materialization.simplify returns `{src(v)[:60]}`", fi=ms, node=p.node)
    mat = m.func(ENGINE, "Engine.materialize")
    mp = [p for p in mat.params if p != "self"][0]
    ok = False
    for p in ctx.paths(mat):
        if p.outcome == "return" and src(p.value) == mp:
            ok = any(f.kind == "TRUTH" and f.polarity and "simplify" in f.args[0] for f in path_facts(p))
    if ok:
        run.ok("R15.2", "Engine.materialize:already-materialized")
    else:
        run.fail("R15.2", "Engine.materialize:already-materialized", "Engine.materialize no longer returns the target itself when Materialization.simplify says it is already materialized", fi=mat)
    for p in ctx.paths(mat):
        if p.outcome == "return" and isinstance(p.value, ast.Call) and (dotted(p.value.func) or "").split(".")[-1] == "Materialization":
            t = kw(p.value, "target") or (p.value.args[0] if p.value.args else None)
            if t is not None and src(t) == mp:
                run.ok("R15.2", "Engine.materialize:target")
            else:
                run.fail("R15.2", "Engine.materialize:target", f"the new Materialization wraps `{src(t)}` instead of the given target", fi=mat, node=p.node)


# ------------------------------------------------------------------ R17


def select_producing(ctx: Ctx) -> set[str]:
    """Names of sql-engine functions all of whose returns are Select-producing (least fixpoint)."""
    m = ctx.m
    eng = ctx.cls(SQL_ENGINE, "Engine")
    sel = ctx.cls(SQL_SELECT, "Select")
    cands = {n: f for n, f in list(eng.methods.items()) + list(sel.methods.items())}
    good: set[str] = {"apply_skip", "reapply_skip"}
    # apply_skip returns cls(...), reapply_skip returns apply_skip(...)/self: verified by R17.3
    changed = True
    while changed:
        changed = False
        for n, f in cands.items():
            if n in good or f.is_abstract:
                continue
            if all(_is_select_expr(ctx, f, p, p.value, good) for p in ctx.paths(f) if p.outcome == "return") and any(p.outcome == "return" for p in ctx.paths(f)):
                good.add(n)
                changed = True
    return good


def _is_select_expr(ctx: Ctx, f: FunctionInfo, p: Path, v: ast.expr | None, good: set[str], depth: int = 5) -> bool:
    if v is None or depth <= 0:
        return False
    if isinstance(v, ast.Name):
        if v.id == "self" and f.cls is not None and f.cls.name == "Select":
            return True
        bound = env_at(p).get(v.id)
        if bound is None:
            from ..astutil import pattern_class_names

            for s in p.steps:
                if s.kind == "case" and s.value and src(s.subject) == v.id and pattern_class_names(s.node.pattern) == ["Select"]:  # type: ignore[union-attr]
                    return True
            ann = f.param_annotation(v.id)
            return ann is not None and src(ann).strip("'\"") == "Select"
        if isinstance(bound, tuple):
            return False
        return _is_select_expr(ctx, f, p, bound, good, depth - 1)
    if isinstance(v, ast.Call):
        name = call_attr(v)
        if name == "cast" and len(v.args) == 2 and src(v.args[0]) == "Select":
            return True
        if name == "cls" and f.cls is not None and f.cls.name == "Select":
            return True
        return name in good
    return False


def _tests_chain(pat: ast.pattern) -> bool:
    """`BinaryOperationRelation(operation=Chain())`: both are class patterns (a bare `Chain` would be a capture that
    matches every operation and merely binds a local of that name)."""
    if not (isinstance(pat, ast.MatchClass) and (dotted(pat.cls) or "").split(".")[-1] == "BinaryOperationRelation" and not pat.patterns):
        return False
    subs = dict(zip(pat.kwd_attrs, pat.kwd_patterns))
    if set(subs) != {"operation"}:
        return False
    op = subs["operation"]
    while isinstance(op, ast.MatchAs) and op.pattern is not None:
        op = op.pattern
    return isinstance(op, ast.MatchClass) and (dotted(op.cls) or "").split(".")[-1] == "Chain" and not op.patterns and not op.kwd_patterns


def r17_conform(ctx: Ctx, rules: tuple[str, str, str] = ("R17.1", "R17.2", "R17.3")) -> None:
    run, m = ctx.run, ctx.m
    r1, r2, r3 = rules
    run.rule(r1, "conform is a fixed point on Select: the arm matching a Select returns the relation itself and precedes the generic marker arm", expected_min=1)
    run.rule(r2, "every SQL-engine factory returns a conformed (Select-producing) expression on every path", expected_min=10)
    run.rule(
        r3,
        "Select.apply_skip is the single construction site: applies sort, projection, deduplication, slice in that order via "
        "_finish_apply on the running target, passes the same objects to the constructor, sets is_compound from a Chain "
        "skip target; reapply_skip only forwards; Select.reapply re-conforms",
        expected_min=8,
    )
    conform = m.func(SQL_ENGINE, "Engine.conform")
    r = _relation_param(conform)
    sel = ctx.cls(SQL_SELECT, "Select")
    ev = ctx.ev(conform)
    hit = False
    for p in ctx.paths(conform):
        from ..absval import feasible

        ok, _ = feasible(p, AbsState({r: ClsVal(frozenset([sel]))}), ev)
        if not ok:
            continue
        hit = True
        if p.outcome == "return" and src(p.value) == r:
            run.ok(r1, "conform(Select)", {"path": p.describe()})
        else:
            run.fail(r1, "conform(Select)", f"conform of an already conformed relation returns `{src(p.value)[:60]}` instead of the relation itself", fi=conform, node=p.node or conform.node, details=describe(p))
    if not hit:
        raise AnalysisError("no feasible path of conform for a Select argument")
    # an operation gets onto a Select only through the placement functions: conform re-applies raw operation nodes by
    # conforming their operands and handing them to _append_unary_to_select / _append_binary_to_select
    from ..flow import denotes as _denotes

    for kind, hook, fields in (("UnaryOperationRelation", "_append_unary_to_select", ("target",)), ("BinaryOperationRelation", "_append_binary_to_select", ("lhs", "rhs"))):
        arm_paths = [(case_index(p, kind, r), p) for p in ctx.paths(conform)]
        arm_paths = [(i, p) for i, p in arm_paths if i >= 0 and p.outcome == "return"]
        if not arm_paths:
            raise AnalysisError(f"sql conform has no returning {kind} arm")
        for i, p in arm_paths:
            v = p.value
            vb = resolve_name(p, v.id) if isinstance(v, ast.Name) else v
            inst = f"conform({kind})"
            ok = isinstance(vb, ast.Call) and call_attr(vb) == hook and isinstance(vb.func, ast.Attribute) and src(vb.func.value) == "self" and len(vb.args) == 1 + len(fields)
            if ok:
                ok = _denotes(p, vb.args[0], r, ("operation",))
                for a, fld in zip(vb.args[1:], fields):
                    ab = resolve_name(p, a.id) if isinstance(a, ast.Name) else a
                    ok = ok and isinstance(ab, ast.Call) and call_attr(ab) == "conform" and src(ab.func.value) == "self" and bool(ab.args) and _denotes(p, ab.args[0], r, (fld,))
            if ok:
                run.ok(r1, inst)
            else:
                run.fail(
                    r1,
                    inst,
                    f"conform re-applies a raw {kind} with `{src(vb)[:70] if isinstance(vb, ast.AST) else '?'}` instead of self.{hook}(<operation>, {', '.join('self.conform(<' + x + '>)' for x in fields)}): "
                    "only the placement functions know where an operation may go in a Select (below or above its slice, sort, DISTINCT, UNION) - any other route changes the rows or the order",
                    fi=conform,
                    node=p.node,
                    details=describe(p),
                )

    # a marker the engine does not know is looked through: what stays under the new Select is the conformed target
    # (to_payload has arms for the kinds conform leaves there - it has none for somebody else's marker)
    mk = [(case_index(p, "MarkerRelation", r), p) for p in ctx.paths(conform)]
    mk = [(i, p) for i, p in mk if i >= 0 and p.outcome == "return" and case_index(p, "Select", r) < 0]
    for i, p in mk:
        from ..astutil import pattern_class_names as _pcn

        if _pcn(p.steps[i].node.pattern) != ["MarkerRelation"]:  # type: ignore[union-attr]
            continue
        v = p.value
        vb = resolve_name(p, v.id) if isinstance(v, ast.Name) else v
        a0 = vb.args[0] if isinstance(vb, ast.Call) and call_attr(vb) == "apply_skip" and vb.args else None
        ab = resolve_name(p, a0.id) if isinstance(a0, ast.Name) else a0
        ok = isinstance(ab, ast.Call) and call_attr(ab) == "conform" and src(ab.func.value) == "self" and bool(ab.args) and _denotes(p, ab.args[0], r, ("target",))
        if ok:
            run.ok(r1, "conform(other marker)")
        else:
            run.fail(
                r1,
                "conform(other marker)",
                f"conform of a marker kind the SQL engine does not know returns `{src(vb)[:70] if isinstance(vb, ast.AST) else '?'}` instead of Select.apply_skip(self.conform(<target>)): "
                "a marker left under the Select is a node to_payload has no arm for - the tree is accepted and cannot be compiled",
                fi=conform,
                node=p.node,
                details=describe(p),
            )

    good = select_producing(ctx)
    for name in ("make_leaf", "conform", "materialize", "transfer", "append_unary", "append_binary", "make_doomed_relation", "make_join_identity_relation", "_append_unary_to_select", "_append_binary_to_select"):
        f = m.func(SQL_ENGINE, f"Engine.{name}")
        for i, p in enumerate(ctx.paths(f)):
            if p.outcome != "return":
                continue
            inst = f"sql.Engine.{name}:path{i}"
            if _is_select_expr(ctx, f, p, p.value, good):
                run.ok(r2, inst, {"returns": src(p.value)[:80]})
            else:
                run.fail(r2, inst, f"sql Engine.{name} returns `{src(p.value)[:80]}`, which is not known to be a conformed Select", fi=f, node=p.node, details=describe(p))

    # ---- R17.3
    ask = m.func(SQL_SELECT, "Select.apply_skip")
    order = ["sort", "projection", "deduplication", "slice"]
    # local names: the running target (first bound to skip_to) and the compound flag (what the constructor receives)
    run_t = next((src(n.targets[0]) for n in ast.walk(ask.node) if isinstance(n, ast.Assign) and src(n.value) == "skip_to" and isinstance(n.targets[0], ast.Name)), "target")
    comp_v = "is_compound"
    for c in iter_calls(ask.node):
        if (dotted(c.func) or "") in ("cls", "Select") and kw(c, "is_compound") is not None:
            comp_v = src(kw(c, "is_compound"))
    for i, p in enumerate(ctx.paths(ask)):
        if p.outcome != "return":
            continue
        inst = f"apply_skip:path{i}"
        seq = []
        bad = None
        for j, c in path_calls(p):
            if call_attr(c) == "_finish_apply" and isinstance(c.func, ast.Attribute):
                recv = src(c.func.value)
                seq.append(recv)
                if not c.args or src(c.args[0]) != run_t:
                    bad = f"`{src(c)}` is not applied to the running target"
        idxs = [order.index(s) for s in seq if s in order]
        if any(s not in order for s in seq):
            bad = bad or f"unexpected operation applied in apply_skip: {seq}"
        if idxs != sorted(idxs) or len(set(idxs)) != len(idxs):
            bad = bad or f"slot operations are applied in the order {seq}, expected sort, projection, deduplication, slice"
        v = p.value
        if not (isinstance(v, ast.Call) and (dotted(v.func) or "") in ("cls", "Select")):
            bad = bad or f"apply_skip returns `{src(v)[:50]}`"
        else:
            for slot in order + ["skip_to", "target", "is_compound"]:
                a = kw(v, slot)
                want = {"target": run_t, "is_compound": comp_v}.get(slot, slot)
                if a is None or src(a) != want:
                    bad = bad or f"constructor argument {slot}={src(a)} is not the object that was applied"
        if bad:
            run.fail(r3, inst, bad, fi=ask, node=p.node, details=describe(p))
        else:
            run.ok(r3, inst, {"applied": seq})
    # each slot application is present on some path and is guarded by the slot's non-triviality
    for slot, guard_texts in (("sort", ("sort.terms",)), ("projection", ("projection",)), ("deduplication", ("deduplication",)), ("slice", ("slice.start", "slice.limit", "slice.stop"))):
        applied = [p for p in ctx.paths(ask) if any(call_attr(c) == "_finish_apply" and isinstance(c.func, ast.Attribute) and src(c.func.value) == slot for _, c in path_calls(p))]
        skipped = [p for p in ctx.paths(ask) if p not in applied]
        inst = f"apply_skip:slot:{slot}"
        if not applied:
            run.fail(r3, inst, f"apply_skip never applies the `{slot}` slot: the marker would record an operation its target lacks", fi=ask)
            continue
        # on paths that skip it, the slot must have been tested trivial
        ok = True
        for p in skipped:
            fs = path_facts(p)
            if not any(any(g in a for a in f.args for g in guard_texts) for f in fs):
                ok = False
        if ok:
            run.ok(r3, inst)
        else:
            run.fail(r3, inst, f"the `{slot}` slot is skipped on a path that never tested it for triviality", fi=ask)
    # is_compound
    comp_true = [n for n in ast.walk(ask.node) if isinstance(n, ast.Assign) and any(src(t) == comp_v for t in n.targets) and isinstance(n.value, ast.Constant) and n.value.value is True]
    ok = False
    for n in ast.walk(ask.node):
        if isinstance(n, ast.Match) and src(n.subject) == "skip_to":
            for case in n.cases:
                if _tests_chain(case.pattern) and case.guard is None and any(a in case.body for a in comp_true):
                    ok = len(comp_true) == 1
    default_false = any(isinstance(n, ast.Assign) and any(src(t) == comp_v for t in n.targets) and isinstance(n.value, ast.Constant) and n.value.value is False for n in ast.walk(ask.node))
    if not (ok and default_false):
        # the same condition written as one boolean expression
        for n in ast.walk(ask.node):
            if isinstance(n, ast.Assign) and any(src(t) == comp_v for t in n.targets) and isinstance(n.value, ast.BoolOp) and isinstance(n.value.op, ast.And):
                tests = sorted(src(x) for x in n.value.values)
                if tests == sorted(["isinstance(skip_to, BinaryOperationRelation)", "isinstance(skip_to.operation, Chain)"]):
                    ok = default_false = True
    if not (ok and default_false):
        # ... or handed to the constructor as that expression
        for c in iter_calls(ask.node):
            v = kw(c, "is_compound") if (dotted(c.func) or "") in ("cls", "Select") else None
            if isinstance(v, ast.BoolOp) and isinstance(v.op, ast.And) and sorted(src(x) for x in v.values) == sorted(["isinstance(skip_to, BinaryOperationRelation)", "isinstance(skip_to.operation, Chain)"]):
                ok = default_false = True
    if ok and default_false:
        run.ok(r3, "apply_skip:is_compound")
    else:
        run.fail(r3, "apply_skip:is_compound", "is_compound is not set exactly when skip_to is a BinaryOperationRelation holding a Chain", fi=ask)
    # reapply_skip forwards
    rsk = m.func(SQL_SELECT, "Select.reapply_skip")
    for i, p in enumerate(ctx.paths(rsk)):
        if p.outcome != "return":
            continue
        inst = f"reapply_skip:path{i}"
        v = p.value
        if isinstance(v, ast.Name) and v.id == "self":
            fs = path_facts(p)
            if has_fact(fs, "TRUTH", ("kwargs",), False) and has_fact(fs, "IS", tuple(sorted(("skip_to", "self.skip_to"))), True):
                run.ok(r3, inst)
            else:
                run.fail(r3, inst, "reapply_skip returns self although a slot or the skip target may have changed", fi=rsk, node=p.node, details=describe(p))
        elif isinstance(v, ast.Call) and call_attr(v) == "apply_skip":
            from ..flow import expanded_value

            ev = expanded_value(p)
            v0 = v
            v = ev if isinstance(ev, ast.Call) else v
            bad = None
            a0 = v0.args[0] if v0.args else kw(v0, "skip_to")
            if a0 is None or src(a0) != "skip_to":
                bad = "skip_to is not forwarded"
            for slot in order:
                a = kw(v, slot)
                if a is None or src(a) != f"kwargs.get('{slot}', self.{slot})":
                    bad = bad or f"slot `{slot}` is forwarded as `{src(a)}` instead of kwargs.get('{slot}', self.{slot})"
            if bad:
                run.fail(r3, inst, f"reapply_skip: {bad}", fi=rsk, node=p.node)
            else:
                run.ok(r3, inst)
        else:
            run.fail(r3, inst, f"reapply_skip returns `{src(v)[:60]}`", fi=rsk, node=p.node)
    # `after` is applied to the skip target
    ok_after = any(call_attr(c) == "_finish_apply" and isinstance(c.func, ast.Attribute) and src(c.func.value) == "after" and c.args and src(c.args[0]) == "skip_to" for c in iter_calls(rsk.node))
    if ok_after:
        run.ok(r3, "reapply_skip:after")
    else:
        run.fail(r3, "reapply_skip:after", "`after` is not applied to the skip target", fi=rsk)
    r_select_reapply(ctx, r3, declare=False)


def r_select_reapply(ctx: Ctx, rule: str, declare: bool = True) -> None:
    run, m = ctx.run, ctx.m
    if declare:
        run.rule(rule, "Select.reapply hands back the Select itself only for the identical (`is`) target and otherwise re-conforms the new target; it refuses payloads", expected_min=2)
    r3 = rule
    rea = m.func(SQL_SELECT, "Select.reapply")
    for i, p in enumerate(ctx.paths(rea)):
        inst = f"Select.reapply:path{i}"
        if p.outcome == "raise":
            run.ok(r3, inst)
            continue
        v = p.value
        val = resolve_name(p, v.id) if isinstance(v, ast.Name) and v.id != "self" else v
        if isinstance(v, ast.Name) and v.id == "self":
            if has_fact(path_facts(p), "IS", tuple(sorted(("target", "self.target"))), True):
                run.ok(r3, inst)
            else:
                run.fail(r3, inst, "Select.reapply returns self for a different target", fi=rea, node=p.node)
        elif isinstance(val, ast.Call) and call_attr(val) == "conform":
            run.ok(r3, inst)
        else:
            run.fail(r3, inst, f"Select.reapply returns `{src(v)}`, which is neither self nor a re-conformed target", fi=rea, node=p.node)


# ------------------------------------------------------------------ R14.5


def engine_classes(ctx: Ctx) -> list[ClassInfo]:
    root = ctx.cls(ENGINE, "Engine")
    return [c for c in ctx.m.subclasses(root) if c.name == "Engine"]


def r14_5_noop_identity(ctx: Ctx) -> None:
    """Documented no-op calls return the relation itself, through every engine override."""
    from ..alias import AliasAnalysis
    from ..absval import ConstVal, cls_val

    run, m = ctx.run, ctx.m
    run.rule(
        "R14.5",
        "documented no-ops (projection onto all columns, empty sort, trivial slice, trivially true selection, transfer to "
        "the current engine) return the input object itself: identity dataflow through apply(), every engine's "
        "append_unary/transfer override and conform",
        expected_min=9,
    )
    aa = AliasAnalysis(ctx)
    identity = ctx.op_class("Identity")
    sel = ctx.cls(SQL_SELECT, "Select")
    # (a) the no-op predicate of each class leads to Identity in _begin_apply, with the relation's own engine
    for name in ("Projection", "Sort", "Slice", "Selection"):
        c = ctx.op_class(name)
        f = c.methods.get("_begin_apply")
        inst = f"{name}._begin_apply:identity"
        if f is None:
            run.fail("R14.5", inst, f"{name} has no _begin_apply short-cut to Identity", file=c.module.path, line=c.node.lineno, func=name)
            continue
        tgt = [p for p in f.params if p != "self"][0]
        hits = []
        for p in ctx.paths(f):
            v = p.value
            if p.outcome == "return" and isinstance(v, ast.Tuple) and len(v.elts) == 2 and isinstance(v.elts[0], ast.Call) and (dotted(v.elts[0].func) or "").split(".")[-1] == "Identity":
                hits.append((p, src(v.elts[1])))
        if not hits:
            run.fail("R14.5", inst, f"{name}._begin_apply never returns Identity(): the documented no-op would build a node", fi=f)
        elif any(e != f"{tgt}.engine" for _, e in hits):
            run.fail("R14.5", inst, f"the Identity short-cut of {name} prefers `{hits[0][1]}` instead of the target's own engine", fi=f, node=hits[0][0].node)
        else:
            run.ok("R14.5", inst, {"path": hits[0][0].describe()})
    # (b) apply() with an Identity operation returns the target object, for every engine class
    apply_u = m.func(UNARY, "UnaryOperation.apply")
    tgt = [p for p in apply_u.params if p != "self"][0]
    begin_call = None
    for c in iter_calls(apply_u.node):
        if call_attr(c) == "_begin_apply":
            begin_call = src(c)
    if begin_call is None:
        raise AnalysisError("UnaryOperation.apply does not call _begin_apply")
    for e in engine_classes(ctx):
        st = AbsState(
            {f"{tgt}.engine": cls_val(e)},
            {f"{begin_call}#0": cls_val(identity), f"preferred_engine != {tgt}.engine": ConstVal(False)},
        )
        if e.module.rel == SQL_ENGINE:
            st.set(tgt, cls_val(sel))
        srcs = aa.returns(apply_u, st, ctx.k.unary_root)
        inst = f"apply(Identity)@{e.module.rel}"
        if srcs == {f"param:{tgt}"}:
            run.ok("R14.5", inst, {"returns": sorted(srcs)})
        else:
            run.fail(
                "R14.5",
                inst,
                f"applying a do-nothing operation in engine {e.module.rel}:{e.name} can return {sorted(srcs)} instead of the target itself",
                fi=apply_u,
            )
    # (c) transfer to the relation's own engine
    tt = m.func("_relation.py", "BaseRelation.transferred_to")
    dest = [p for p in tt.params if p != "self"][0]
    for e in engine_classes(ctx):
        tf = m.method(e, "transfer")
        tp = [p for p in tf.params if p != "self"]
        base_tf = m.func(ENGINE, "Engine.transfer")
        bp = [p for p in base_tf.params if p != "self"]
        st = AbsState(
            {dest: cls_val(e)},
            {
                f"@Engine.transfer:{bp[0]}.engine == self": ConstVal(True),
                f"@Engine.transfer:Transfer.simplify({bp[0]}, self)": ConstVal(None),
                f"@Engine.transfer:{bp[1]} is not None": ConstVal(False),
            },
        )
        if e.module.rel == SQL_ENGINE:
            st.set("self", cls_val(sel))
        srcs = aa.returns(tt, st, ctx.k.relation_root)
        inst = f"transferred_to(own engine)@{e.module.rel}"
        if srcs == {"param:self"}:
            run.ok("R14.5", inst, {"returns": sorted(srcs)})
        else:
            run.fail(
                "R14.5",
                inst,
                f"transferring a relation to its own engine ({e.module.rel}:{e.name}) can return {sorted(srcs)} instead of the relation itself",
                fi=tf,
            )


# ------------------------------------------------------------------ R06.1 flags and their consumers


def _predicate_trivially_true(facts) -> bool:
    """The path has established `self.predicate.as_trivial() is True` (in any spelling of that test)."""
    for f in facts:
        if f.kind == "IS" and f.polarity and "True" in f.args and any("predicate.as_trivial()" in a for a in f.args):
            return True
        if f.kind == "EQ" and f.polarity and "True" in f.args and any("predicate.as_trivial()" in a for a in f.args):
            return True
    return False


def r06_1_flags(ctx: Ctx, rule: str = "R06.1") -> None:
    """Triviality flags are defined exactly, and the short-cuts keyed on them use them the right way round."""
    run, m = ctx.run, ctx.m
    run.rule(
        rule,
        "flag definitions: is_join_identity <=> no columns and min_rows == max_rows == 1; is_trivial <=> that or "
        "max_rows == 0; consumers (execute short-circuits, join elision, chain pruning) use them the right way round",
        expected_min=8,
    )
    base = ctx.k.relation_root
    ji = base.methods.get("is_join_identity")
    if ji is None:
        raise AnalysisError("BaseRelation.is_join_identity is missing")
    from .. import boolfn as B

    def define(fi, inst, want, want_text, why):
        got = B.function_truth(ctx.paths(fi))
        if got is None:
            run.fail(rule, inst, f"{fi.qualname} can raise or fall off the end instead of returning a flag", fi=fi)
            return
        try:
            same, cex = B.equivalent(got, want)
        except ValueError as e:
            raise AnalysisError(f"{fi.key}: {e}")
        if same:
            run.ok(rule, inst, {"definition": B.show(got)})
        else:
            run.fail(
                rule,
                inst,
                f"{fi.qualname} is `{B.show(got)}`, which differs from {want_text} when {B.show_env(cex)}: {why}",
                fi=fi,
            )

    define(
        ji,
        "is_join_identity:path0",
        B.conj([B.neg(B.atom("TRUTH", "self.columns")), B.atom("EQ", "1", "self.max_rows"), B.atom("EQ", "1", "self.min_rows")]),
        "`no columns and min_rows == max_rows == 1`",
        "joins with such a relation are elided, so a weaker test drops a real operand (a stronger one keeps a useless one and changes trees)",
    )
    tr = base.methods.get("is_trivial")
    if tr is not None:
        define(
            tr,
            "is_trivial:path0",
            B.disj([B.atom("TRUTH", "self.is_join_identity"), B.atom("EQ", "0", "self.max_rows")]),
            "`is_join_identity or max_rows == 0`",
            "trivial relations are skipped by the Processor and short-circuited by engines",
        )
    # consumers
    ex = m.func(IT_ENGINE, "Engine.execute")
    rel = [p for p in ex.params if p != "self"][0]
    found = {"empty": False, "identity": False}
    J = B.atom("TRUTH", f"{rel}.is_join_identity")
    Z = B.atom("EQ", "0", f"{rel}.max_rows")
    TRIV = B.atom("TRUTH", f"{rel}.is_trivial")

    def _subst(f):
        if f == TRIV:
            return B.disj([J, Z])  # R06.1 pins is_trivial to exactly this definition
        if f[0] == "not":
            return B.neg(_subst(f[1]))
        if f[0] in ("and", "or"):
            parts = [_subst(x) for x in f[1]]
            return B.conj(parts) if f[0] == "and" else B.disj(parts)
        return f

    theory = B.neg(B.conj([J, Z]))  # a join identity has exactly one row
    for p in ctx.paths(ex):
        if p.outcome != "return" or any(s.kind == "case" for s in p.steps):
            continue
        v = src(p.value).replace(" ", "")
        constant = v in ("RowSequence([])", "RowSequence([{}])") or (isinstance(p.value, ast.Call) and bool(p.value.args) and isinstance(p.value.args[0], (ast.List, ast.Tuple)) and all(isinstance(e, (ast.Dict, ast.Constant)) for e in p.value.args[0].elts))
        cond = B.conj([_subst(B.path_condition(p)[0]), theory])
        if len(B.atoms_of(cond)) > B.MAX_ATOMS:
            raise AnalysisError("execute(): too many tests before the dispatch for a truth table")
        says_empty = B.implies(cond, Z)[0]
        says_identity = B.implies(cond, J)[0]
        if says_empty:
            found["empty"] = True
            if v == "RowSequence([])":
                run.ok(rule, "execute:max_rows==0")
            else:
                run.fail(rule, "execute:max_rows==0", f"a relation with max_rows == 0 executes to `{src(p.value)}` instead of no rows", fi=ex, node=p.node)
        elif says_identity:
            found["identity"] = True
            if v == "RowSequence([{}])":
                run.ok(rule, "execute:is_join_identity")
            else:
                run.fail(rule, "execute:is_join_identity", f"a join identity executes to `{src(p.value)}` instead of exactly one empty row", fi=ex, node=p.node)
        elif constant:
            what = "no rows" if v == "RowSequence([])" else "one empty row"
            need = "max_rows == 0" if what == "no rows" else "is_join_identity"
            run.fail(rule, f"execute:constant:{what.replace(' ', '-')}", f"execute() answers `{src(p.value)}` ({what}) on a path whose tests do not imply `{need}`: which trivial case applies is decided by the row bounds, not by anything else (a relation without columns can be empty, one with columns cannot be the join identity)", fi=ex, node=p.node, details=describe(p))
    for kind, flag in (("empty", "max_rows == 0"), ("identity", "is_join_identity")):
        if not found[kind]:
            run.fail(rule, f"execute:{kind}:short-circuit", f"execute() has no short-circuit for `{flag}`", fi=ex)
    join = ctx.op_class("Join")
    jb = join.methods["_begin_apply"]
    jp = [q for q in jb.params if q != "self"]
    for i, p in enumerate(ctx.paths(jb)):
        v = p.value
        if p.outcome == "return" and isinstance(v, ast.Call) and (dotted(v.func) or "").split(".")[-1] == "IgnoreOne":
            facts = path_facts(p)
            arg = v.args[0] if v.args else kw(v, "ignore_lhs")
            if isinstance(arg, ast.Name):
                bound = env_at(p).get(arg.id)
                if isinstance(bound, ast.Constant):
                    arg = bound
            lhs_id = has_fact(facts, "TRUTH", (f"{jp[0]}.is_join_identity",), True)
            rhs_id = has_fact(facts, "TRUTH", (f"{jp[1]}.is_join_identity",), True)
            want = True if lhs_id else False if rhs_id else None
            no_pred = _predicate_trivially_true(facts)
            if want is not None and isinstance(arg, ast.Constant) and arg.value is want and not no_pred:
                run.fail(
                    rule,
                    f"Join._begin_apply:IgnoreOne:path{i}",
                    "the join is elided because one operand is the join identity, without testing that the join predicate is "
                    "trivially true (`self.predicate.as_trivial() is True`): `x.join(identity, predicate)` must still filter x",
                    fi=jb,
                    node=p.node,
                    details=describe(p),
                )
            elif want is not None and isinstance(arg, ast.Constant) and arg.value is want:
                run.ok(rule, f"Join._begin_apply:IgnoreOne:path{i}")
            else:
                run.fail(rule, f"Join._begin_apply:IgnoreOne:path{i}", f"`{src(v)}` ignores the wrong operand (or is not guarded by is_join_identity of the ignored operand)", fi=jb, node=p.node, details=describe(p))
    jf = join.methods["_finish_apply"]
    jq = [q for q in jf.params if q != "self"]
    for i, p in enumerate(ctx.paths(jf)):
        v = p.value
        if p.outcome == "return" and isinstance(v, ast.Name):
            facts = path_facts(p)
            other = jq[1] if v.id == jq[0] else jq[0]
            if has_fact(facts, "TRUTH", (f"{other}.is_join_identity",), True) and not _predicate_trivially_true(facts):
                run.fail(
                    rule,
                    f"Join._finish_apply:elide:path{i}",
                    f"the join is replaced by `{v.id}` because `{other}` is the join identity, without testing that the join predicate is "
                    "trivially true: the predicate is silently dropped",
                    fi=jf,
                    node=p.node,
                    details=describe(p),
                )
            elif has_fact(facts, "TRUTH", (f"{other}.is_join_identity",), True):
                run.ok(rule, f"Join._finish_apply:elide:path{i}")
            else:
                run.fail(rule, f"Join._finish_apply:elide:path{i}", f"the join is replaced by `{v.id}` although `{other}` was not tested to be a join identity", fi=jf, node=p.node, details=describe(p))
    ig = ctx.op_class("IgnoreOne").methods["_finish_apply"]
    iq = [q for q in ig.params if q != "self"]
    for i, p in enumerate(ctx.paths(ig)):
        facts = path_facts(p)
        v = src(p.value)
        if has_fact(facts, "TRUTH", ("self.ignore_lhs",), True):
            ok = v == iq[1]
        else:
            ok = v == iq[0]
        if ok:
            run.ok(rule, f"IgnoreOne._finish_apply:path{i}")
        else:
            run.fail(rule, f"IgnoreOne._finish_apply:path{i}", f"IgnoreOne returns `{v}`: the ignored and the kept operand are swapped", fi=ig, node=p.node)
    proc = m.func("_processor.py", "Processor._process_recursive")
    n = 0
    for i, p in enumerate(ctx.paths(proc)):
        if p.outcome != "return" or not isinstance(p.value, ast.Tuple):
            continue
        kept = src(p.value.elts[0])
        b = env_at(p).get(kept)
        if not (isinstance(b, tuple) and b[0] == "unpack" and isinstance(b[1], ast.Call) and call_attr(b[1]) == "_process_recursive"):
            continue
        if not any(s.kind == "case" and s.value and "BinaryOperationRelation" in src(s.node.pattern) for s in p.steps):  # type: ignore[union-attr]
            continue
        # one processed operand is returned in place of the binary node: the other one must be statically empty
        n += 1
        sides = sorted(nm for nm, bb in env_at(p).items() if isinstance(bb, tuple) and bb[0] == "unpack" and isinstance(bb[1], ast.Call) and call_attr(bb[1]) == "_process_recursive" and bb[2] == 0)
        others = [x for x in sides if x != kept]
        facts = path_facts(p)
        is_chain = any(f.kind == "ISINSTANCE" and f.polarity and f.args[1] == "Chain" for f in facts) or any(s.kind == "case" and s.value and src(s.node.pattern).startswith("Chain") for s in p.steps)  # type: ignore[union-attr]
        ok = is_chain and len(others) == 1 and has_fact(facts, "EQ", tuple(sorted(("0", f"{others[0]}.max_rows"))), True)
        if ok:
            run.ok(rule, f"processor:chain-pruning:keeps-{kept}")
        else:
            run.fail(
                rule,
                f"processor:chain-pruning:keeps-{kept}",
                f"the binary node is replaced by `{kept}` without the other operand ({', '.join(others)}) of a Chain having max_rows == 0: a branch that may have rows is dropped",
                fi=proc,
                node=p.node,
                details=describe(p),
            )
    if n == 0:
        raise AnalysisError("Processor chain pruning not found")


# ------------------------------------------------------------------ R14.9 / R14.10 base-engine plumbing


def r14_9_engine_plumbing(ctx: Ctx, rule: str = "R14.9") -> None:
    run, m = ctx.run, ctx.m
    run.rule(
        rule,
        "base-engine plumbing: append_unary/append_binary hand the validated operation's _finish_apply the operands "
        "unchanged; engines compare and hash by identity; node reapply() returns self only for identical operands and "
        "otherwise re-applies with validation; MarkerRelation.reapply copies only when target or payload differ",
        expected_min=8,
    )
    for name, n_ops in (("append_unary", 1), ("append_binary", 2)):
        f = m.func(ENGINE, f"Engine.{name}")
        ps = [q for q in f.params if q != "self"]
        rets = [p.value for p in ctx.paths(f) if p.outcome == "return"]
        ok = len(rets) == 1 and isinstance(rets[0], ast.Call) and src(rets[0].func) == f"{ps[0]}._finish_apply" and [src(a) for a in rets[0].args] == ps[1 : 1 + n_ops]
        if ok:
            run.ok(rule, f"Engine.{name}")
        else:
            run.fail(rule, f"Engine.{name}", f"the base Engine.{name} must return {ps[0]}._finish_apply({', '.join(ps[1:1 + n_ops])})", fi=f)
    gce = ctx.cls(ENGINE, "GenericConcreteEngine")
    eqf, hf = gce.methods.get("__eq__"), gce.methods.get("__hash__")
    other = [q for q in eqf.params if q != "self"][0] if eqf else "other"
    if eqf and [src(p.value) for p in ctx.paths(eqf)] in ([f"self is {other}"], [f"{other} is self"]):
        run.ok(rule, "GenericConcreteEngine.__eq__")
    else:
        run.fail(rule, "GenericConcreteEngine.__eq__", "engines must compare by identity (two engines with equal fields are still different engines; transfers and preferred-engine logic rely on it)", fi=eqf or gce.methods.get("__str__"))
    if hf and [src(p.value) for p in ctx.paths(hf)] == ["id(self)"]:
        run.ok(rule, "GenericConcreteEngine.__hash__")
    else:
        run.fail(rule, "GenericConcreteEngine.__hash__", "engines must hash by identity", fi=hf or gce.methods.get("__str__"))
    if gce.dataclass_kwargs is not None and gce.dataclass_kwargs.get("eq", True) is not False:
        run.fail(rule, "GenericConcreteEngine:eq=False", "GenericConcreteEngine's dataclass would generate a field-wise __eq__", file=gce.module.path, line=gce.node.lineno, func="GenericConcreteEngine")
    else:
        run.ok(rule, "GenericConcreteEngine:eq=False")
    for sub in m.subclasses(gce, strict=True):
        inst = f"{sub.module.rel}:{sub.name}:eq"
        bad = "__eq__" in sub.methods or "__hash__" in sub.methods or (sub.dataclass_kwargs is not None and sub.dataclass_kwargs.get("eq", True) is not False)
        if bad:
            run.fail(rule, inst, f"engine class {sub.name} redefines equality/hash (or is a dataclass without eq=False)", file=sub.module.path, line=sub.node.lineno, func=sub.name)
        else:
            run.ok(rule, inst)
    for cname, ops in (("UnaryOperationRelation", ["target"]), ("BinaryOperationRelation", ["lhs", "rhs"])):
        c = ctx.cls(OPREL, cname)
        f = c.methods.get("reapply")
        if f is None:
            continue
        for i, p in enumerate(ctx.paths(f)):
            v = p.value
            facts = path_facts(p)
            inst = f"{cname}.reapply:path{i}"
            if src(v) == "self":
                ok = all(has_fact(facts, "IS", tuple(sorted((o, f"self.{o}"))), True) for o in ops)
                if ok:
                    run.ok(rule, inst)
                else:
                    run.fail(rule, inst, f"{cname}.reapply returns self although an operand may differ", fi=f, node=p.node)
            elif isinstance(v, ast.Call) and src(v.func) == "self.operation.apply" and [src(a) for a in v.args] == ops:
                run.ok(rule, inst)
            else:
                run.fail(rule, inst, f"{cname}.reapply returns `{src(v)}` instead of self.operation.apply({', '.join(ops)})", fi=f, node=p.node)
    r_marker_reapply(ctx, rule, declare=False)
    # conform() belongs to the engine of the tree it is given: `<x>.conform(<y>)` with <x> known to differ from <y>.engine
    # rebuilds a foreign tree by the wrong engine's rules
    from ..flow import field_access, path_calls

    n_conform = 0
    for f in m.all_functions():
        if not any(isinstance(n, ast.Call) and call_attr(n) == "conform" for n in ast.walk(f.node)):
            continue
        seen_sites: dict[int, bool] = {}
        first_bad: dict[int, tuple] = {}
        for p in ctx.paths(f):
            facts = None
            for j, c in path_calls(p):
                if call_attr(c) != "conform" or len(c.args) != 1 or not isinstance(c.func, ast.Attribute):
                    continue
                recv, arg = c.func.value, c.args[0]
                fr, fa = field_access(p, recv, j), field_access(p, arg, j)
                ok = True
                if fr is not None and fa is not None and fr == (fa[0], fa[1] + ("engine",)):
                    ok = True
                else:
                    if facts is None:
                        facts = path_facts(p)
                    pair = tuple(sorted((src(recv), f"{src(arg)}.engine")))
                    differs = any(fc.kind in ("EQ", "IS") and tuple(sorted(fc.args)) == pair and not fc.polarity for fc in facts)
                    if differs:
                        ok = False
                seen_sites[id(c)] = seen_sites.get(id(c), True) and ok
                if not ok:
                    first_bad.setdefault(id(c), (c, p))
        for cid, ok in seen_sites.items():
            n_conform += 1
            if ok:
                run.ok(rule, f"{f.module.rel}:{f.qualname}:conform#{n_conform}")
            else:
                c, p = first_bad[cid]
                run.fail(
                    rule,
                    f"{f.module.rel}:{f.qualname}:conform-foreign",
                    f"`{src(c)}` conforms a relation with an engine the path has established to differ from the relation's own ({src(c.args[0])}.engine): "
                    "a tree of another engine is rebuilt by this engine's rules (markers inserted, its own invariants enforced on it)",
                    fi=f,
                    node=c,
                    details=describe(p),
                )
    if n_conform == 0:
        raise AnalysisError("no conform() call site found")


def r_marker_reapply(ctx: Ctx, rule: str, declare: bool = True) -> None:
    """reapply() of every marker that can own a payload returns the node itself only for the identical target and
    payload, and otherwise a copy carrying exactly the given target and payload (no stale payload, no re-simplification)."""
    run, m = ctx.run, ctx.m
    if declare:
        run.rule(
            rule,
            "reapply() of payload-owning markers (MarkerRelation and any override in Transfer/Materialization/extension "
            "markers that accept payloads) returns self only for the identical target and payload, otherwise a copy made "
            "with exactly the given target and payload",
            expected_min=2,
        )
    base = ctx.cls(MARKER, "MarkerRelation")
    todo = [(base, m.func(MARKER, "MarkerRelation.reapply"))]
    for c in m.subclasses(base, strict=True):
        f = c.methods.get("reapply")
        if f is None:
            continue
        # markers that refuse payloads altogether (Select) are governed by their own rule
        refuses = any(
            p.outcome == "raise" and any(fc.kind == "IS" and not fc.polarity and "None" in fc.args and any("payload" in a for a in fc.args) for fc in path_facts(p))
            for p in ctx.paths(f)
        )
        if not refuses:
            todo.append((c, f))
    for c, mr in todo:
        ps = [q for q in mr.params if q != "self"]
        if len(ps) < 2:
            run.fail(rule, f"{c.name}.reapply:signature", f"{c.name}.reapply does not take (target, payload)", fi=mr)
            continue
        tp, pp = ps[0], ps[1]
        for i, p in enumerate(ctx.paths(mr)):
            v = p.value
            facts = path_facts(p)
            inst = f"{c.name}.reapply:path{i}"
            if p.outcome == "raise":
                run.ok(rule, inst)
                continue
            rebound = [nm for nm in (tp, pp) if env_at(p).get(nm) is not None]
            if rebound:
                run.fail(
                    rule,
                    inst,
                    f"{c.name}.reapply re-binds its parameter `{rebound[0]}` (to `{src(env_at(p).get(rebound[0]))[:40]}`) before building the copy: "
                    "the marker must carry exactly the target and payload it is given (None means no payload; keeping the old one "
                    "hands stale rows to a re-targeted marker)",
                    fi=mr,
                    node=p.node,
                    details=describe(p),
                )
                continue
            if src(v) == "self":
                if has_fact(facts, "IS", tuple(sorted(("self.target", tp))), True) and has_fact(facts, "IS", tuple(sorted((pp, "self.payload"))), True):
                    run.ok(rule, inst)
                else:
                    run.fail(rule, inst, f"{c.name}.reapply returns self although the target or the payload differs (a payload handed to reapply would be lost, or a stale one kept)", fi=mr, node=p.node, details=describe(p))
            elif isinstance(v, ast.Call) and (dotted(v.func) or "").endswith("replace") and v.args and src(v.args[0]) == "self" and src(kw(v, "target")) == tp and src(kw(v, "payload")) == pp:
                run.ok(rule, inst)
            elif isinstance(v, ast.Call) and src(v.func) == "super().reapply" and [src(a) for a in v.args] + [f"{k.arg}={src(k.value)}" for k in v.keywords] in ([tp, pp], [tp, f"payload={pp}"], [f"target={tp}", f"payload={pp}"]):
                run.ok(rule, inst)
            else:
                run.fail(
                    rule,
                    inst,
                    f"{c.name}.reapply returns `{src(v)[:70]}`: a payload-owning marker must be re-applied as a plain copy with exactly the given "
                    "target and payload (the Processor hands it the processed target and the freshly computed payload; re-running "
                    "simplification or keeping the old payload loses or misplaces it)",
                    fi=mr,
                    node=p.node,
                )


def r_transfer_reapply_engine(ctx: Ctx, rule: str) -> None:
    """A Transfer re-applied onto a new target must not end up connecting an engine to itself."""
    from ..flow import field_access, path_calls as _pc

    run, m = ctx.run, ctx.m
    run.rule(
        rule,
        "a transfer node is re-applied (`<transfer>.reapply(<new target>)`) only onto the processed image of its own target "
        "(the result of the same recursive function on that target, which stays in the target's engine) or where the path "
        "has established that the new target's engine differs from the destination: a relation that an elision handed "
        "back from another engine would otherwise get a transfer from the destination engine to itself",
        expected_min=2,
    )
    n = 0
    for f in m.all_functions():
        if not any(isinstance(x, ast.Call) and call_attr(x) == "reapply" for x in ast.walk(f.node)):
            continue
        for i, p in enumerate(ctx.paths(f)):
            # the arm's subject must be a Transfer
            arms = [(j, s) for j, s in enumerate(p.steps) if s.kind == "case" and s.value and "Transfer" in src(s.node.pattern).split("(")[0]]  # type: ignore[union-attr]
            if not arms:
                continue
            j0, arm = arms[-1]
            caps = pattern_captures(arm.node.pattern)  # type: ignore[union-attr]
            tcap = next((nm for nm, acc in caps.items() if acc == ("target",)), None)
            alias = next((nm for nm, acc in caps.items() if acc == ()), None)
            subject = src(arm.subject) if getattr(arm, "subject", None) is not None else None
            for j, c in _pc(p, j0):
                if call_attr(c) != "reapply" or not c.args or not isinstance(c.func, ast.Attribute):
                    continue
                recv = src(c.func.value)
                if recv not in {alias, subject}:
                    continue
                n += 1
                new = c.args[0]
                b = resolve_name(p, new.id, j) if isinstance(new, ast.Name) else new
                if isinstance(b, tuple) and b[0] == "unpack":
                    b = b[1]
                inst = f"{f.module.rel}:{f.qualname}:path{i}:reapply"
                ok = False
                why = ""
                # (a) the image of the transfer's own target under the same recursive function
                if isinstance(b, ast.Call) and call_attr(b) == f.name and b.args:
                    targs = [a for a in b.args if (fa := field_access(p, a, j)) is not None and fa[1][-1:] == ("target",)]
                    ok = bool(targs)
                    why = "recursive image of the target"
                # (a') the transfer's own target, unchanged
                if not ok:
                    fa = field_access(p, new, j)
                    if fa is not None and fa[1][-1:] == ("target",):
                        ok, why = True, "the target itself"
                # (b) the path established that the new target is not in the destination engine
                if not ok:
                    facts = path_facts(p)
                    names = {src(new)}
                    dest = {f"{recv}.destination", "self", f"{subject}.destination" if subject else "self"} | {nm for nm, acc in caps.items() if acc == ("destination",)}
                    for fct in facts:
                        if fct.kind in ("EQ", "IS") and not fct.polarity and len(fct.args) == 2:
                            a0, a1 = fct.args
                            if (a0 in dest and a1 in {f"{x}.engine" for x in names}) or (a1 in dest and a0 in {f"{x}.engine" for x in names}):
                                ok = True
                                why = "engine difference established"
                if ok:
                    run.ok(rule, inst, {"why": why})
                else:
                    run.fail(
                        rule,
                        inst,
                        f"`{src(c)[:70]}` puts the transfer back on top of `{src(b)[:50] if isinstance(b, ast.AST) else src(new)}` without knowing its engine: when that call elides the operation in favour of "
                        "a relation that already lives in the destination engine (a join to a join identity returns the other operand), the result is a transfer from that engine to itself",
                        fi=f,
                        node=c,
                        details=describe(p),
                    )
    if n == 0:
        raise AnalysisError("no transfer re-application site found")
