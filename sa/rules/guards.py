"""Guard inventories: "every successful exit of F has passed check K; failing K raises E".

A *required check* is stated on semantic facts (see `sa.facts`), with the
function's own parameter names substituted, so renaming a local or writing
``a.issubset(b)`` instead of ``a <= b`` does not matter.
"""

from __future__ import annotations

import ast
import dataclasses

from ..astutil import AnalysisError, src
from ..facts import Fact, flatten_or, last_cond_facts, path_facts, step_facts
from ..model import FunctionInfo
from ..paths import Path
from ..props.common import Ctx, describe


@dataclasses.dataclass
class Required:
    label: str
    kind: str  # fact kind: LE, IN, EQ, TRUTH, ISINSTANCE, LT
    a: tuple[str, ...]  # acceptable texts for operand 1 ({p0}, {p1} = positional parameters after self)
    b: tuple[str, ...] = ()
    polarity: bool = True  # polarity the fact must have on a successful exit
    exc: str | None = None  # exception class raised when the check fails
    loop_over: str | None = None  # the check sits in a loop over this iterable
    reason: str = ""
    either: tuple[str, ...] = ()  # statement texts that discharge the requirement (e.g. a delegated call)
    vacuous: tuple[str, ...] = ()  # str(fact) of conditions under which the check is not needed (e.g. "IS(None, self.stop)")


def _fmt(texts: tuple[str, ...], fi: FunctionInfo) -> set[str]:
    ps = [p for p in fi.params if p not in ("self", "cls")]
    out = set()
    for t in texts:
        try:
            out.add(t.format(**{f"p{i}": p for i, p in enumerate(ps)}))
        except (KeyError, IndexError):
            out.add(t)
    return out


def _matches(f: Fact, req: Required, fi: FunctionInfo) -> bool:
    if f.kind != req.kind:
        return False
    a = _fmt(req.a, fi)
    b = _fmt(req.b, fi)
    if req.kind in ("EQ", "IS"):
        return set(f.args) == {next(iter(a)), next(iter(b))} or any({x, y} == set(f.args) for x in a for y in b)
    if req.kind == "TRUTH":
        return f.args[0] in a
    return f.args[0] in a and (not b or f.args[1] in b)


def has_required(facts: list[Fact], req: Required, fi: FunctionInfo) -> bool:
    """The conjunction ``facts`` implies the required fact (or a stated vacuity condition)."""
    vac = _fmt(req.vacuous, fi)
    for f in facts:
        if _matches(f, req, fi) and f.polarity == req.polarity:
            return True
        if str(f) in vac:
            return True
        if f.kind == "OR" and f.parts and all(has_required(list(alt), req, fi) for alt in f.parts):
            return True
    return False


def is_identity_return(p: Path) -> bool:
    v = p.value
    if v is None:
        return False
    first = v.elts[0] if isinstance(v, ast.Tuple) and v.elts else v
    return isinstance(first, ast.Call) and src(first.func).split(".")[-1] == "Identity"


def check_required(
    ctx: Ctx,
    rule: str,
    fi: FunctionInfo,
    reqs: list[Required],
    success=lambda p: p.outcome in ("return", "fall"),
    success_label: str = "successful exit",
) -> None:
    """Every `success` path of ``fi`` carries each required fact; failing it raises the stated class."""
    run = ctx.run
    paths = ctx.paths(fi)
    succ = [p for p in paths if success(p)]
    if not succ:
        raise AnalysisError(f"{fi.key}: no {success_label} path found")
    for req in reqs:
        inst = f"{fi.qualname}:{req.label}"
        considered = 0
        bad: Path | None = None
        for p in succ:
            facts = path_facts(p, versioned="entry+current")
            if req.loop_over is not None:
                loops = [f for f in facts if f.kind == "LOOP" and f.args[0] in _fmt((req.loop_over,), fi)]
                if loops and not loops[-1].polarity:
                    continue  # zero iterations: nothing to check on this path
            considered += 1
            if has_required(facts, req, fi):
                continue
            if req.either and any(any(e in src(s.node) for e in _fmt(req.either, fi)) for s in p.steps if s.kind == "stmt"):
                continue
            bad = p
            break
        if considered == 0:
            raise AnalysisError(f"{fi.key}: no path on which check `{req.label}` could apply")
        if bad is not None:
            run.fail(
                rule,
                inst,
                f"a {success_label} of {fi.qualname} is reachable without the check `{req.label}` "
                f"({req.kind}({'|'.join(_fmt(req.a, fi))}{', ' + '|'.join(_fmt(req.b, fi)) if req.b else ''}) = {req.polarity}): {req.reason}",
                fi=fi,
                node=bad.node or fi.node,
                details=describe(bad),
            )
            continue
        # the failing side raises the documented class
        if req.exc is not None:
            wrong = None
            found = False
            for p in paths:
                if p.outcome != "raise":
                    continue
                # the check must be the *deciding* (last) test before the raise
                lf = flatten_or(last_cond_facts(p))
                if not lf:
                    continue
                if not any(_matches(f, req, fi) and f.polarity != req.polarity for f in lf):
                    continue
                found = True
                if not p.raises(req.exc):
                    wrong = p
            if not found:
                run.fail(rule, inst, f"failing the check `{req.label}` does not raise (expected {req.exc})", fi=fi, node=fi.node)
                continue
            if wrong is not None:
                run.fail(
                    rule,
                    inst,
                    f"failing the check `{req.label}` raises `{src(wrong.value)[:60]}` instead of the documented {req.exc}",
                    fi=fi,
                    node=wrong.node,
                    details=describe(wrong),
                )
                continue
        run.ok(rule, inst, {"function": fi.key, "check": req.label, "exception": req.exc, "paths": considered})
