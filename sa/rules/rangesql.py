"""R12.7: the SQL translation of ``item IN range(start, stop, step)`` agrees with Python's ``item in range(...)``.

The ``ColumnInContainer`` arm of the SQL engine's ``convert_predicate`` decides *at conversion time*, from the three
integers of the range literal, which SQL expression to emit (``=``, ``BETWEEN``, ``BETWEEN ... AND item % step = k``).
That code is closed integer arithmetic plus a handful of SQL constructors, so it is interpreted here (the evaluator of
`bounds.py` extended with symbolic SQL values; repository code is not run) for every range with small bounds and
steps of both signs, and the emitted expression is evaluated - with SQL semantics, where ``%`` takes the sign of its
left operand - on every item in a window around the range, and compared with Python's range membership.
"""

from __future__ import annotations

import ast
import itertools

from ..astutil import AnalysisError, src
from ..flow import case_index
from ..props.common import SQL_ENGINE, Ctx
from .bounds import Crash, Interp, Obj, Oracle, _NeedChoice, _Return


class Sql:
    """A SQL scalar expression as a function of the tested item."""

    def __init__(self, fn, text: str):
        self.fn, self.text = fn, text

    def __repr__(self) -> str:
        return f"<sql {self.text}>"


def _lift(v) -> Sql:
    if isinstance(v, Sql):
        return v
    if isinstance(v, (int, bool)) or v is None:
        return Sql(lambda item, v=v: v, repr(v))
    raise Crash(f"{v!r} used as a SQL value")


def _sql_mod(a: int, b: int) -> int:
    if b == 0:
        raise Crash("SQL modulo by zero")
    q = abs(a) // abs(b)
    q = q if (a >= 0) == (b >= 0) else -q
    return a - b * q  # truncated division: the remainder takes the sign of the dividend


ITEM = object()


class SqlInterp(Interp):
    def eval(self, n: ast.expr, env: dict):
        if isinstance(n, ast.BinOp):
            a, b = self.eval(n.left, env), self.eval(n.right, env)
            if isinstance(a, Sql) or isinstance(b, Sql):
                a, b = _lift(a), _lift(b)
                ops = {ast.Add: lambda x, y: x + y, ast.Sub: lambda x, y: x - y, ast.Mult: lambda x, y: x * y, ast.Mod: _sql_mod}
                f = ops.get(type(n.op))
                if f is None:
                    raise AnalysisError(f"range translation: SQL operator in `{src(n)}` is not modelled")
                return Sql(lambda item, a=a, b=b, f=f: f(a.fn(item), b.fn(item)), src(n))
            if isinstance(n.op, ast.Mod) and isinstance(a, int) and isinstance(b, int):
                if b == 0:
                    raise Crash("modulo by zero")
                return a % b
            if isinstance(n.op, ast.FloorDiv) and isinstance(a, int) and isinstance(b, int):
                if b == 0:
                    raise Crash("division by zero")
                return a // b
        if isinstance(n, ast.UnaryOp) and isinstance(n.op, ast.USub):
            v = self.eval(n.operand, env)
            if isinstance(v, Sql):
                return Sql(lambda item, v=v: -v.fn(item), src(n))
        if isinstance(n, ast.UnaryOp) and isinstance(n.op, ast.Not):
            v = self.eval(n.operand, env)
            if isinstance(v, range):
                return len(v) == 0
            if isinstance(v, Sql):
                raise Crash("truth value of a SQL expression")
            return not self.truth(v)
        if isinstance(n, ast.Compare) and len(n.ops) == 1:
            a, b = self.eval(n.left, env), self.eval(n.comparators[0], env)
            if isinstance(a, Sql) or isinstance(b, Sql):
                a, b = _lift(a), _lift(b)
                import operator

                ops = {ast.Eq: operator.eq, ast.NotEq: operator.ne, ast.Lt: operator.lt, ast.LtE: operator.le, ast.Gt: operator.gt, ast.GtE: operator.ge}
                f = ops.get(type(n.ops[0]))
                if f is None:
                    raise AnalysisError(f"range translation: SQL comparison in `{src(n)}` is not modelled")
                return Sql(lambda item, a=a, b=b, f=f: f(a.fn(item), b.fn(item)), src(n))
            return self.compare(n.ops[0], a, b, n)
        if isinstance(n, ast.Subscript):
            v = self.eval(n.value, env)
            if isinstance(v, (range, tuple)) and not isinstance(n.slice, ast.Slice):
                i = self.eval(n.slice, env)
                try:
                    return v[i]
                except (IndexError, TypeError) as e:
                    raise Crash(f"`{src(n)}`: {e}")
            raise AnalysisError(f"range translation: subscript `{src(n)}` is not modelled")
        if isinstance(n, ast.Attribute):
            o = self.eval(n.value, env)
            if isinstance(o, range) and n.attr in ("start", "stop", "step"):
                return getattr(o, n.attr)
        return super().eval(n, env)

    def truth(self, v) -> bool:  # type: ignore[override]
        if isinstance(v, range):
            return len(v) > 0
        if isinstance(v, Sql):
            raise Crash("truth value of a SQL expression")
        return Interp.truth(v)

    def matches(self, pat, v, env, f) -> bool:
        if isinstance(pat, ast.MatchClass) and src(pat.cls) == "range" and not pat.patterns:
            if not isinstance(v, range):
                return False
            return all(self.matches(q, getattr(v, a), env, f) for a, q in zip(pat.kwd_attrs, pat.kwd_patterns))
        return super().matches(pat, v, env, f)

    def call(self, n: ast.Call, env: dict):
        name = src(n.func)
        last = name.split(".")[-1]

        def args():
            out = []
            for a in n.args:
                if isinstance(a, ast.Starred):
                    v = self.eval(a.value, env)
                    out.extend(v)
                else:
                    out.append(self.eval(a, env))
            return out

        if name.startswith("self.") and last in ("expect_column_scalar",):
            return args()[0]
        if name.startswith("self.") and last == "convert_column_expression":
            a = args()
            if a and a[0] is ITEM:
                return Sql(lambda item: item, "item")
            raise AnalysisError("range translation: converts an expression other than the tested item")
        if name.startswith("self.") and last == "convert_column_literal":
            v = args()[0]
            if isinstance(v, Sql):
                raise Crash("a SQL expression passed as a literal")
            return _lift(v)
        if name.startswith("sqlalchemy.") and last == "literal":
            return _lift(args()[0])
        if name.startswith("sqlalchemy.") and last == "between":
            e, lo, hi = (_lift(x) for x in args()[:3])
            return Sql(lambda item, e=e, lo=lo, hi=hi: lo.fn(item) <= e.fn(item) <= hi.fn(item), "between")
        if name.startswith("sqlalchemy.") and last in ("and_", "or_"):
            parts = [_lift(x) for x in args()]
            agg = all if last == "and_" else any
            return Sql(lambda item, parts=parts, agg=agg: agg(bool(p.fn(item)) for p in parts), last)
        if name.startswith("sqlalchemy.") and ".func." in name and last in ("abs", "mod"):
            a = [_lift(x) for x in args()]
            if last == "abs" and len(a) == 1:
                return Sql(lambda item, e=a[0]: abs(e.fn(item)), "abs")
            if last == "mod" and len(a) == 2:
                return Sql(lambda item, x=a[0], y=a[1]: _sql_mod(x.fn(item), y.fn(item)), "mod")
        if name.startswith("sqlalchemy.") and last == "not_":
            e = _lift(args()[0])
            return Sql(lambda item, e=e: not e.fn(item), "not")
        if name == "range":
            a = args()
            if not all(isinstance(x, int) and not isinstance(x, bool) for x in a):
                raise Crash(f"range{tuple(a)!r}")
            try:
                return range(*a)
            except ValueError as e:
                raise Crash(str(e))
        if name == "len" and len(n.args) == 1:
            v = self.eval(n.args[0], env)
            if isinstance(v, range):
                return len(v)
        if name in ("abs",) and len(n.args) == 1:
            v = self.eval(n.args[0], env)
            if isinstance(v, int):
                return abs(v)
        if isinstance(n.func, ast.Attribute) and n.func.attr == "in_":
            raise AnalysisError("range translation: IN list reached in the range arm")
        return super().call(n, env)

    def eval_list(self, n, env):
        return tuple(self.eval(e, env) for e in n.elts)


def r12_7_range_membership(ctx: Ctx, rule: str = "R12.7") -> None:
    run, m = ctx.run, ctx.m
    run.rule(
        rule,
        "SQL translation of `item IN range(start, stop, step)` agrees with Python's range membership for every range "
        "with small bounds (both signs, empty ones included), steps -3..3 and every item around it; SQL `%` is modelled "
        "with the sign of its left operand",
        expected_min=1,
    )
    f = m.func(SQL_ENGINE, "Engine.convert_predicate")
    pred = [p for p in f.params if p != "self"][0]
    # the ColumnInContainer arm of the dispatcher
    arm = None
    for node in ast.walk(f.node):
        if isinstance(node, ast.Match) and src(node.subject) == pred:
            for c in node.cases:
                if isinstance(c.pattern, ast.MatchClass) and src(c.pattern.cls).split(".")[-1] == "ColumnInContainer":
                    arm = c
    if arm is None:
        raise AnalysisError("sql convert_predicate has no ColumnInContainer arm")
    crl = ctx.cls("_columns/_container.py", "ColumnRangeLiteral")
    cic = ctx.cls("_columns/_predicate.py", "ColumnInContainer") if "_columns/_predicate.py" in m.modules and "ColumnInContainer" in m.module("_columns/_predicate.py").classes else None
    if cic is None:
        for mod in m.modules.values():
            if "ColumnInContainer" in mod.classes:
                cic = mod.classes["ColumnInContainer"]
    eng = ctx.cls(SQL_ENGINE, "Engine")
    cases = 0
    problem = None
    for start, stop, step in itertools.product(range(-4, 5), range(-5, 6), (-3, -2, -1, 1, 2, 3)):
        r = range(start, stop, step)
        subject = Obj(cic, item=ITEM, container=Obj(crl, value=r))
        interp = SqlInterp(ctx, Oracle([]))
        env = {"self": Obj(eng), pred: subject, "columns_available": Obj(None)}
        try:
            if not interp.matches(arm.pattern, subject, env, f):
                raise AnalysisError("the ColumnInContainer pattern does not match a ColumnInContainer")
            try:
                interp.block(arm.body, env, f)
                out = None
            except _Return as ret:
                out = ret.value
        except _NeedChoice:
            raise AnalysisError("range translation depends on an unknown predicate")
        except Crash as e:
            problem = problem or f"translating `item IN {r!r}` fails: {e}"
            continue
        if not isinstance(out, Sql):
            problem = problem or f"translating `item IN {r!r}` yields {out!r}, not a SQL expression"
            continue
        lo = min(start, stop) - 4
        hi = max(start, stop) + 4
        for item in range(lo, hi + 1):
            cases += 1
            try:
                got = bool(out.fn(item))
            except Crash as e:
                problem = problem or f"`item IN {r!r}`: evaluating the emitted SQL fails for item {item}: {e}"
                break
            if got != (item in r):
                problem = problem or (
                    f"`item IN {r!r}` is translated so that item {item} is {'a member' if got else 'not a member'} in SQL "
                    f"but {'is' if item in r else 'is not'} in Python and in the iteration engine"
                )
                break
    if problem:
        run.fail(rule, "sql:range-membership", problem, fi=f, node=arm.pattern)
    else:
        run.ok(rule, "sql:range-membership", {"cases": cases})
