"""Class-level and data-structure rules: what a value class may do to its own fields, which fields take part in
equality, which defaults are shared, which row-iterable classes may claim to be materialized, what a closure handed out
by a converter may capture."""

from __future__ import annotations

import ast

from ..astutil import AnalysisError, call_attr, dotted, iter_calls, kw, src
from ..model import ClassInfo
from ..props.common import IT_ENGINE, IT_ROWS, SQL_ENGINE, Ctx

TYPE_NORMALISERS = {"tuple", "frozenset", "list", "set", "dict", "sorted"}


def _field_kwargs(value: ast.expr | None) -> dict[str, ast.expr] | None:
    if isinstance(value, ast.Call) and (dotted(value.func) or "").split(".")[-1] == "field":
        return {k.arg: k.value for k in value.keywords if k.arg}
    return None


# ------------------------------------------------------------------ fields written after construction are not compared


def r_mutable_slots_uncompared(ctx: Ctx, rule: str) -> None:
    """`payload` is the one slot of a relation that is written after construction (attach_payload); every class that
    declares or re-declares it must keep it out of `__eq__`/`__hash__`."""
    run, m = ctx.run, ctx.m
    run.rule(
        rule,
        "a field that is written after construction (`payload`: attach_payload, LeafRelation's own) is declared with "
        "compare=False by every relation class that declares or re-declares it - otherwise executing or processing a "
        "tree changes the equality and hash of relations already handed out",
        expected_min=2,
    )
    n = 0
    for c in m.subclasses(ctx.k.relation_root):
        for s in c.node.body:
            if isinstance(s, ast.AnnAssign) and isinstance(s.target, ast.Name) and s.target.id == "payload":
                n += 1
                kws = _field_kwargs(s.value)
                cmp = kws.get("compare") if kws is not None else None
                inst = f"{c.name}.payload"
                if isinstance(cmp, ast.Constant) and cmp.value is False:
                    run.ok(rule, inst)
                else:
                    run.fail(
                        rule,
                        inst,
                        f"{c.name} declares `payload` without compare=False: the generated __eq__/__hash__ include a slot that "
                        "attach_payload writes later, so execute()/process() change the hash and equality of an existing relation",
                        file=c.module.path,
                        line=s.lineno,
                        func=c.name,
                    )
    if n == 0:
        raise AnalysisError("no relation class declares a payload field")


# ------------------------------------------------------------------ value classes store what they are given


def r_stored_as_given(ctx: Ctx, rule: str, classes: list[ClassInfo], allowed: dict[str, str]) -> None:
    """__post_init__ of a value class may validate; it may re-store a field only as a *type normalisation* of itself
    (tuple(self.f), frozenset(self.f)) or where the reference table says so."""
    run, m = ctx.run, ctx.m
    run.rule(
        rule,
        "value classes store the fields they are given: a __post_init__ may validate, may re-store a field as a container "
        "conversion of itself (tuple(self.f), frozenset(self.f) ...), and may replace it by something else only where the "
        "reference table allows it (Selection.predicate: the flattened conjunction; LeafRelation.name: a generated name)",
        expected_min=4,
    )
    for c in classes:
        f = c.methods.get("__post_init__")
        inst = f"{c.name}.__post_init__"
        if f is None:
            run.ok(rule, inst, {"post_init": None})
            continue
        bad = None
        for call in ast.walk(f.node):
            if not isinstance(call, ast.Call):
                continue
            name = dotted(call.func) or ""
            if name.split(".")[-1] not in ("__setattr__", "setattr"):
                continue
            args = list(call.args)
            if name.startswith("super()") or (isinstance(call.func, ast.Attribute) and src(call.func.value) == "self"):
                fld, val = (args[0] if args else None), (args[1] if len(args) > 1 else None)
            else:
                fld, val = (args[1] if len(args) > 1 else None), (args[2] if len(args) > 2 else None)
            fname = fld.value if isinstance(fld, ast.Constant) else None
            if fname is None:
                bad = bad or (call, "writes a field whose name is computed")
                continue
            if allowed.get(f"{c.name}.{fname}"):
                continue
            if (
                isinstance(val, ast.Call)
                and isinstance(val.func, ast.Name)
                and val.func.id in TYPE_NORMALISERS
                and len(val.args) == 1
                and not val.keywords
                and src(val.args[0]) == f"self.{fname}"
            ):
                continue
            bad = bad or (call, f"replaces `{fname}` by `{src(val)[:60]}`")
        for s in ast.walk(f.node):
            if isinstance(s, (ast.Assign, ast.AugAssign)):
                for t in s.targets if isinstance(s, ast.Assign) else [s.target]:
                    if isinstance(t, ast.Attribute) and src(t.value) == "self":
                        bad = bad or (s, f"assigns self.{t.attr}")
        if bad:
            node, what = bad
            run.fail(
                rule,
                inst,
                f"{c.name}.__post_init__ {what}: the object no longer holds the value it was constructed with, so every consumer "
                "(both engines, equality, str) works on something the caller did not supply",
                fi=f,
                node=node,
            )
        else:
            run.ok(rule, inst)


# ------------------------------------------------------------------ no shared mutable defaults


def r_no_shared_defaults(ctx: Ctx, rule: str) -> None:
    run, m = ctx.run, ctx.m
    run.rule(
        rule,
        "dataclass fields of the package have no shared mutable default: `default=` is a constant/immutable, and "
        "`default_factory=` is a container type or a lambda that builds a new object (a factory returning a module-level "
        "object makes every instance share it)",
        expected_min=3,
    )
    n = 0
    for mod in m.modules.values():
        for c in mod.classes.values():
            if c.dataclass_kwargs is None:
                continue
            for s in c.node.body:
                if not (isinstance(s, ast.AnnAssign) and isinstance(s.target, ast.Name)):
                    continue
                inst = f"{c.name}.{s.target.id}"
                v = s.value
                kws = _field_kwargs(v)
                problem = None
                if kws is not None:
                    fac = kws.get("default_factory")
                    dflt = kws.get("default")
                    if fac is not None:
                        n += 1
                        if isinstance(fac, ast.Name) and fac.id in ("dict", "list", "set", "tuple", "frozenset"):
                            pass
                        elif isinstance(fac, ast.Lambda):
                            b = fac.body
                            # a display or any call builds (or at least asks for) a new object; a bare name/attribute
                            # hands out one existing object to every instance
                            fresh = isinstance(b, (ast.Dict, ast.List, ast.Set, ast.Tuple, ast.ListComp, ast.DictComp, ast.SetComp, ast.Call, ast.Constant, ast.JoinedStr))
                            if not fresh:
                                problem = f"default_factory returns `{src(b)[:50]}`, not a newly built object"
                        elif isinstance(fac, (ast.Name, ast.Attribute)):
                            cls = m.resolve_class(mod, dotted(fac) or "")
                            if cls is None and (dotted(fac) or "").split(".")[-1][:1].islower():
                                problem = f"default_factory `{src(fac)}` is not a type or a fresh-object lambda"
                    if dflt is not None:
                        n += 1
                        if isinstance(dflt, (ast.Dict, ast.List, ast.Set, ast.ListComp, ast.DictComp, ast.SetComp)):
                            problem = f"default `{src(dflt)[:40]}` is a mutable object shared by all instances"
                elif v is not None:
                    n += 1
                    if isinstance(v, (ast.Dict, ast.List, ast.Set)):
                        problem = f"default `{src(v)[:40]}` is a mutable object shared by all instances"
                    elif isinstance(v, ast.Call) and not (isinstance(v.func, ast.Name) and v.func.id in ("frozenset", "tuple")):
                        ann = src(s.annotation)
                        if "ClassVar" not in ann:
                            problem = f"default `{src(v)[:50]}` is evaluated once at class creation and shared by all instances"
                if problem:
                    run.fail(rule, inst, f"{c.name}.{s.target.id}: {problem}", file=c.module.path, line=s.lineno, func=c.name)
                elif v is not None:
                    run.ok(rule, inst)
    if n == 0:
        raise AnalysisError("no dataclass field with a default found")


# ------------------------------------------------------------------ who may claim to be materialized / have a length


def r_materialized_classes(ctx: Ctx, rule: str) -> None:
    run, m = ctx.run, ctx.m
    run.rule(
        rule,
        "only row iterables that hold their rows in a concrete container are MaterializedRowIterable (its materialized() "
        "returns self, so anything else would be cached un-evaluated); lazy row iterables define neither __len__ nor "
        "__length_hint__ (list()/tuple()/sorted() would iterate them once just to count)",
        expected_min=4,
    )
    base = ctx.cls(IT_ROWS, "RowIterable")
    mat = ctx.cls(IT_ROWS, "MaterializedRowIterable")
    for c in m.subclasses(base):
        is_mat = mat in m.mro(c)
        inst = c.name
        if c is mat or c is base:
            has_len = any(nm in c.methods for nm in ("__len__", "__length_hint__"))
            if c is base and has_len:
                run.fail(rule, inst, "RowIterable (the lazy base class) defines __len__/__length_hint__: list(x), tuple(x) and sorted(x) call it first, so every lazy iterable is iterated twice", fi=c.methods.get("__len__") or c.methods.get("__length_hint__"))
            else:
                run.ok(rule, inst)
            continue
        if is_mat:
            # must wrap a container: a `rows` field annotated as a Sequence/Mapping/list/dict
            fields = {fl.name: src(fl.annotation) if fl.annotation is not None else "" for fl in m.fields(c)}
            init = c.methods.get("__init__")
            stores = {t.attr for n in ast.walk(init.node) for t in (n.targets if isinstance(n, ast.Assign) else []) if isinstance(t, ast.Attribute) and src(t.value) == "self"} if init else set()
            ann = " ".join(fields.values()) + " " + (src(init.node.args) if init else "")
            concrete = any(w in ann for w in ("Sequence", "Mapping", "list", "dict", "tuple"))
            if ("rows" in fields or "rows" in stores) and concrete:
                run.ok(rule, inst, {"materialized": True})
            else:
                run.fail(
                    rule,
                    inst,
                    f"{c.name} is a MaterializedRowIterable but does not hold its rows in a concrete container: materialized() returns "
                    "self, so a Materialization over it caches an iterable that re-evaluates its upstream on every iteration",
                    file=c.module.path,
                    line=c.node.lineno,
                    func=c.name,
                )
        else:
            has_len = [nm for nm in ("__len__", "__length_hint__") if nm in c.methods]
            if has_len:
                run.fail(rule, inst, f"lazy row iterable {c.name} defines {has_len[0]}: list()/tuple()/sorted() call it before iterating, which iterates the upstream an extra time", fi=c.methods[has_len[0]])
            else:
                run.ok(rule, inst, {"materialized": False})


# ------------------------------------------------------------------ closures returned by converters


ONE_SHOT_CALLS = {"map", "filter", "zip", "iter", "reversed", "enumerate"}


def r_closures_capture_reiterables(ctx: Ctx, rule: str) -> None:
    """A callable returned by a converter is applied to every row: what it captures must survive being used again."""
    run, m = ctx.run, ctx.m
    run.rule(
        rule,
        "callables returned by the iteration engine's converters capture only re-iterable values: a local bound to a "
        "generator expression or to map/filter/zip/iter(...) is exhausted by the first row the callable is applied to",
        expected_min=3,
    )
    eng = ctx.cls(IT_ENGINE, "Engine")
    for name, f in sorted(eng.methods.items()):
        if not name.startswith("convert_"):
            continue
        one_shot: dict[str, ast.AST] = {}
        for n in ast.walk(f.node):
            if isinstance(n, ast.Assign) and len(n.targets) == 1:
                t, v = n.targets[0], n.value
                if isinstance(t, ast.Name) and (isinstance(v, ast.GeneratorExp) or (isinstance(v, ast.Call) and isinstance(v.func, ast.Name) and v.func.id in ONE_SHOT_CALLS)):
                    one_shot[t.id] = n
        bad = None
        lambdas = [n for n in ast.walk(f.node) if isinstance(n, ast.Lambda) or (isinstance(n, ast.FunctionDef) and n is not f.node)]
        for lam in lambdas:
            params = {a.arg for a in lam.args.args}
            for n in ast.walk(lam.body if isinstance(lam, ast.Lambda) else lam):
                if isinstance(n, ast.Name) and isinstance(n.ctx, ast.Load) and n.id in one_shot and n.id not in params:
                    bad = bad or (n, n.id)
        inst = f"Engine.{name}"
        if bad:
            node, nm = bad
            run.fail(rule, inst, f"the callable returned by {name} captures `{nm}`, a one-shot iterator ({src(one_shot[nm])[:60]}): it works for the first row and sees nothing afterwards", fi=f, node=node)
        else:
            run.ok(rule, inst, {"closures": len(lambdas)})


# ------------------------------------------------------------------ optional keyword forwarded by the expression factories


def r_factory_forwarding(ctx: Ctx, rule: str) -> None:
    run, m = ctx.run, ctx.m
    run.rule(
        rule,
        "the expression factories forward `supporting_engine_types`: method -> function, predicate_method -> "
        "predicate_function, and function/predicate_function hand it to the node they build (a dropped keyword makes an "
        "engine-restricted function acceptable to every engine)",
        expected_min=4,
    )
    ce = m.find_class("ColumnExpression")
    for meth in ("method", "function", "predicate_method", "predicate_function"):
        f = ce.methods.get(meth)
        inst = f"ColumnExpression.{meth}"
        if f is None or "supporting_engine_types" not in f.params:
            run.fail(rule, inst, f"ColumnExpression.{meth} has no supporting_engine_types parameter", fi=f or ce.methods.get("eq"))
            continue
        ok = False
        for p in ctx.paths(f):
            if p.outcome != "return" or not isinstance(p.value, ast.Call):
                continue
            v = kw(p.value, "supporting_engine_types")
            if v is None:
                a = [x for x in p.value.args if "supporting_engine_types" in src(x)]
                v = a[0] if a else None
            ok = v is not None and "supporting_engine_types" in src(v)
            if not ok:
                break
        if ok:
            run.ok(rule, inst)
        else:
            run.fail(rule, inst, f"ColumnExpression.{meth} does not pass its supporting_engine_types on to what it builds: the restriction is silently dropped and is_supported_by is True for every engine", fi=f)


# ------------------------------------------------------------------ strip() hands back two things


def r_strip_flag_consumed(ctx: Ctx, rule: str) -> None:
    run, m = ctx.run, ctx.m
    run.rule(
        rule,
        "Select.strip() returns (relation, a projection is still needed): every caller unpacks both and reads the flag - "
        "using the stripped relation while ignoring the flag drops the Select's projection",
        expected_min=1,
    )
    n = 0
    for mod in m.modules.values():
        for fi in [f for c in mod.classes.values() for f in c.methods.values()] + list(mod.functions.values()):
            for node in ast.walk(fi.node):
                if not (isinstance(node, ast.Assign) and isinstance(node.value, ast.Call) and call_attr(node.value) == "strip" and not node.value.args and not node.value.keywords):
                    continue
                recv = node.value.func.value if isinstance(node.value.func, ast.Attribute) else None
                if recv is None or isinstance(recv, ast.Constant) or "str" in src(recv).lower().split(".")[-1:]:
                    continue
                n += 1
                inst = f"{fi.module.rel}:{fi.qualname}:{src(recv)}.strip()"
                t = node.targets[0]
                if not (isinstance(t, (ast.Tuple, ast.List)) and len(t.elts) == 2 and all(isinstance(e, ast.Name) for e in t.elts)):
                    run.fail(rule, inst, f"`{src(node)[:60]}`: the result of strip() is not unpacked into (relation, needs_projection)", fi=fi, node=node)
                    continue
                flag = t.elts[1].id
                reads = [x for x in ast.walk(fi.node) if isinstance(x, ast.Name) and x.id == flag and isinstance(x.ctx, ast.Load)]
                if reads:
                    run.ok(rule, inst)
                else:
                    run.fail(rule, inst, f"`{src(node)[:60]}`: the needs-projection flag `{flag}` is never read, so a projection held by the stripped Select is lost", fi=fi, node=node)
    if n == 0:
        raise AnalysisError("no caller of Select.strip() found")


# ------------------------------------------------------------------ literals are bound, messages are tuples


def r_literal_bound(ctx: Ctx, rule: str) -> None:
    run, m = ctx.run, ctx.m
    run.rule(rule, "the SQL engine converts a column literal with a bound-parameter constructor (`literal`/`bindparam`), never by pasting its text into the statement (`literal_column`, `text`)", expected_min=1)
    f = m.func(SQL_ENGINE, "Engine.convert_column_literal")
    bad = [c for c in ast.walk(f.node) if isinstance(c, ast.Call) and call_attr(c) in ("literal_column", "text", "column")]
    good = [c for c in ast.walk(f.node) if isinstance(c, ast.Call) and call_attr(c) in ("literal", "bindparam")]
    if bad:
        run.fail(rule, "convert_column_literal", f"`{src(bad[0])[:60]}` renders the value as SQL text: operators applied to it are not parenthesised (`-` on a negative number becomes a `--` comment)", fi=f, node=bad[0])
    elif good:
        run.ok(rule, "convert_column_literal")
    else:
        raise AnalysisError("convert_column_literal: neither literal() nor literal_column() found")


def r_commutator_messages(ctx: Ctx, rule: str) -> None:
    run, m = ctx.run, ctx.m
    run.rule(
        rule,
        "every UnaryCommutator is built with a tuple of messages (backtracking concatenates them with `+` and joins them "
        "into the EngineError text): a bare string makes the documented EngineError a TypeError at some nesting depths",
        expected_min=5,
    )
    n = 0
    for mod in m.modules.values():
        for fi in [f for c in mod.classes.values() for f in c.methods.values()] + list(mod.functions.values()):
            for call in ast.walk(fi.node):
                if not (isinstance(call, ast.Call) and (dotted(call.func) or "").split(".")[-1] == "UnaryCommutator"):
                    continue
                msg = kw(call, "messages")
                if msg is None:
                    continue
                n += 1
                inst = f"{fi.module.rel}:{fi.qualname}:{call.lineno - fi.node.lineno}"
                if isinstance(msg, (ast.JoinedStr, ast.Constant)) and not (isinstance(msg, ast.Constant) and isinstance(msg.value, tuple)):
                    run.fail(rule, inst, f"UnaryCommutator(messages={src(msg)[:50]}) is a string, not a tuple of strings", fi=fi, node=call)
                elif isinstance(msg, (ast.List, ast.ListComp, ast.Set, ast.SetComp, ast.GeneratorExp)) or (isinstance(msg, ast.Call) and isinstance(msg.func, ast.Name) and msg.func.id in ("list", "set")):
                    run.fail(rule, inst, f"UnaryCommutator(messages={src(msg)[:50]}) is a {type(msg).__name__.lower()}, not a tuple: backtracking concatenates messages with `+` (tuple + list raises TypeError two levels up)", fi=fi, node=call)
                else:
                    run.ok(rule, inst)
    if n == 0:
        raise AnalysisError("no UnaryCommutator construction with messages found")
    # the third element of every backtrack_unary result is a tuple as well
    for fi in m.all_functions():
        if fi.name != "backtrack_unary":
            continue
        for i, p in enumerate(ctx.paths(fi)):
            v = p.value
            if p.outcome != "return" or not (isinstance(v, ast.Tuple) and len(v.elts) == 3):
                continue
            msg = v.elts[2]
            inst = f"{fi.module.rel}:{fi.qualname}:path{i}:messages"

            def _tuple_typed(e: ast.expr, depth: int = 3) -> bool:
                if isinstance(e, ast.Tuple):
                    return True
                if isinstance(e, ast.Constant) and isinstance(e.value, tuple):
                    return True
                if isinstance(e, ast.BinOp) and isinstance(e.op, ast.Add):
                    return _tuple_typed(e.left, depth) and _tuple_typed(e.right, depth)
                if isinstance(e, ast.Attribute) and e.attr == "messages":
                    return True  # a commutator's messages (checked above)
                if isinstance(e, ast.Call) and isinstance(e.func, ast.Name) and e.func.id == "tuple":
                    return True
                if isinstance(e, ast.Name) and depth > 0:
                    from ..paths import env_at as _env_at

                    b = _env_at(p).get(e.id)
                    if isinstance(b, tuple) and b[0] == "unpack" and isinstance(b[1], ast.Call) and call_attr(b[1]) == "backtrack_unary" and b[2] == 2:
                        return True  # the messages of a recursive result
                    if isinstance(b, ast.expr):
                        return _tuple_typed(b, depth - 1)
                return False

            if _tuple_typed(msg):
                run.ok(rule, inst)
            else:
                run.fail(rule, inst, f"backtrack_unary returns its messages as `{src(msg)[:50]}`, not a tuple: the iteration engine concatenates them with `+` on the way up, so a request that should end in the documented EngineError (or a transfer) ends in TypeError", fi=fi, node=p.node)


def r_no_swallowed_exceptions(ctx: Ctx, rule: str) -> None:
    """The documented errors (ColumnError, EngineError, ...) are the package's answers; a handler that catches them (or
    everything) and carries on turns a refusal into a wrong result."""
    run, m = ctx.run, ctx.m
    run.rule(
        rule,
        "no exception is swallowed inside the package: every `except` clause either names a narrow non-package exception "
        "for an import/attribute fallback or re-raises; no contextlib.suppress",
        expected_min=1,
    )
    package_errors = {"ColumnError", "EngineError", "RelationalAlgebraError", "ValueError", "TypeError", "KeyError", "AssertionError", "Exception", "BaseException", "NotImplementedError", "RuntimeError", "AttributeError", "LookupError", "IndexError"}
    n = 0
    bad = 0
    for mod in m.modules.values():
        if mod.rel == "tests.py":
            continue
        for node in ast.walk(mod.tree):
            if isinstance(node, ast.Try):
                for h in node.handlers:
                    n += 1
                    names = set()
                    if h.type is None:
                        names.add("BaseException")
                    else:
                        for e in ast.walk(h.type):
                            if isinstance(e, ast.Name):
                                names.add(e.id)
                            elif isinstance(e, ast.Attribute):
                                names.add(e.attr)
                    reraises = any(isinstance(x, ast.Raise) for b in h.body for x in ast.walk(b))
                    if (names & package_errors) and not reraises:
                        bad += 1
                        run.fail(
                            rule,
                            f"{mod.rel}:except:{'/'.join(sorted(names))}:{bad}",
                            f"`except {src(h.type) if h.type is not None else ''}` at line {h.lineno} catches {sorted(names & package_errors)} and does not re-raise: "
                            "a refusal (or an internal error) is turned into a normal result",
                            file=mod.path,
                            line=h.lineno,
                            func="<except>",
                        )
                    # a handler that re-raises must not change what escapes: catching a class that has subclasses and
                    # raising a fixed class turns each of them (EngineError, ColumnError, ...) into that class
                    if reraises and h.type is not None:
                        caught = [c for c in (m.resolve_class(mod, nm) for nm in names) if c is not None]
                        wide = [c for c in caught if m.subclasses(c, strict=True)] or ([nm for nm in names if nm in ("Exception", "BaseException", "LookupError", "ArithmeticError", "OSError")])
                        for x in (x for b in h.body for x in ast.walk(b) if isinstance(x, ast.Raise)):
                            e = x.exc
                            if e is None or (isinstance(e, ast.Name) and e.id == h.name):
                                continue
                            if isinstance(e, ast.Call) and isinstance(e.func, ast.Call) and isinstance(e.func.func, ast.Name) and e.func.func.id == "type" and [src(a) for a in e.func.args] == [h.name]:
                                continue  # raise type(err)(...)
                            if isinstance(e, ast.Call) and (dotted(e.func) or "").split(".")[-1] in ("with_traceback",):
                                continue
                            if wide:
                                bad += 1
                                wn = wide[0].name if hasattr(wide[0], "name") else wide[0]
                                run.fail(
                                    rule,
                                    f"{mod.rel}:except:{'/'.join(sorted(names))}:reraise:{bad}",
                                    f"`except {src(h.type)}` at line {h.lineno} re-raises as `{src(e)[:60]}`: {wn} has subclasses, and every one of them that passes through here "
                                    f"(an EngineError, a ColumnError) leaves as the fixed class - callers that catch the documented subclass no longer see it (use a bare `raise`, or `raise type({h.name or 'err'})(...)`)",
                                    file=mod.path,
                                    line=x.lineno,
                                    func="<except>",
                                )
            elif isinstance(node, ast.Call) and (dotted(node.func) or "").split(".")[-1] == "suppress":
                n += 1
                bad += 1
                run.fail(rule, f"{mod.rel}:suppress:{bad}", f"`{src(node)[:60]}` silences exceptions inside the package", file=mod.path, line=node.lineno, func="<suppress>")
    if bad == 0:
        run.ok(rule, "package:no-swallowing-handler", {"handlers_seen": n})


def r_init_order(ctx: Ctx, rule: str) -> None:
    """Positional construction is part of the public surface of the value classes (the docs list fields in order)."""
    import json
    import os

    run, m = ctx.run, ctx.m
    run.rule(
        rule,
        "the positional parameter order of every generated dataclass __init__ keeps the verified order as a prefix "
        "(fields and InitVars; new parameters only at the end): a caller passing arguments by position binds each value "
        "to the parameter it always bound to",
        expected_min=25,
    )
    path = os.path.join(os.path.dirname(os.path.dirname(os.path.abspath(__file__))), "baseline_functions.json")
    with open(path, encoding="utf-8") as f:
        base = json.load(f).get("init_order")
    if not base:
        raise AnalysisError("baseline_functions.json has no init_order table (regenerate with tools/gen_baseline.py)")
    by_key = {c.key: c for c in m.all_classes()}
    for key, order in sorted(base.items()):
        if key.startswith("tests.py"):
            continue
        c = by_key.get(key)
        if c is None or not c.is_dataclass or "__init__" in c.methods:
            continue  # renamed / hand-written constructor: not this rule's business
        cur = m.init_order(c)
        inst = f"{c.name}:init-order"
        if cur[: len(order)] == order:
            run.ok(rule, inst)
        else:
            moved = next((b for a, b in zip(cur + [None] * len(order), order) if a != b), order[-1] if order else "?")
            run.fail(
                rule,
                inst,
                f"{c.name}(...) takes its positional arguments as {cur}; the verified order is {order}: a caller passing `{moved}` by position now binds another parameter",
                file=c.module.path,
                line=c.node.lineno,
                func=c.name,
            )


_TAG_SET_ATTRS = ("columns", "columns_required", "min_columns", "max_columns", "common_columns", "columns_available", "unique_key")


def r_no_tag_ordering(ctx: Ctx, rule: str) -> None:
    """ColumnTag is a protocol with equality and hash only; ordering tags raises TypeError for the caller's tag type."""
    run, m = ctx.run, ctx.m
    run.rule(
        rule,
        "column tags are never ordered directly: every sorted()/min()/max()/list.sort() over a collection of tags gives a "
        "key= (or orders str(tag)/tag.qualified_name): the ColumnTag protocol promises ==, hash and qualified_name, not <, so a "
        "bare ordering raises TypeError - inside an error path it replaces the documented exception",
        expected_min=2,
    )

    def tagset(e: ast.AST, env: dict[str, ast.expr], depth: int = 0) -> bool:
        if depth > 4:
            return False
        if isinstance(e, ast.Name):
            b = env.get(e.id)
            return b is not None and tagset(b, env, depth + 1)
        if isinstance(e, ast.Attribute):
            return e.attr in _TAG_SET_ATTRS
        if isinstance(e, ast.BinOp):
            return tagset(e.left, env, depth + 1) or tagset(e.right, env, depth + 1)
        if isinstance(e, ast.Call):
            if isinstance(e.func, ast.Name) and e.func.id in ("set", "frozenset", "list", "tuple") and e.args:
                return tagset(e.args[0], env, depth + 1)
            if isinstance(e.func, ast.Attribute) and e.func.attr in ("union", "intersection", "difference", "symmetric_difference", "keys", "copy"):
                return tagset(e.func.value, env, depth + 1)
            return False
        if isinstance(e, (ast.GeneratorExp, ast.ListComp, ast.SetComp)):
            g = e.generators[0]
            return isinstance(e.elt, ast.Name) and isinstance(g.target, ast.Name) and e.elt.id == g.target.id and tagset(g.iter, env, depth + 1)
        if isinstance(e, (ast.Set, ast.List, ast.Tuple)):
            return False
        return False

    n = 0
    for f in m.all_functions():
        if f.module.rel.startswith("tests"):
            continue
        env: dict[str, ast.expr] = {}
        for s in ast.walk(f.node):
            if isinstance(s, ast.Assign) and len(s.targets) == 1 and isinstance(s.targets[0], ast.Name):
                env[s.targets[0].id] = s.value
            elif isinstance(s, ast.AnnAssign) and isinstance(s.target, ast.Name) and s.value is not None:
                env[s.target.id] = s.value
        for c in iter_calls(f.node):
            name = c.func.id if isinstance(c.func, ast.Name) else None
            arg = None
            if name in ("sorted", "min", "max") and len(c.args) == 1:
                arg = c.args[0]
            elif isinstance(c.func, ast.Attribute) and c.func.attr == "sort" and not c.args:
                arg = c.func.value
            if arg is None:
                continue
            n += 1
            inst = f"{f.module.rel}:{f.qualname}:{name or 'sort'}@{src(arg)[:30]}"
            if kw(c, "key") is not None or not tagset(arg, env):
                run.ok(rule, inst)
            else:
                run.fail(rule, inst, f"`{src(c)[:70]}` orders column tags themselves: tags only promise equality and hashing, so this raises TypeError for the caller's tag class (here instead of the result or the documented error)", fi=f, node=c)
    if n == 0:
        raise AnalysisError("no ordering call left in the package (the positive example of this rule is gone)")


def r_self_attributes_defined(ctx: Ctx, rule: str) -> None:
    """`self.x` in a method must be something the class (or a base) defines: otherwise the read fails for the instances
    that are not of the subclass the author had in mind - typically inside an error path, replacing the documented error."""
    run, m = ctx.run, ctx.m
    run.rule(
        rule,
        "every attribute a method reads from `self` is defined by its class or a base (field, annotation, method, property, "
        "class attribute, or an attribute some method of the hierarchy assigns): reading an attribute that only a sibling "
        "or subclass has raises AttributeError for every other instance",
        expected_min=100,
    )
    safe_external = {"ABC", "Generic", "Protocol", "Hashable", "object"}
    # classes the package itself instantiates by name (a mixin / base that is never constructed may rely on its subclasses)
    constructed = {(dotted(x.func) or "").split(".")[-1] for mod in m.modules.values() for x in ast.walk(mod.tree) if isinstance(x, ast.Call)}
    n = 0
    for c in m.all_classes():
        if c.module.rel.startswith("tests"):
            continue
        mro = m.mro(c)
        if any((b.split("[")[0].split(".")[-1] not in safe_external) for k in mro for b in k.external_bases):
            continue  # inherits from a class this model does not know
        defined: set[str] = set()
        for k in mro:
            defined |= set(k.methods) | set(k.class_assigns) | set(k.own_annotations) | {f.name for f in k.own_fields}
            for f in k.methods.values():
                for x in ast.walk(f.node):
                    if isinstance(x, ast.Attribute) and isinstance(x.ctx, ast.Store) and isinstance(x.value, ast.Name) and x.value.id in ("self", "cls"):
                        defined.add(x.attr)
                    elif isinstance(x, ast.Call) and src(x.func) in ("object.__setattr__", "setattr") and len(x.args) >= 2 and isinstance(x.args[1], ast.Constant) and isinstance(x.args[1].value, str):
                        defined.add(x.args[1].value)
        # abstract classes may rely on what every concrete subclass provides
        subs = [k for k in m.subclasses(c, strict=True)]
        for f in c.methods.values():
            if not f.params or f.params[0] != "self":
                continue
            for x in ast.walk(f.node):
                if not (isinstance(x, ast.Attribute) and isinstance(x.ctx, ast.Load) and isinstance(x.value, ast.Name) and x.value.id == "self"):
                    continue
                if x.attr.startswith("__") and x.attr.endswith("__"):
                    continue
                n += 1
                if x.attr in defined:
                    continue
                provided_below = bool(subs) and all(
                    any(x.attr in (set(kk.methods) | set(kk.class_assigns) | set(kk.own_annotations) | {fl.name for fl in kk.own_fields}) for kk in m.mro(k))
                    for k in subs
                    if not m.is_abstract(k)
                ) and (m.is_abstract(c) or c.name not in constructed)
                inst = f"{c.module.rel}:{c.name}.{f.name}:self.{x.attr}"
                if provided_below:
                    run.ok(rule, inst, {"provided_by": "every concrete subclass"})
                else:
                    run.fail(rule, inst, f"{c.name}.{f.name} reads `self.{x.attr}`, which neither {c.name} nor its bases define" + (f" (only {', '.join(k.name for k in subs if x.attr in {fl.name for fl in k.own_fields} | set(k.methods) | set(k.own_annotations))} has it)" if subs else "") + ": AttributeError for every other instance", fi=f, node=x)
    run.rules[rule].instances += n
    if n == 0:
        raise AnalysisError("no self-attribute read found")


def _canon_default(v):
    """The default *value* of a dataclass field: `x` for `= x` / `field(default=x)`, `factory:f` for default_factory, None if required."""
    import ast as _ast
    if isinstance(v, _ast.Call) and (getattr(v.func, "attr", None) == "field" or getattr(v.func, "id", None) == "field"):
        for k in v.keywords:
            if k.arg == "default":
                return _ast.unparse(k.value)
            if k.arg == "default_factory":
                return "factory:" + _ast.unparse(k.value)
        return None
    return _ast.unparse(v)


def r_public_defaults(ctx: Ctx, rule: str) -> None:
    """Default values of public parameters are behaviour every caller that omits the argument relies on."""
    import json
    import os

    run, m = ctx.run, ctx.m
    run.rule(
        rule,
        "every default value of a public function or method keeps its verified value (baseline_functions.json: defaults): "
        "a caller that omits the argument gets the documented behaviour (the name \"0\" of a doomed relation, backtrack=True, "
        "transfer=False, ...)",
        expected_min=30,
    )
    path = os.path.join(os.path.dirname(os.path.dirname(os.path.abspath(__file__))), "baseline_functions.json")
    with open(path, encoding="utf-8") as f:
        base = json.load(f).get("defaults")
    if not base:
        raise AnalysisError("baseline_functions.json has no defaults table (regenerate with tools/gen_baseline.py)")
    by_key = {f"{fi.module.rel}::{fi.qualname}": fi for fi in m.all_functions()}
    for key, params in sorted(base.items()):
        fi = by_key.get(key)
        if fi is None:
            continue  # renamed or removed: not this rule's business
        a = fi.node.args
        pos = a.posonlyargs + a.args
        cur: dict[str, str] = {}
        for arg, dv in zip(pos[len(pos) - len(a.defaults) :], a.defaults):
            cur[arg.arg] = ast.unparse(dv)
        for arg, dv in zip(a.kwonlyargs, a.kw_defaults):
            if dv is not None:
                cur[arg.arg] = ast.unparse(dv)
        allp = {x.arg for x in pos + a.kwonlyargs}
        for pname, want in params.items():
            if pname not in allp:
                continue  # parameter renamed / removed
            inst = f"{key}:{pname}"
            got = cur.get(pname)
            if got == want:
                run.ok(rule, inst)
            else:
                run.fail(rule, inst, f"{fi.qualname}({pname}=...) defaults to `{got if got is not None else '<required>'}`; the verified default is `{want}`: every caller that omits the argument now gets something else", fi=fi)
    with open(path, encoding="utf-8") as f:
        fbase = json.load(f).get("field_defaults") or {}
    classes = {c.key: c for c in m.all_classes()}
    for key, fields in sorted(fbase.items()):
        c = classes.get(key)
        if c is None:
            continue
        cur = {fl.name: _canon_default(fl.node.value) for fl in c.own_fields if fl.node.value is not None}
        names = {fl.name for fl in c.own_fields}
        for fname, want in fields.items():
            if fname not in names:
                continue
            inst = f"{key}.{fname}"
            got = cur.get(fname)
            if got == want:
                run.ok(rule, inst)
            else:
                run.fail(rule, inst, f"field {c.name}.{fname} defaults to `{got if got is not None else '<required>'}`; the verified default is `{want}`", file=c.module.path, line=c.node.lineno, func=c.name)


def r_no_shadowing_captures(ctx: Ctx, rule: str) -> None:
    """`case K(operation=Chain)` binds a local called Chain and matches everything; `case K(operation=Chain())` tests the class."""
    run, m = ctx.run, ctx.m
    run.rule(
        rule,
        "no `match` pattern captures into a name that the module already uses for a class, function or import: a bare "
        "`Name` sub-pattern is a capture that matches any value (and re-binds that name for the rest of the function), so "
        "an arm written as `operation=Chain` instead of `operation=Chain()` takes every operation for a chain",
        expected_min=3,
    )
    n = 0
    for mod in m.modules.values():
        if mod.rel.startswith("tests"):
            continue
        taken = set(mod.imports) | set(mod.classes) | set(mod.functions)
        for fn in ast.walk(ast.parse(mod.source, filename=mod.path)):  # the source as written
            if not isinstance(fn, ast.Match):
                continue
            for case in fn.cases:
                for p in ast.walk(case.pattern):
                    name = p.name if isinstance(p, (ast.MatchAs, ast.MatchStar)) else p.rest if isinstance(p, ast.MatchMapping) else None
                    if name is None:
                        continue
                    n += 1
                    inst = f"{mod.rel}:{name}@{src(case.pattern)[:40]}"
                    if name in taken:
                        run.fail(
                            rule,
                            inst,
                            f"the pattern `{src(case.pattern)[:80]}` captures into `{name}`, which is a {'class' if name in mod.classes else 'function' if name in mod.functions else 'imported name'} of this module: "
                            f"the sub-pattern matches any value instead of testing for `{name}` (write `{name}()`), and the name is re-bound for the rest of the function",
                            file=mod.path,
                            line=p.lineno,
                            func=name,
                        )
                    else:
                        run.ok(rule, inst)
    if n == 0:
        raise AnalysisError("no capture pattern found in the package; the match-based dispatchers are gone")


def r_no_double_formatting(ctx: Ctx, rule: str) -> None:
    """`f"... {relation} ..." % x` interprets the relation's own text as a format string."""
    run, m = ctx.run, ctx.m
    run.rule(
        rule,
        "no text is formatted twice: a template handed to `%` / .format() / .format_map() is a constant, never an f-string "
        "(directly or through a local) that already contains the text of a caller-supplied object - a `%` or `{` in a "
        "relation, column or prefix name would otherwise be taken for a directive, and the message or name being built "
        "turns into a ValueError/TypeError/KeyError or into different text",
        expected_min=1,
    )
    numeric = {"int", "float", "bool"}
    n = 0
    for f in m.all_functions():
        if f.module.rel.startswith("tests"):
            continue
        binds: dict[str, list[ast.expr]] = {}
        for s in ast.walk(f.node):
            if isinstance(s, ast.Assign) and len(s.targets) == 1 and isinstance(s.targets[0], ast.Name):
                binds.setdefault(s.targets[0].id, []).append(s.value)
            elif isinstance(s, ast.AnnAssign) and isinstance(s.target, ast.Name) and s.value is not None:
                binds.setdefault(s.target.id, []).append(s.value)
        ann = {a.arg: src(a.annotation) for a in f.node.args.args + f.node.args.kwonlyargs if a.annotation is not None}

        def templates(e: ast.expr) -> list[ast.JoinedStr]:
            if isinstance(e, ast.JoinedStr):
                return [e]
            if isinstance(e, ast.Name):
                return [t for b in binds.get(e.id, []) for t in templates(b)] if len(binds.get(e.id, [])) <= 3 else []
            if isinstance(e, ast.BinOp) and isinstance(e.op, ast.Add):
                return templates(e.left) + templates(e.right)
            if isinstance(e, ast.IfExp):
                return templates(e.body) + templates(e.orelse)
            return []

        for node in ast.walk(f.node):
            tmpl = None
            if isinstance(node, ast.BinOp) and isinstance(node.op, ast.Mod):
                tmpl = node.left
            elif isinstance(node, ast.Call) and isinstance(node.func, ast.Attribute) and node.func.attr in ("format", "format_map"):
                tmpl = node.func.value
            if tmpl is None:
                continue
            if isinstance(tmpl, ast.Constant):
                if isinstance(tmpl.value, str):
                    n += 1
                    run.ok(rule, f"{f.qualname}:{node.lineno - f.node.lineno}")
                continue
            ts = templates(tmpl)
            if not ts:
                continue
            n += 1
            texty = [
                v
                for t in ts
                for v in t.values
                if isinstance(v, ast.FormattedValue)
                and not (isinstance(v.value, ast.Name) and ann.get(v.value.id, "").split("|")[0].strip() in numeric)
                and not (v.format_spec is not None and src(v.format_spec).strip("'\"f").rstrip("}").endswith(("d", "x", "X", "f", "e", "g", "o", "b")))
                and not isinstance(v.value, ast.Constant)
            ]
            inst = f"{f.qualname}:{node.lineno - f.node.lineno}"
            if texty:
                run.fail(
                    rule,
                    inst,
                    f"`{src(node)[:80]}` formats a template that already contains the text of `{src(texty[0].value)[:40]}`: a `%` or `{{` in that text is taken for a format "
                    "directive, so building the string raises (or silently changes the text) exactly for the objects whose names contain one",
                    fi=f,
                    node=node,
                )
            else:
                run.ok(rule, inst)
    run.ok(rule, "scanned:all-functions", {"sites": n})


_STATIC_FACES = ("min_rows", "max_rows", "columns", "engine", "is_locked", "is_join_identity", "is_trivial", "__eq__", "__hash__", "__str__", "__repr__")


def r_metadata_ignores_payload(ctx: Ctx, rule: str) -> None:
    """`payload` is the one slot that is filled in later (execute(), Processor.process()); what a relation says about
    itself must not move when that happens."""
    run, m = ctx.run, ctx.m
    run.rule(
        rule,
        "no static face of a relation (min_rows, max_rows, columns, engine, is_locked, is_join_identity, is_trivial, "
        "equality, hash, str) reads a payload: payloads are attached to existing relations by execute()/process(), so "
        "bounds or flags computed from one change under relations that were built on top of it, and equal relations "
        "(one evaluated, one rebuilt) disagree",
        expected_min=10,
    )
    n = 0
    for c in m.subclasses(ctx.k.relation_root):
        if c.module.rel.startswith("tests"):
            continue
        for name in _STATIC_FACES:
            f = c.methods.get(name)
            if f is None:
                continue
            n += 1
            reads = [x for x in ast.walk(f.node) if isinstance(x, ast.Attribute) and x.attr == "payload" and isinstance(x.ctx, ast.Load)]
            inst = f"{c.name}.{name}"
            if reads:
                run.fail(
                    rule,
                    inst,
                    f"{c.name}.{name} reads `{src(reads[0])[:40]}`: the value changes when execute() or a Processor attaches the payload to the existing relation - every relation built on it reports other "
                    "bounds afterwards, and an equal relation built later keeps the old ones",
                    fi=f,
                    node=reads[0],
                )
            else:
                run.ok(rule, inst)
    if n == 0:
        raise AnalysisError("no relation class defines any of the static faces")


def _fresh_set(e: ast.AST) -> bool:
    if isinstance(e, (ast.Set, ast.SetComp)):
        return True
    if isinstance(e, ast.Call) and isinstance(e.func, ast.Name) and e.func.id in ("set", "frozenset"):
        return True
    if isinstance(e, ast.BinOp) and isinstance(e.op, (ast.BitOr, ast.BitAnd, ast.Sub, ast.BitXor)):
        return _fresh_set(e.left) or _fresh_set(e.right)
    return False


def r_no_order_from_fresh_sets(ctx: Ctx, rule: str) -> None:
    """`list({*a, *b})` de-duplicates and, silently, re-orders: by hash - for objects hashed by identity, by address."""
    run, m = ctx.run, ctx.m
    run.rule(
        rule,
        "no sequence takes its order from a hash set built on the spot: `list(set(...))`, `tuple({...})`, `[f(x) for x in "
        "{...}]` order their elements by hash, which for SQL elements, engines and other identity-hashed objects is the "
        "memory address - the same relation then compiles to differently ordered WHERE / ON / select lists from call to "
        "call (`sorted(..., key=...)` or `dict.fromkeys(...)` keep an order)",
        expected_min=1,
    )
    n = 0
    for mod in m.modules.values():
        if mod.rel.startswith("tests"):
            continue
        tree = ast.parse(mod.source, filename=mod.path)
        for x in ast.walk(tree):
            site = None
            if isinstance(x, ast.Call) and isinstance(x.func, ast.Name) and x.func.id in ("list", "tuple") and len(x.args) == 1 and _fresh_set(x.args[0]):
                site = x
            elif isinstance(x, ast.ListComp) and _fresh_set(x.generators[0].iter):
                site = x
            elif isinstance(x, ast.Starred) and _fresh_set(x.value) and isinstance(x.ctx, ast.Load):
                site = x
            elif isinstance(x, ast.For) and _fresh_set(x.iter) and any(isinstance(c, ast.Call) and isinstance(c.func, ast.Attribute) and c.func.attr in ("append", "extend", "insert") for b in x.body for c in ast.walk(b)):
                site = x
            if site is None:
                continue
            n += 1
            run.fail(
                rule,
                f"{mod.rel}:{site.lineno}",
                f"`{src(site)[:70]}` takes its order from a set built right there: the elements come out in hash order, which differs between runs (and, for objects hashed by identity, between calls), "
                "so whatever is built from the sequence - a WHERE clause, a select list, a tuple of operands - is not a function of the relation",
                file=mod.path,
                line=site.lineno,
                func="<expression>",
            )
    run.ok(rule, "package:scanned", {"sites": n})


def r_no_truthiness_dunders(ctx: Ctx, rule: str) -> None:
    """`if projection:` / `x or default` on an operation, relation or expression asks "is there one?" - until the class
    grows a __len__ or __bool__."""
    run, m = ctx.run, ctx.m
    run.rule(
        rule,
        "no relation, operation or expression class defines __bool__ or __len__: these objects are tested by truthiness "
        "all over the package and by callers (`if projection`, `predicate or default`, the flag Select.strip() hands "
        "back), which means 'present'; a container-like __len__ makes an empty projection, an empty sort or a "
        "zero-column relation count as absent",
        expected_min=20,
    )
    k = ctx.k
    classes = []
    for group in (k.column_exprs, k.predicates, k.containers, k.unary_ops, k.binary_ops):
        classes += list(group)
    classes += [c for c in m.subclasses(k.relation_root)]
    seen: set[str] = set()
    for c in classes:
        if c.key in seen or c.module.rel.startswith("tests"):
            continue
        seen.add(c.key)
        bad = [n for n in ("__bool__", "__len__") if n in c.methods]
        if bad:
            run.fail(rule, f"{c.name}:{bad[0]}", f"{c.name} defines {bad[0]}: every `if <{c.name.lower()}>` / `<x> or <default>` in the package and in callers now depends on its contents instead of on its presence", fi=c.methods[bad[0]])
        else:
            run.ok(rule, f"{c.name}")
