"""R05.9 / R13.7: merging at insertion and Selection's predicate normalisation, decided on concrete small inputs.

``simplify`` (with ``Slice.then`` / ``Sort.then`` / ``Predicate.logical_and`` / ``flatten_logical_and`` behind it) is a
pure function of two small operation values.  It is read from the source and interpreted (the evaluator of
`reqeval.py`, extended with ``*args``, classes as values, ``__post_init__`` and ``object.__setattr__`` - repository code
is not imported or run) for every ordered pair (upstream, new) drawn from a universe of ~60 operations - projections
onto every subset of three columns, two calculations, selections on opaque/literal/negated predicates, every slice with
0 <= start <= stop <= 4 or an open end, every sort with up to two terms over two columns and both directions (and a few
with three), deduplication - for which the pair is well-formed on the base relation.  Whatever ``simplify`` answers is
compared with the reference semantics of the two operations applied in sequence to a fixed table of rows that contains
ties, duplicates and every combination of the column values:

* ``None`` - nothing merged, nothing to decide;
* an operation r - r must be applicable to the base relation and r(rows) must equal new(upstream(rows)) row for row,
  in order;
* an exception - "merging never raises for a pair of operations that are each individually valid" is violated.

Likewise ``Selection(p)`` is constructed (running its ``__post_init__``) for every predicate tree p of the folding
universe and the stored predicate must have p's truth value under every assignment of the opaque atoms.
"""

from __future__ import annotations

import ast
import itertools

from ..astutil import AnalysisError, src
from ..model import ClassInfo, FunctionInfo
from ..props.common import Ctx
from . import foldeval
from .bounds import Crash, Obj, Oracle, _NeedChoice
from .reqeval import SetInterp


class MergeInterp(SetInterp):
    """`SetInterp` plus: ``*args``, classes as values, classmethods, ``__post_init__``, ``object.__setattr__``, dataclass equality."""

    # ---- dataclass equality of Obj values (compare=False fields are skipped)
    def obj_eq(self, a, b) -> bool:
        if isinstance(a, Obj) and isinstance(b, Obj):
            if a.cls is not b.cls:
                return False
            names = [f.name for f in self.m.fields(a.cls) if f.compare] if a.cls is not None and a.cls.is_dataclass else sorted(a.attrs)
            return all(self.obj_eq(a.attrs.get(n), b.attrs.get(n)) for n in names)
        if isinstance(a, (tuple, list)) and isinstance(b, (tuple, list)) and type(a) is type(b):
            return len(a) == len(b) and all(self.obj_eq(x, y) for x, y in zip(a, b))
        if isinstance(a, Obj) or isinstance(b, Obj):
            return False
        return a == b

    def getattr(self, o, name: str, n: ast.AST):
        # cached properties (cached_getter / cached_property) keep their first answer in the instance: a shallow copy
        # of the instance takes the answers along
        if isinstance(o, Obj) and o.cls is not None and name not in o.attrs:
            f = self.m.method(o.cls, name)
            if f is not None and f.is_property and f.is_cached and not f.is_abstract:
                key = f"_cached_{name}"
                if key in o.attrs:
                    return o.attrs[key]
                v = super().getattr(o, name, n)
                o.attrs[key] = v
                return v
        return super().getattr(o, name, n)

    def compare(self, op, a, b, n) -> bool:
        if isinstance(op, ast.Eq):
            return self.obj_eq(a, b)
        if isinstance(op, ast.NotEq):
            return not self.obj_eq(a, b)
        return super().compare(op, a, b, n)

    def eval(self, n: ast.expr, env: dict):
        if isinstance(n, ast.Compare) and len(n.ops) == 1 and isinstance(n.ops[0], (ast.In, ast.NotIn)):
            a, b = self.eval(n.left, env), self.eval(n.comparators[0], env)
            if isinstance(b, (list, tuple)):
                return any(self.obj_eq(a, x) for x in b) == isinstance(n.ops[0], ast.In)
            if isinstance(b, (set, frozenset)):
                return (a in b) == isinstance(n.ops[0], ast.In)
            raise Crash(f"`{src(n)}`: membership in {b!r}")
        if isinstance(n, ast.Name) and n.id not in env and n.id not in ("True", "False", "None"):
            c = self.m.resolve_class(self.module, n.id)
            if c is not None:
                return c
        if isinstance(n, ast.Attribute):
            o = self.eval(n.value, env)
            if isinstance(o, ClassInfo):
                f = self.m.method(o, n.attr)
                if f is not None:
                    return ("class-method", o, f)
                raise AnalysisError(f"merge evaluator: class attribute `{src(n)}` is not modelled")
            return self.getattr(o, n.attr, n)
        if isinstance(n, ast.JoinedStr):
            return "<text>"
        return super().eval(n, env)

    # ---- calls
    def call_function(self, f: FunctionInfo, self_obj, args: list, kwargs: dict):
        saved = self.module
        self.module = f.module
        try:
            a = f.node.args
            if a.vararg is None:
                return super().call_function(f, self_obj, args, kwargs)
            # *args: bind the fixed parameters, the rest goes to the vararg
            self.depth += 1
            if self.depth > 14:
                raise AnalysisError(f"{f.key}: recursion too deep for the evaluator")
            try:
                params = [x.arg for x in a.args]
                env: dict[str, object] = {}
                rest = list(args)
                if params and params[0] in ("self", "cls") and self_obj is not None:
                    env[params[0]] = self_obj
                    params = params[1:]
                elif self_obj is not None and isinstance(self_obj, Obj):
                    rest = [self_obj] + rest  # a plain function in a class body called through an instance
                for p in params:
                    if rest:
                        env[p] = rest.pop(0)
                    elif p in kwargs:
                        env[p] = kwargs[p]
                    else:
                        raise AnalysisError(f"{f.key}: parameter {p} is not bound in the evaluator")
                env[a.vararg.arg] = tuple(rest)
                from .bounds import _Return

                try:
                    self.block(f.node.body, env, f)
                except _Return as r:
                    return r.value
                return None
            finally:
                self.depth -= 1
        finally:
            self.module = saved

    def construct(self, cls: ClassInfo, args: list, kwargs: dict) -> Obj:
        fields = self.m.init_order(cls)
        if len(args) > len(fields):
            raise Crash(f"{cls.name}() takes {len(fields)} positional arguments but {len(args)} were given")
        attrs = dict(zip(fields, args))
        for k, v in kwargs.items():
            if k in attrs:
                raise Crash(f"{cls.name}() got multiple values for argument {k}")
            attrs[k] = v
        for fl in self.m.fields(cls):
            if fl.name not in attrs:
                if fl.default is not None:
                    attrs[fl.name] = self.eval(fl.default, {})
                elif "default" in fl.field_kwargs:
                    attrs[fl.name] = self.eval(fl.field_kwargs["default"], {})
                elif "default_factory" in fl.field_kwargs:
                    attrs[fl.name] = ()
                else:
                    raise Crash(f"{cls.name}() missing argument {fl.name}")
        o = Obj(cls, **attrs)
        post = self.m.method(cls, "__post_init__")
        if post is not None:
            self.call_function(post, o, [], {})
        return o

    def call(self, n: ast.Call, env: dict):
        f = n.func
        if isinstance(f, ast.Attribute) and src(f) == "object.__setattr__" and len(n.args) == 3:
            o, name, v = (self.eval(a, env) for a in n.args)
            if isinstance(o, Obj) and isinstance(name, str):
                o.attrs[name] = v
                return None
        if isinstance(f, ast.Attribute) and src(f) in ("copy.copy", "copy.deepcopy") and len(n.args) == 1 and "copy" not in env:
            o = self.eval(n.args[0], env)
            if isinstance(o, Obj):
                return Obj(o.cls, **dict(o.attrs))  # a shallow copy: same field values, a new object
            if isinstance(o, (list, set, dict)):
                return type(o)(o)
            return o
        if isinstance(f, ast.Attribute) and src(f) == "dataclasses.replace" and n.args and "dataclasses" not in env:
            o = self.eval(n.args[0], env)
            if isinstance(o, Obj) and o.cls is not None and o.cls.is_dataclass and len(n.args) == 1:
                attrs = {fl.name: o.attrs[fl.name] for fl in self.m.dataclass_fields(o.cls) if fl.name in o.attrs}
                attrs.update({k.arg: self.eval(k.value, env) for k in n.keywords if k.arg})
                return self.construct(o.cls, [], attrs)
        if isinstance(f, ast.Name) and f.id in ("getattr", "hasattr") and 2 <= len(n.args) <= 3 and f.id not in env:
            o = self.eval(n.args[0], env)
            name = self.eval(n.args[1], env)
            if isinstance(o, Obj) and isinstance(name, str):
                has = name in o.attrs or (o.cls is not None and self.m.method(o.cls, name) is not None)
                if f.id == "hasattr":
                    return has
                if has:
                    return self.getattr(o, name, n)
                if len(n.args) == 3:
                    return self.eval(n.args[2], env)
                raise Crash(f"`{src(n)[:50]}`: no attribute {name}")
        if isinstance(f, ast.Name) and f.id not in env:
            cls = self.m.resolve_class(self.module, f.id)
            if cls is not None and cls.is_dataclass:
                return self.construct(cls, self._args(n, env), {k.arg: self.eval(k.value, env) for k in n.keywords if k.arg})
        if isinstance(f, ast.Attribute) and not (isinstance(f.value, ast.Name) and f.value.id in ("set", "frozenset", "dict", "list", "tuple", "str", "int") and f.value.id not in env):
            o = self.eval(f.value, env)
            if isinstance(o, ClassInfo):
                meth = self.m.method(o, f.attr)
                if meth is None:
                    raise AnalysisError(f"merge evaluator: `{src(n)[:60]}`")
                args = self._args(n, env)
                kwargs = {k.arg: self.eval(k.value, env) for k in n.keywords if k.arg}
                first = meth.params[0] if meth.params else None
                return self.call_function(meth, o if first == "cls" else None, args, kwargs)
            if isinstance(o, Obj) and o.cls is not None:
                meth = self.m.method(o.cls, f.attr)
                if meth is not None and not meth.is_abstract:
                    args = self._args(n, env)
                    kwargs = {k.arg: self.eval(k.value, env) for k in n.keywords if k.arg}
                    return self.call_function(meth, o, args, kwargs)
            if isinstance(o, tuple) and f.attr in ("index", "count"):
                args = self._args(n, env)
                if f.attr == "count":
                    return sum(1 for x in o if self.obj_eq(x, args[0]))
                for i, x in enumerate(o):
                    if self.obj_eq(x, args[0]):
                        return i
                raise Crash(f"`{src(n)}`: not in tuple")
        if isinstance(f, ast.Name) and f.id in ("min", "max") and n.args and not n.keywords:
            vals = self._args(n, env)
            if len(vals) == 1 and isinstance(vals[0], (tuple, list)):
                vals = list(vals[0])
            if vals and all(isinstance(v, int) and not isinstance(v, bool) for v in vals):
                return min(vals) if f.id == "min" else max(vals)
            raise Crash(f"`{src(n)}` over {vals!r}")
        if isinstance(f, ast.Name) and f.id in ("dict",) and not n.args and not n.keywords:
            raise AnalysisError("merge evaluator: dict() is outside the fragment")
        return super().call(n, env)


# ------------------------------------------------------------------ reference semantics on rows

COLS = ("a", "b", "p")


class _BoomType:
    """The value of column `r` on rows where it cannot be evaluated (a partial function outside its domain)."""

    def __repr__(self) -> str:
        return "<undefined>"


BOOM = _BoomType()
_Q = [False, False, True, False, True, False, False, True, False, True, False, False]
BASE_ROWS = [
    {"a": 2, "b": 0, "p": True},
    {"a": 0, "b": 1, "p": False},
    {"a": 1, "b": 1, "p": True},
    {"a": 0, "b": 0, "p": True},
    {"a": 2, "b": 1, "p": False},
    {"a": 1, "b": 0, "p": False},
    {"a": 0, "b": 1, "p": False},
    {"a": 2, "b": 0, "p": True},
    {"a": 1, "b": 1, "p": False},
    {"a": 0, "b": 0, "p": False},
    {"a": 2, "b": 1, "p": True},
    {"a": 1, "b": 0, "p": True},
]
for _i, _row in enumerate(BASE_ROWS):
    _row["q"] = _Q[_i]
    # `r` is a predicate that is only defined where the guard `p or q` holds (think `10 // a > 1` behind `a != 0`)
    _row["r"] = (_i % 3 == 0) if (_row["p"] or _row["q"]) else BOOM
ALL_COLS = ("a", "b", "p", "q", "r")


class _Unsupported(Exception):
    pass


class _Boom(Exception):
    """A predicate was evaluated on a row where it is undefined."""


def _expr(e: Obj, row: dict):
    n = e.cls.name
    if n == "ColumnReference" or n == "PredicateReference":
        v = row[e.attrs["tag"]]
        if v is BOOM:
            raise _Boom(e.attrs["tag"])
        return v
    if n in ("ColumnLiteral", "PredicateLiteral"):
        return e.attrs["value"]
    if n == "LogicalNot":
        return not _expr(e.attrs["operand"], row)
    if n == "LogicalAnd":
        return all(_expr(x, row) for x in e.attrs["operands"])
    if n == "LogicalOr":
        return any(_expr(x, row) for x in e.attrs["operands"])
    raise _Unsupported(n)


def _needs(op: Obj) -> set[str]:
    from .reqeval import _ref_columns

    if op.cls.name == "Projection":
        return set(op.attrs["columns"])
    return set(_ref_columns(op))


def _apply(op: Obj, rows: list[dict], cols: set[str]) -> tuple[list[dict], set[str]] | None:
    """Reference semantics; None when the operation is not well-formed on these columns."""
    n = op.cls.name
    if not _needs(op) <= cols:
        return None
    if n == "Projection":
        keep = set(op.attrs["columns"])
        return [{k: r[k] for k in r if k in keep} for r in rows], keep
    if n == "Calculation":
        tag = op.attrs["tag"]
        if tag in cols:
            return None
        return [{**r, tag: _expr(op.attrs["expression"], r)} for r in rows], cols | {tag}
    if n == "Selection":
        return [r for r in rows if _expr(op.attrs["predicate"], r)], cols
    if n == "Slice":
        s, e = op.attrs["start"], op.attrs["stop"]
        if not isinstance(s, int) or s < 0 or (e is not None and (not isinstance(e, int) or e < s)):
            return None
        return rows[s:e], cols
    if n == "Sort":
        out = list(rows)
        for t in reversed(op.attrs["terms"]):
            out.sort(key=lambda r, t=t: _expr(t.attrs["expression"], r), reverse=not t.attrs["ascending"])
        return out, cols
    if n == "Deduplication":
        seen, out = set(), []
        for r in rows:
            k = tuple(sorted(r.items()))
            if k not in seen:
                seen.add(k)
                out.append(r)
        return out, cols
    raise _Unsupported(n)


def _show_op(op) -> str:
    if not isinstance(op, Obj):
        return repr(op)
    n = op.cls.name
    a = op.attrs
    if n == "Projection":
        return "Projection{" + ",".join(sorted(a["columns"])) + "}"
    if n == "Calculation":
        return f"Calculation({a['tag']}={foldeval._show(a['expression']) if a['expression'].cls.name.startswith('Predicate') else _show_e(a['expression'])})"
    if n == "Selection":
        return f"Selection({foldeval._show(a['predicate'])})"
    if n == "Slice":
        return f"Slice[{a['start']}:{a['stop']}]"
    if n == "Sort":
        return "Sort[" + ", ".join(("" if t.attrs["ascending"] else "-") + _show_e(t.attrs["expression"]) for t in a["terms"]) + "]"
    return n


def _show_e(e) -> str:
    if isinstance(e, Obj):
        if "tag" in e.attrs:
            return str(e.attrs["tag"])
        if "value" in e.attrs:
            return repr(e.attrs["value"])
    return repr(e)


def _universe(ctx: Ctx) -> list[Obj]:
    m = ctx.m
    E, P = "_columns/_expression.py", "_columns/_predicate.py"
    ref = lambda t: Obj(ctx.cls(E, "ColumnReference"), tag=t, dtype=None)  # noqa: E731
    lit = Obj(ctx.cls(E, "ColumnLiteral"), value=7, dtype=None)
    pr = Obj(ctx.cls(P, "PredicateReference"), tag="p")
    qr = Obj(ctx.cls(P, "PredicateReference"), tag="q")
    rr = Obj(ctx.cls(P, "PredicateReference"), tag="r")
    guard = Obj(ctx.cls(P, "LogicalOr"), operands=(pr, qr))
    T = Obj(ctx.cls(P, "PredicateLiteral"), value=True)
    F = Obj(ctx.cls(P, "PredicateLiteral"), value=False)
    notp = Obj(ctx.cls(P, "LogicalNot"), operand=pr)
    proj, calc, sel, slc, sort, dd = (ctx.op_class(n) for n in ("Projection", "Calculation", "Selection", "Slice", "Sort", "Deduplication"))
    st = m.find_class("SortTerm")
    ops: list[Obj] = []
    for r in range(0, 4):
        for cols in itertools.combinations(COLS, r):
            ops.append(Obj(proj, columns=frozenset(cols)))
    ops.append(Obj(proj, columns=frozenset(ALL_COLS)))
    ops.append(Obj(proj, columns=frozenset(("a", "p", "q", "r"))))
    ops.append(Obj(calc, tag="c", expression=ref("a")))
    ops.append(Obj(calc, tag="c", expression=lit))
    ops.append(Obj(calc, tag="d", expression=ref("b")))
    for p in (pr, notp, T, F, Obj(ctx.cls(P, "LogicalAnd"), operands=(pr, T)), Obj(ctx.cls(P, "LogicalOr"), operands=(notp, F))):
        ops.append(Obj(sel, predicate=p))
    # a guard over two columns, the guarded partial predicate, and their (short-circuiting) conjunction
    ops.append(Obj(sel, predicate=guard))
    ops.append(Obj(sel, predicate=rr))
    ops.append(Obj(sel, predicate=Obj(ctx.cls(P, "LogicalAnd"), operands=(guard, rr))))
    for s in range(0, 4):
        ops.append(Obj(slc, start=s, stop=None))
        for e in range(s, 5):
            ops.append(Obj(slc, start=s, stop=e))
    ops.append(Obj(slc, start=1, stop=9))
    terms = [Obj(st, expression=ref(c), ascending=asc) for c in ("a", "b") for asc in (True, False)]
    ops.append(Obj(sort, terms=()))
    for t in terms:
        ops.append(Obj(sort, terms=(t,)))
    for t, u in itertools.product(terms, repeat=2):
        ops.append(Obj(sort, terms=(t, u)))
    ops.append(Obj(sort, terms=(terms[0], terms[2], terms[1])))
    ops.append(Obj(sort, terms=(terms[3], terms[0], terms[2])))
    ops.append(Obj(sort, terms=(Obj(st, expression=ref("p"), ascending=True), terms[1])))
    ops.append(Obj(dd))
    return ops


def decided(ctx: Ctx):
    cached = getattr(ctx, "_merge_cache", None)
    if cached is None:
        cached = _decide(ctx)
        ctx._merge_cache = cached  # type: ignore[attr-defined]
    return cached


def _decide(ctx: Ctx):
    m = ctx.m
    ops = _universe(ctx)
    base_cols = set(ALL_COLS)
    bad: dict[str, tuple[str, FunctionInfo | None]] = {}
    counts: dict[str, int] = {}
    merged: dict[str, int] = {}
    for up in ops:
        try:
            mid = _apply(up, BASE_ROWS, base_cols)
        except _Boom:
            continue  # not evaluable on its own
        if mid is None:
            continue
        mid_rows, mid_cols = mid
        for new in ops:
            try:
                want = _apply(new, mid_rows, mid_cols)
            except _Boom:
                continue
            if want is None:
                continue
            key = f"{new.cls.name}.simplify({up.cls.name})"
            if key in bad:
                continue
            meth = m.method(new.cls, "simplify")
            if meth is None:
                raise AnalysisError(f"{new.cls.name} has no simplify()")
            interp = MergeInterp(ctx, Oracle([]), new.cls.module, {})
            counts[key] = counts.get(key, 0) + 1
            pair = f"{_show_op(up)} then {_show_op(new)}"
            try:
                got = interp.call_function(meth, new, [up], {})
            except Crash as e:
                bad[key] = (f"{pair}: simplify() raises ({e}) although both operations are valid on their own", meth)
                continue
            except _NeedChoice:
                raise AnalysisError(f"{key} depends on a predicate the evaluator cannot decide")
            if got is None:
                continue
            if not isinstance(got, Obj) or got.cls is None:
                bad[key] = (f"{pair}: simplify() returns {got!r}, neither None nor an operation", meth)
                continue
            merged[key] = merged.get(key, 0) + 1
            try:
                res = _apply(got, BASE_ROWS, base_cols)
            except _Unsupported as e:
                raise AnalysisError(f"{key}: merged into a {e} operation the reference semantics does not know")
            except _Boom as e:
                bad[key] = (
                    f"{pair}: merged into {_show_op(got)}, which evaluates `{e}` on a row the upstream operation had removed (where it is undefined): "
                    "applied in sequence the later predicate only ever sees rows that passed the earlier one",
                    _blame(ctx, new, up, meth),
                )
                continue
            if res is None:
                bad[key] = (f"{pair}: merged into {_show_op(got)}, which is not well-formed on the upstream relation (columns {sorted(base_cols)})", meth)
                continue
            if res[0] != want[0]:
                i = next((j for j, (x, y) in enumerate(zip(res[0], want[0])) if x != y), min(len(res[0]), len(want[0])))
                bad[key] = (
                    f"{pair}: merged into {_show_op(got)}, which gives {len(res[0])} row(s) and differs from the two operations applied in sequence "
                    f"({len(want[0])} row(s)) at row {i}: {res[0][i] if i < len(res[0]) else 'missing'} instead of {want[0][i] if i < len(want[0]) else 'nothing'}",
                    _blame(ctx, new, up, meth),
                )
    out = []
    for key in sorted(counts):
        if key in bad:
            msg, fi = bad[key]
            out.append((key, False, msg, fi, None))
        else:
            out.append((key, True, "", None, {"pairs": counts[key], "merged": merged.get(key, 0)}))
    return out


def _blame(ctx: Ctx, new: Obj, up: Obj, meth: FunctionInfo) -> FunctionInfo:
    """The composition helper when simplify only delegates to it."""
    if new.cls is up.cls:
        then = ctx.m.method(new.cls, "then")
        if then is not None and any(isinstance(n, ast.Call) and isinstance(n.func, ast.Attribute) and n.func.attr == "then" for n in ast.walk(meth.node)):
            return then
    return meth


def r05_9_merge_semantics(ctx: Ctx, rule: str = "R05.9") -> None:
    run = ctx.run
    run.rule(
        rule,
        "simplify() (with Slice.then / Sort.then / logical_and behind it) is evaluated for every well-formed ordered pair of ~60 "
        "small operations: a merged operation gives, on a table of rows with ties and duplicates, exactly the rows of the two "
        "operations applied in sequence, in order; it is well-formed on the upstream relation; merging never raises",
        expected_min=25,
    )
    for inst, ok, msg, fi, extra in decided(ctx):
        if ok:
            run.ok(rule, inst, extra)
        else:
            run.fail(rule, inst, msg, fi=fi)


def r13_7_selection_stores_equivalent(ctx: Ctx, rule: str = "R13.7") -> None:
    """Selection(p) stores a predicate equivalent to p (its __post_init__ is run on every tree of the folding universe)."""
    run, m = ctx.run, ctx.m
    run.rule(
        rule,
        "Selection(p).predicate has p's truth value under every assignment of the opaque atoms and mentions the same columns, "
        "for every predicate tree of the folding universe (the constructor's normalisation is evaluated, not pattern-matched)",
        expected_min=1,
    )
    sel = ctx.op_class("Selection")
    post = m.method(sel, "__post_init__")
    trees = foldeval._universe(ctx)
    n = 0
    bad = None
    for t in trees:
        interp = MergeInterp(ctx, Oracle([]), sel.module, {})
        try:
            o = interp.construct(sel, [t], {})
        except Crash as e:
            bad = bad or f"Selection({foldeval._show(t)}) raises: {e}"
            continue
        except _NeedChoice:
            raise AnalysisError("Selection.__post_init__ depends on a predicate the evaluator cannot decide")
        n += 1
        stored = o.attrs.get("predicate")
        if not isinstance(stored, Obj):
            bad = bad or f"Selection({foldeval._show(t)}) stores {stored!r}"
            continue
        from .reqeval import _ref_columns

        if _ref_columns(stored) != _ref_columns(t):
            lost = sorted(set(_ref_columns(t)) - set(_ref_columns(stored)))
            bad = bad or (
                f"Selection({foldeval._show(t)}) stores `{foldeval._show(stored)}`, which no longer mentions column(s) {lost}: a selection on a relation that lacks "
                "them is then accepted although the predicate that was asked for cannot be evaluated there (only literal conjuncts may be dropped)"
            )
            continue
        for a in foldeval._ASSIGNMENTS:
            if foldeval._value(stored, a) != foldeval._value(t, a):
                bad = bad or (
                    f"Selection({foldeval._show(t)}) stores `{foldeval._show(stored)}`, which is {foldeval._value(stored, a)} where the given predicate is "
                    f"{foldeval._value(t, a)} when " + ", ".join(f"{k}={v}" for k, v in a.items() if k in foldeval._mentioned(t))
                )
                break
    if bad:
        run.fail(rule, "Selection.predicate:equivalent", bad, fi=post or m.method(sel, "simplify"))
    else:
        run.ok(rule, "Selection.predicate:equivalent", {"trees": n})
