"""Engines are not written to while they convert or execute a tree.

Relations compare structurally and *ignore payloads* (``compare=False``), so anything an engine remembered from one
conversion - keyed by relation, by name, by anything - can be replayed for a different tree; and conversion results
must be a function of the tree alone for repeated execution to be meaningful.  The rule is a who-may-write check:
no method of an engine class that is reachable (through ``self.m(...)`` calls, following the MRO) from the
conversion/execution entry points stores to ``self.<attr>``, to an item of it, or calls a mutating container method on it.
"""

from __future__ import annotations

import ast

from ..astutil import AnalysisError, call_attr, src
from ..model import ClassInfo, FunctionInfo
from ..props.common import Ctx

MUTATORS = {"update", "setdefault", "pop", "popitem", "clear", "append", "extend", "add", "discard", "remove", "insert", "sort", "reverse", "__setitem__", "__delitem__"}


def _self_rooted(e: ast.expr, selfname: str) -> str | None:
    """`self.a.b` -> 'a' (the engine attribute the expression reaches through)."""
    chain = []
    while isinstance(e, (ast.Attribute, ast.Subscript)):
        if isinstance(e, ast.Attribute):
            chain.append(e.attr)
        e = e.value
    if isinstance(e, ast.Name) and e.id == selfname and chain:
        return chain[-1]
    return None


def engine_writes(fn: ast.FunctionDef, selfname: str = "self") -> list[tuple[ast.AST, str]]:
    out: list[tuple[ast.AST, str]] = []
    for n in ast.walk(fn):
        targets: list[ast.expr] = []
        if isinstance(n, ast.Assign):
            targets = list(n.targets)
        elif isinstance(n, (ast.AugAssign, ast.AnnAssign)):
            targets = [n.target] if not (isinstance(n, ast.AnnAssign) and n.value is None) else []
        elif isinstance(n, ast.Delete):
            targets = list(n.targets)
        for t in targets:
            for e in ast.walk(t) if isinstance(t, (ast.Tuple, ast.List)) else [t]:
                if isinstance(e, (ast.Attribute, ast.Subscript)):
                    a = _self_rooted(e, selfname)
                    if a is not None:
                        out.append((n, f"store to {src(e)}"))
        if isinstance(n, ast.Call):
            f = n.func
            if isinstance(f, ast.Attribute) and f.attr in MUTATORS:
                a = _self_rooted(f.value, selfname)
                if a is not None:
                    out.append((n, f"{src(f.value)}.{f.attr}(...)"))
            name = src(f)
            if name in ("setattr", "object.__setattr__", "delattr", "object.__delattr__") and n.args and isinstance(n.args[0], ast.Name) and n.args[0].id == selfname:
                out.append((n, f"{name}({selfname}, ...)"))
    return out


_SELF_TEST = '''
class E:
    def convert(self, relation):
        if (c := self.cache.get(relation)) is not None:
            return c
        r = self.build(relation)
        self.cache[relation] = r
        self.seen.add(relation)
        self.n += 1
        return r
'''


def r_engine_stateless(ctx: Ctx, rule: str, engine_rel: str, roots: tuple[str, ...]) -> None:
    run, m = ctx.run, ctx.m
    run.rule(
        rule,
        f"the engine in {engine_rel} is not written to while converting/executing: no method reachable from "
        f"{', '.join(roots)} stores to self.<attr>, to an item of it, or calls a mutating container method on it "
        "(relations compare without their payloads, so remembered results can be replayed for a different tree)",
        expected_min=3,
    )
    # the detector itself must fire on a known positive
    probe = ast.parse(_SELF_TEST).body[0].body[0]  # type: ignore[attr-defined]
    if len(engine_writes(probe)) != 3:
        raise AnalysisError("purity self-test: the write detector no longer recognises the reference positives")
    eng: ClassInfo = ctx.cls(engine_rel, "Engine")
    todo: list[FunctionInfo] = []
    for r in roots:
        f = m.method(eng, r)
        if f is None:
            raise AnalysisError(f"{engine_rel}: Engine.{r} is missing")
        todo.append(f)
    seen: dict[str, FunctionInfo] = {}
    while todo:
        f = todo.pop()
        if f.key in seen:
            continue
        seen[f.key] = f
        for n in ast.walk(f.node):
            if isinstance(n, ast.Call) and isinstance(n.func, ast.Attribute) and isinstance(n.func.value, ast.Name) and n.func.value.id in ("self", "cls"):
                g = m.method(eng, n.func.attr)
                if g is not None and g.key not in seen:
                    todo.append(g)
            elif isinstance(n, ast.Call) and isinstance(n.func, ast.Attribute) and isinstance(n.func.value, ast.Call) and src(n.func.value.func) == "super":
                for k in m.mro(eng)[1:]:
                    if n.func.attr in k.methods:
                        todo.append(k.methods[n.func.attr])
                        break
    for key in sorted(seen):
        f = seen[key]
        selfname = f.params[0] if f.params else "self"
        ws = engine_writes(f.node, selfname)
        if not ws:
            run.ok(rule, f.qualname if f.module.rel == engine_rel else f"{f.module.rel}:{f.qualname}")
        for node, what in ws:
            run.fail(
                rule,
                f"{f.qualname}:{what[:40]}",
                f"{f.qualname} writes engine state during conversion/execution ({what}): the result of converting a tree must depend on that "
                "tree only; a remembered result is replayed for any relation that compares equal, and relations compare without their payloads",
                fi=f,
                node=node,
            )


# ------------------------------------------------------------------ value-keyed memoisation of functions of relations


def _cache_decorator(d: ast.expr) -> str | None:
    e = d.func if isinstance(d, ast.Call) else d
    name = src(e).split(".")[-1]
    return name if name in ("lru_cache", "cache") else None


_CACHE_SELF_TEST = '''
import functools
class T:
    @classmethod
    @functools.lru_cache(maxsize=16)
    def simplify(cls, target: "Relation", destination: Engine): ...
    @functools.cache
    def f(self, x: int): ...
'''


def r_no_value_keyed_cache(ctx: Ctx, rule: str) -> None:
    """functools.cache / lru_cache key on argument *equality*; relations compare structurally and without payloads,
    engines... by identity, but a cached result outlives the tree it was computed for."""
    run, m = ctx.run, ctx.m
    run.rule(
        rule,
        "no function that takes a relation is memoised with functools.cache/lru_cache: the cache is keyed by relation "
        "equality, which is structural and ignores payloads, messages and row bounds, so a result computed for one tree "
        "(an identical locked node, a payload-bearing subtree) is handed out for another that merely compares equal",
        expected_min=1,
    )
    rel_names = {c.name for c in m.subclasses(ctx.k.relation_root)} | {"Relation", "BaseRelation"}

    def offenders(tree: ast.AST):
        out = []
        for fn in ast.walk(tree):
            if not isinstance(fn, (ast.FunctionDef, ast.AsyncFunctionDef)):
                continue
            deco = [c for c in (_cache_decorator(d) for d in fn.decorator_list) if c]
            if not deco:
                continue
            a = fn.args
            for arg in a.posonlyargs + a.args + a.kwonlyargs:
                if arg.arg in ("self", "cls"):
                    # a cached *method* is keyed by its receiver as well
                    continue
                ann = arg.annotation
                text = ann.value if isinstance(ann, ast.Constant) and isinstance(ann.value, str) else (src(ann) if ann is not None else "")
                names = set()
                try:
                    names = {n.id for n in ast.walk(ast.parse(text, mode="eval")) if isinstance(n, ast.Name)} | {n.attr for n in ast.walk(ast.parse(text, mode="eval")) if isinstance(n, ast.Attribute)} if text else set()
                except SyntaxError:
                    names = set()
                if names & rel_names or arg.arg in ("relation", "target", "lhs", "rhs", "tree"):
                    out.append((fn, deco[0], arg.arg))
                    break
        return out

    probe = offenders(ast.parse(_CACHE_SELF_TEST))
    if [(f.name, a) for f, _, a in probe] != [("simplify", "target")]:
        raise AnalysisError("cache self-test: the detector no longer recognises the reference positive/negative pair")
    n = 0
    for mod in m.modules.values():
        found = offenders(mod.tree)
        for fn, deco, arg in found:
            n += 1
            run.fail(
                rule,
                f"{mod.rel}:{fn.name}:{deco}",
                f"`{fn.name}` is memoised with functools.{deco} and takes the relation `{arg}`: two distinct relations that compare equal "
                "(equal structure, different payloads or leaf objects) share one cached result",
                file=mod.path,
                line=fn.lineno,
                func=fn.name,
            )
    if n == 0:
        run.ok(rule, "package:no-memoised-function-of-relations", {"modules": len(m.modules)})
