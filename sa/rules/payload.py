"""Rules about the only mutable slot of a relation tree: ``MarkerRelation.payload``.

R10.1 single guarded writer      R10.2 no reset / re-construction with payload
R10.3 evaluate at most once      (shared by C07, C09, C10)
"""

from __future__ import annotations

import ast

from ..astutil import AnalysisError, call_attr, dotted, iter_calls, kw, src
from ..facts import has_fact, path_facts
from ..flow import calls_named, case_index, path_calls
from ..props.common import IT_ENGINE, MARKER, PROCESSOR, RELATION, Ctx, describe
from .stores import attribute_stores, describe_store


def r10_1_single_writer(ctx: Ctx) -> None:
    run, m = ctx.run, ctx.m
    run.rule(
        "R10.1",
        "the only store to a `payload` attribute is in MarkerRelation.attach_payload on a path "
        "carrying `self.payload is None`; the other path raises TypeError; no override; "
        "BaseRelation.attach_payload raises TypeError on every path",
        expected_min=6,
    )
    marker = ctx.cls(MARKER, "MarkerRelation")
    base = ctx.cls(RELATION, "BaseRelation")
    attach = m.func(MARKER, "MarkerRelation.attach_payload")

    stores = [s for s in attribute_stores(m) if s.attr == "payload" or (s.attr is None and s.how in ("setattr", "dict"))]
    payload_stores = 0
    for s in stores:
        inst = f"store:{s.where}:{src(s.obj)}.{s.attr or '<dynamic>'}"
        if s.attr is None:
            # a dynamic attribute name could be "payload"; only __post_init__-style normalisation of own
            # fields is tolerated elsewhere (R09.3); here we only need "not payload on a relation"
            owner = s.fi.cls if s.fi else None
            if owner is not None and m.is_subclass(owner, base):
                run.fail("R10.1", inst, "attribute store with a computed name on a relation class may overwrite `payload`", fi=s.fi, node=s.node)
            else:
                run.ok("R10.1", inst)
            continue
        payload_stores += 1
        if s.fi is not attach:
            run.fail(
                "R10.1",
                inst,
                f"`payload` is written outside MarkerRelation.attach_payload ({describe_store(s)})",
                fi=s.fi,
                node=s.node,
                file=s.module.path,
                func=s.where,
            )
            continue
        # inside attach_payload: the store must be guarded by `self.payload is None`
        guarded = True
        seen = False
        for p in ctx.paths(attach):
            idx = _index_of_node(p, s.node)
            if idx < 0:
                continue
            seen = True
            facts = path_facts(p, idx)
            recv = src(s.obj)
            if not has_fact(facts, "IS", tuple(sorted(("None", f"{recv}.payload"))), True):
                guarded = False
                run.fail(
                    "R10.1",
                    inst,
                    "the payload store is reachable without having tested `payload is None` on the receiver",
                    fi=attach,
                    node=s.node,
                    details=describe(p),
                )
        if not seen:
            raise AnalysisError("payload store in attach_payload is not on any enumerated path")
        if guarded:
            run.ok("R10.1", inst, {"store": src(s.node), "guard": "self.payload is None"})
    if payload_stores == 0:
        raise AnalysisError("no store to a `payload` attribute found: attach_payload has changed shape")

    # every path of attach_payload either stores or raises TypeError
    for i, p in enumerate(ctx.paths(attach)):
        inst = f"attach_payload:path{i}:{p.outcome}"
        stores_here = [s for s in stores if s.fi is attach and _index_of_node(p, s.node) >= 0]
        if stores_here:
            run.ok("R10.1", inst)
        elif p.raises("TypeError"):
            run.ok("R10.1", inst, {"path": p.describe()})
        else:
            run.fail(
                "R10.1",
                inst,
                "a path through attach_payload neither stores the payload nor raises TypeError "
                "(a second attach would be silently ignored or mis-handled)",
                fi=attach,
                node=p.node or attach.node,
                details=describe(p),
            )

    # no subclass of MarkerRelation overrides attach_payload
    for c in m.subclasses(marker, strict=True):
        inst = f"override:{c.name}"
        if "attach_payload" in c.methods:
            run.fail("R10.1", inst, f"{c.name} overrides attach_payload; the write-once guard is no longer the single writer", fi=c.methods["attach_payload"])
        else:
            run.ok("R10.1", inst)

    # BaseRelation.attach_payload raises TypeError on every path and is what non-marker kinds resolve to
    base_attach = m.func(RELATION, "BaseRelation.attach_payload")
    for i, p in enumerate(ctx.paths(base_attach)):
        inst = f"BaseRelation.attach_payload:path{i}"
        if p.raises("TypeError"):
            run.ok("R10.1", inst)
        else:
            run.fail("R10.1", inst, "BaseRelation.attach_payload has a path that does not raise TypeError", fi=base_attach, node=p.node or base_attach.node, details=describe(p))
    for c in ctx.k.relation_kinds:
        if m.is_subclass(c, marker):
            continue
        inst = f"resolves:{c.name}"
        f = m.method(c, "attach_payload")
        if f is base_attach:
            run.ok("R10.1", inst)
        else:
            run.fail("R10.1", inst, f"{c.name}.attach_payload does not resolve to the always-raising BaseRelation version", fi=f or base_attach)


def _first_param(fi) -> str:
    ps = [p for p in fi.params if p not in ("self", "cls")]
    if not ps:
        raise AnalysisError(f"{fi.key} has no relation parameter")
    return ps[0]


def _index_of_node(path, node: ast.AST) -> int:
    for i, s in enumerate(path.steps):
        if s.node is node:
            return i
        if s.kind in ("stmt", "cond") and any(n is node for n in ast.walk(s.node)):
            return i
    return -1


def r10_2_no_reset(ctx: Ctx) -> None:
    """Nodes are never re-created with a payload except through the two sanctioned sites."""
    run, m = ctx.run, ctx.m
    run.rule(
        "R10.2",
        "`payload=` is passed to a marker constructor / dataclasses.replace only in Engine.transfer and "
        "MarkerRelation.reapply (both return a new node; nothing is stored back)",
        expected_min=2,
    )
    marker = ctx.cls(MARKER, "MarkerRelation")
    allowed = {f"{MARKER}::MarkerRelation.reapply", "_engine.py::Engine.transfer"}
    for fi in m.all_functions():
        for call in iter_calls(fi.node):
            if kw(call, "payload") is None:
                continue
            name = dotted(call.func) or src(call.func)
            target_cls = m.resolve_class(fi.module, name.split("[")[0]) if name else None
            is_replace = name.endswith("replace") and name.split(".")[0] in ("dataclasses", "replace")
            is_marker_ctor = target_cls is not None and m.is_subclass(target_cls, marker)
            if not (is_replace or is_marker_ctor or name in ("cls",)):
                continue
            if name == "cls" and not (fi.cls and m.is_subclass(fi.cls, marker)):
                continue
            inst = f"{fi.qualname}:{name}(payload=...)"
            if fi.key in allowed:
                run.ok("R10.2", inst, {"call": src(call)[:120]})
            else:
                run.fail("R10.2", inst, "a marker relation is (re)built with an explicit payload outside the sanctioned sites", fi=fi, node=call)


def r10_3_evaluate_once(ctx: Ctx) -> None:
    run, m = ctx.run, ctx.m
    run.rule(
        "R10.3",
        "materialization evaluation is dominated by the cached-payload test and ends in exactly one "
        "attach_payload of the value it returns (iteration execute; Processor._process_recursive)",
        expected_min=6,
    )
    # ---- iteration engine
    execute = m.func(IT_ENGINE, "Engine.execute")
    rel = _first_param(execute)
    arm_paths = [p for p in ctx.paths(execute) if case_index(p, "Materialization", rel) >= 0]
    if not arm_paths:
        raise AnalysisError("iteration Engine.execute has no `case Materialization` arm on `relation`")
    for i, p in enumerate(arm_paths):
        idx = case_index(p, "Materialization", rel)
        inst = f"execute:Materialization:path{i}"
        facts = path_facts(p, idx)
        if not has_fact(facts, "IS", ("None", f"{rel}.payload"), True):
            run.fail(
                "R10.3",
                inst + ":cache-test",
                f"the Materialization arm is reachable without `{rel}.payload is None` having been established: "
                "a cached materialization would be evaluated again",
                fi=execute,
                node=p.steps[idx].node.pattern,  # type: ignore[union-attr]
                details=describe(p),
            )
        else:
            run.ok("R10.3", inst + ":cache-test")
        if p.outcome != "return":
            run.ok("R10.3", inst + ":attach")
            continue
        attaches = [(j, c) for j, c in calls_named(p, "attach_payload", idx) if isinstance(c.func, ast.Attribute) and src(c.func.value) == rel]
        ret = src(p.value)
        if len(attaches) != 1:
            run.fail(
                "R10.3",
                inst + ":attach",
                f"the Materialization arm attaches the computed rows {len(attaches)} time(s) to `{rel}`; "
                "exactly one attach is needed for later evaluations to reuse them",
                fi=execute,
                node=p.node,
                details=describe(p),
            )
        elif not attaches[0][1].args or src(attaches[0][1].args[0]) != ret:
            run.fail(
                "R10.3",
                inst + ":attach",
                f"the payload attached ({src(attaches[0][1].args[0]) if attaches[0][1].args else '?'}) is not the value returned ({ret})",
                fi=execute,
                node=attaches[0][1],
                details=describe(p),
            )
        else:
            run.ok("R10.3", inst + ":attach", {"attach": src(attaches[0][1]), "returns": ret})
    # the cache test returns the payload itself
    early = [p for p in ctx.paths(execute) if p.outcome == "return" and has_fact(path_facts(p), "IS", ("None", f"{rel}.payload"), False)]
    if not early:
        run.fail("R10.3", "execute:cache-return", f"no path of execute returns early on `{rel}.payload is not None`", fi=execute)
    for i, p in enumerate(early):
        from ..paths import resolve_name

        v = p.value
        val = resolve_name(p, v.id) if isinstance(v, ast.Name) else v
        ok = val is not None and not isinstance(val, tuple) and src(val) == f"{rel}.payload"
        if ok:
            run.ok("R10.3", f"execute:cache-return:path{i}", {"returns": f"{rel}.payload"})
        else:
            run.fail("R10.3", f"execute:cache-return:path{i}", "the early return on a cached payload does not return that payload", fi=execute, node=p.node, details=describe(p))

    # ---- Processor
    proc = m.func(PROCESSOR, "Processor._process_recursive")
    orig = _first_param(proc)
    paths = ctx.paths(proc)
    hooks = 0
    for i, p in enumerate(paths):
        for j, c in path_calls(p):
            if call_attr(c) in ("transfer", "materialize") and isinstance(c.func, ast.Attribute) and src(c.func.value) == "self":
                hooks += 1
                inst = f"process:{call_attr(c)}-hook:path{i}"
                if has_fact(path_facts(p, j), "IS", ("None", f"{orig}.payload"), True):
                    run.ok("R10.3", inst)
                else:
                    run.fail(
                        "R10.3",
                        inst,
                        f"Processor hook `{src(c)[:60]}` is reachable without `{orig}.payload is None` having been established",
                        fi=proc,
                        node=c,
                        details=describe(p),
                    )
    if hooks == 0:
        raise AnalysisError("Processor._process_recursive calls neither self.transfer nor self.materialize")
    mat_paths = [p for p in paths if case_index(p, "Materialization", orig) >= 0 and p.outcome == "return"]
    if not mat_paths:
        raise AnalysisError("Processor._process_recursive has no `case Materialization` arm on its relation parameter")
    for i, p in enumerate(mat_paths):
        idx = case_index(p, "Materialization", orig)
        inst = f"process:Materialization:path{i}:attach-original"
        n = [c for _, c in calls_named(p, "attach_payload", idx) if isinstance(c.func, ast.Attribute) and src(c.func.value) == orig]
        if len(n) == 1:
            run.ok("R10.3", inst)
        else:
            run.fail(
                "R10.3",
                inst,
                f"a returning path through the Materialization arm attaches a payload to `{orig}` {len(n)} time(s); "
                "exactly one is needed so the original tree is evaluated once and never re-attached",
                fi=proc,
                node=p.node,
                details=describe(p),
            )
    # the early return hands back the original and "persisted"
    early = [p for p in paths if p.outcome == "return" and has_fact(path_facts(p), "IS", ("None", f"{orig}.payload"), False) and not any(s.kind == "case" for s in p.steps)]
    if not early:
        run.fail("R10.3", "process:cache-return", f"no early return on `{orig}.payload is not None` before the dispatch", fi=proc)
    for i, p in enumerate(early):
        v = p.value
        ok = isinstance(v, ast.Tuple) and len(v.elts) == 2 and src(v.elts[0]) == orig
        if ok:
            run.ok("R10.3", f"process:cache-return:path{i}")
        else:
            run.fail("R10.3", f"process:cache-return:path{i}", "the early return for an already-evaluated node does not return that node", fi=proc, node=p.node)


def r10_4_who_may_attach(ctx: Ctx, rule: str = "R10.4") -> None:
    """attach_payload is called only where a materialization has just been evaluated."""
    run, m = ctx.run, ctx.m
    run.rule(
        rule,
        "attach_payload is called only in the Materialization arms of iteration Engine.execute and "
        "Processor._process_recursive (compilation, diagnostics and tree building never attach payloads)",
        expected_min=3,
    )
    allowed = {(IT_ENGINE, "Engine.execute"), (PROCESSOR, "Processor._process_recursive")}
    for fi in m.all_functions():
        calls = [c for c in iter_calls(fi.node) if call_attr(c) == "attach_payload"]
        if not calls:
            continue
        for c in calls:
            recv = src(c.func.value) if isinstance(c.func, ast.Attribute) else "?"
            inst = f"{fi.module.rel}:{fi.qualname}:{recv}.attach_payload"
            if (fi.module.rel, fi.qualname) not in allowed:
                run.fail(
                    rule,
                    inst,
                    f"`{src(c)[:70]}` attaches a payload in {fi.qualname}: outside execution/processing of a materialization nothing may "
                    "change a relation, and a payload cached on a shared node is reused wherever that node appears",
                    fi=fi,
                    node=c,
                )
                continue
            # inside the sanctioned functions: only within the Materialization arm
            in_arm = False
            for n in ast.walk(fi.node):
                if isinstance(n, ast.Match):
                    for case in n.cases:
                        if "Materialization" in src(case.pattern) and any(x is c for b in case.body for x in ast.walk(b)):
                            in_arm = True
            if in_arm:
                run.ok(rule, inst)
            else:
                run.fail(rule, inst, f"`{src(c)[:70]}` is outside the Materialization arm of {fi.qualname}", fi=fi, node=c)
