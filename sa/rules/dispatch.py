"""R08.1 / R01.1 / R12.1: every dispatcher is total over the closed class set it ranges over."""

from __future__ import annotations

import ast

from ..astutil import AnalysisError, pattern_class_names, pattern_is_wildcard, src
from ..model import ClassInfo, FunctionInfo
from ..props.common import (
    DIAGNOSTICS,
    IT_ENGINE,
    PROCESSOR,
    SQL_ENGINE,
    Ctx,
)


def _matches_on(fi: FunctionInfo, subject: str) -> list[ast.Match]:
    return [n for n in ast.walk(fi.node) if isinstance(n, ast.Match) and src(n.subject) == subject]


def inner_subject(fi: FunctionInfo, outer_subject: str, field: str, cls_hint: str | None = None) -> str:
    """Name under which an outer `match <outer_subject>` arm captures ``field`` (e.g. the operation of a node)."""
    from ..astutil import pattern_captures

    for mt in _matches_on(fi, outer_subject):
        for case in mt.cases:
            if cls_hint and cls_hint not in src(case.pattern):
                continue
            for name, access in pattern_captures(case.pattern).items():
                if access == (field,):
                    return name
    return f"{outer_subject}.{field}"


def _arm_certainly_matches(ctx: Ctx, fi: FunctionInfo, case: ast.match_case, c: ClassInfo, nested_ok: bool = True) -> bool:
    """Does the arm's *class test* accept objects of exact class c (ignoring nested sub-patterns)?"""
    if pattern_is_wildcard(case.pattern) or case.guard is not None:
        return False

    def rec(p: ast.pattern) -> bool:
        if isinstance(p, ast.MatchAs) and p.pattern is not None:
            return rec(p.pattern)
        if isinstance(p, ast.MatchOr):
            return any(rec(x) for x in p.patterns)
        if isinstance(p, ast.MatchClass):
            from ..astutil import dotted

            t = ctx.m.resolve_class(fi.module, dotted(p.cls) or "")
            return t is not None and ctx.m.is_subclass(c, t)
        return False

    return rec(case.pattern)


def _operand_narrowing(ctx: Ctx, fi: FunctionInfo, case: ast.match_case, c: ClassInfo) -> tuple[str, str] | None:
    """(field, class) when the arm that takes class ``c`` accepts only nodes whose operand field is of a narrower class."""
    from ..astutil import dotted

    def class_pats(p: ast.pattern):
        if isinstance(p, ast.MatchAs) and p.pattern is not None:
            yield from class_pats(p.pattern)
        elif isinstance(p, ast.MatchOr):
            for x in p.patterns:
                yield from class_pats(x)
        elif isinstance(p, ast.MatchClass):
            yield p

    for top in class_pats(case.pattern):
        t = ctx.m.resolve_class(fi.module, dotted(top.cls) or "")
        if t is None or not ctx.m.is_subclass(c, t):
            continue
        for attr, sub in zip(top.kwd_attrs, top.kwd_patterns):
            if attr not in ("target", "lhs", "rhs"):
                continue
            inner = list(class_pats(sub))
            if not inner:
                continue  # a capture or wildcard
            accepted = [ctx.m.resolve_class(fi.module, dotted(q.cls) or "") for q in inner]
            if any(a is not None and a.name in ("Relation", "BaseRelation") for a in accepted) or any(src(q.cls).split(".")[-1] in ("Relation", "BaseRelation") for q in inner):
                continue  # `Relation() as x`: every operand is one
            return attr, " | ".join(src(q.cls) for q in inner)
    return None


def _arm_is_refusal_only(case: ast.match_case) -> bool:
    return all(isinstance(s, ast.Raise) for s in case.body)


def check_dispatch(
    ctx: Ctx,
    rule: str,
    fi: FunctionInfo,
    subject: str,
    classes: list[ClassInfo],
    *,
    covered_before: dict[str, str] | None = None,
    documented_refusals: dict[str, str] | None = None,
    label: str | None = None,
) -> None:
    """Each class must be accepted by a class-testing arm of some ``match <subject>`` in ``fi``.

    A wildcard arm (or one that only raises, unless listed in ``documented_refusals``) does not
    count as handling a built-in class.
    """
    run = ctx.run
    covered_before = covered_before or {}
    documented_refusals = documented_refusals or {}
    matches = _matches_on(fi, subject)
    if not matches:
        raise AnalysisError(f"{fi.key}: no `match {subject}` dispatcher found (rewritten in a form the rule does not recognise)")
    label = label or f"{fi.module.rel}:{fi.qualname}"
    for c in classes:
        inst = f"{label}[{subject}]:{c.name}"
        if c.name in covered_before:
            run.ok(rule, inst, {"covered": covered_before[c.name]})
            continue
        arm = None
        for mt in matches:
            for case in mt.cases:
                if _arm_certainly_matches(ctx, fi, case, c):
                    arm = case
                    break
            if arm is not None:
                break
        if arm is None:
            run.fail(
                rule,
                inst,
                f"{fi.qualname} has no arm for {c.name} in `match {subject}`: a tree the factories accept would reach the "
                "fall-through error at compile/execute time",
                fi=fi,
                node=matches[0],
            )
        elif (nar := _operand_narrowing(ctx, fi, arm, c)) is not None:
            run.fail(
                rule,
                inst,
                f"the arm for {c.name} in {fi.qualname} accepts only nodes whose `{nar[0]}` is a {nar[1]}: every other {c.name} skips it and is "
                "handled as whatever later arm (a superclass arm or the fall-through error) happens to accept it",
                fi=fi,
                node=arm.pattern,
            )
        elif _arm_is_refusal_only(arm) and c.name not in documented_refusals:
            run.fail(rule, inst, f"the arm for {c.name} in {fi.qualname} only raises; that refusal is not a documented one", fi=fi, node=arm.pattern)
        else:
            run.ok(rule, inst, {"arm": src(arm.pattern), "refusal": documented_refusals.get(c.name)})


def r08_1_totality(ctx: Ctx, rule: str = "R08.1", scope: str = "all") -> None:
    run, m, k = ctx.run, ctx.m, ctx.k
    run.rule(
        rule,
        "dispatch totality: every `match` dispatcher has a class-testing arm for each member of the closed class set it "
        "ranges over (wildcards and undocumented raise-only arms do not count)",
        expected_min=20 if scope != "all" else 70,
    )
    if scope == "convert":
        exprs, preds, conts = k.concrete(k.column_exprs), k.concrete(k.predicates), k.concrete(k.containers)
        for relm, table in (
            (IT_ENGINE, (("Engine.convert_column_expression", exprs), ("Engine.convert_column_container", conts), ("Engine.convert_predicate", preds))),
            (SQL_ENGINE, (("Engine.convert_column_expression", exprs), ("Engine.convert_predicate", preds))),
        ):
            for fn, classes in table:
                f = m.func(relm, fn)
                check_dispatch(ctx, rule, f, [p for p in f.params if p != "self"][0], classes)
        f = m.func(SQL_ENGINE, "Engine.convert_predicate")
        check_dispatch(ctx, rule, f, inner_subject(f, [p for p in f.params if p != "self"][0], "container", "ColumnInContainer"), conts, label="sql/_engine.py:Engine.convert_predicate")
        return
    _ = (
    )
    concrete_rel = [c for c in k.relation_kinds if not m.is_abstract(c)]
    unary_all = k.concrete(k.unary_ops)
    binary_all = k.concrete(k.binary_ops)
    exprs, preds, conts = k.concrete(k.column_exprs), k.concrete(k.predicates), k.concrete(k.containers)

    def rel(names: set[str]) -> list[ClassInfo]:
        return [c for c in concrete_rel if c.name in names]

    if scope in ("all", "sql"):
        f = m.func(SQL_ENGINE, "Engine._append_unary_to_select")
        check_dispatch(ctx, rule, f, [p for p in f.params if p != "self"][0], unary_all)
        f = m.func(SQL_ENGINE, "Engine._append_binary_to_select")
        check_dispatch(ctx, rule, f, [p for p in f.params if p != "self"][0], binary_all)
        f = m.func(SQL_ENGINE, "Engine.conform")
        check_dispatch(ctx, rule, f, [p for p in f.params if p != "self"][0], concrete_rel)
        f = m.func(SQL_ENGINE, "Engine.to_payload")
        r = [p for p in f.params if p != "self"][0]
        check_dispatch(
            ctx, rule, f, r,
            rel({"UnaryOperationRelation", "BinaryOperationRelation", "Select", "Materialization", "Transfer", "LeafRelation"}),
            covered_before={"LeafRelation": "payload is not None early return (leaves always carry a payload)"},
            documented_refusals={
                "Materialization": "EngineError: Processor required (documented in sql.rst)",
                "Transfer": "EngineError: Processor required (documented in sql.rst)",
            },
        )
        # inner operations to_payload must understand = those the placement table puts *inside* the skip target
        from .sqlplace import placements

        inner_classes = sorted({c.name for _f, c, _s, outs, _r in placements(ctx) for o in outs if o.kind == "INNER"})
        inner_match = [n for n in ast.walk(f.node) if isinstance(n, ast.Match) and src(n.subject) == inner_subject(f, r, "operation", "UnaryOperationRelation")]
        handled = {nm.split(".")[-1] for mt in inner_match for case in mt.cases for nm in pattern_class_names(case.pattern)}
        for nm in inner_classes:
            inst = f"sql/_engine.py:Engine.to_payload[operation]:{nm}"
            if nm in handled:
                run.ok(rule, inst, {"why": "placed inside the skip target by _append_unary_to_select"})
            else:
                run.fail(rule, inst, f"_append_unary_to_select can place a {nm} inside a Select's skip target but to_payload has no arm for it", fi=f)
        # binary nodes below a skip target: only Join (Chain is kept out by the compound guard R08.2)
        bin_arm = [case for mt in _matches_on(f, r) for case in mt.cases if "BinaryOperationRelation" in src(case.pattern)]
        if bin_arm and "Join" in src(bin_arm[0].pattern):
            run.ok(rule, "sql/_engine.py:Engine.to_payload:Join")
        else:
            run.fail(rule, "sql/_engine.py:Engine.to_payload:Join", "to_payload has no arm for a Join node", fi=f)
        for fn, classes in (("Engine.convert_column_expression", exprs), ("Engine.convert_predicate", preds)):
            f = m.func(SQL_ENGINE, fn)
            check_dispatch(ctx, rule, f, [p for p in f.params if p != "self"][0], classes)
        f = m.func(SQL_ENGINE, "Engine.convert_predicate")
        check_dispatch(ctx, rule, f, inner_subject(f, [p for p in f.params if p != "self"][0], "container", "ColumnInContainer"), conts, label="sql/_engine.py:Engine.convert_predicate")
    if scope in ("all", "iteration"):
        f = m.func(IT_ENGINE, "Engine.execute")
        r = [p for p in f.params if p != "self"][0]
        check_dispatch(
            ctx, rule, f, r, concrete_rel,
            covered_before={"LeafRelation": "payload is not None early return (leaves always carry a payload)"},
        )
        check_dispatch(ctx, rule, f, inner_subject(f, r, "operation", "UnaryOperationRelation"), k.node_unary_ops, label="iteration/_engine.py:Engine.execute(unary)")
        check_dispatch(
            ctx, rule, f, inner_subject(f, r, "operation", "BinaryOperationRelation"), k.node_binary_ops, label="iteration/_engine.py:Engine.execute(binary)",
            documented_refusals={"Join": "EngineError: joins are not supported by the iteration engine (iteration.rst)"},
        )
        for fn, classes in (
            ("Engine.convert_column_expression", exprs),
            ("Engine.convert_column_container", conts),
            ("Engine.convert_predicate", preds),
        ):
            f = m.func(IT_ENGINE, fn)
            check_dispatch(ctx, rule, f, [p for p in f.params if p != "self"][0], classes)
        f = m.func(IT_ENGINE, "Engine.backtrack_unary")
        check_dispatch(ctx, rule, f, [p for p in f.params if p != "self"][1], rel({"UnaryOperationRelation", "BinaryOperationRelation", "Transfer"}))
    if scope in ("all", "generic"):
        f = m.func(PROCESSOR, "Processor._process_recursive")
        check_dispatch(
            ctx, rule, f, [p for p in f.params if p != "self"][0], concrete_rel,
            covered_before={"LeafRelation": "payload is not None early return (leaves always carry a payload)"},
        )
        f = m.func(DIAGNOSTICS, "Diagnostics.run")
        check_dispatch(ctx, rule, f, [p for p in f.params if p != "cls"][0], concrete_rel)


def r_execute_direct_operands(ctx: Ctx, rule: str) -> None:
    """execute() is a structural recursion: each arm evaluates the node's own operands, one level down."""
    import ast as _ast

    from ..astutil import call_attr
    from ..flow import field_access, path_calls
    from ..props.common import IT_ENGINE, describe

    run, m = ctx.run, ctx.m
    run.rule(
        rule,
        "every recursive execute() call inside the iteration engine's execute() is given a direct operand of the node "
        "being executed (`<relation>.target`, `.lhs`, `.rhs`), never a node further down and never a name that a loop "
        "re-binds on its way down: a node that is stepped over (an unevaluated Materialization under a marker, say) never "
        "gets its payload, and its subtree is evaluated again by every later execution",
        expected_min=5,
    )
    ex = m.func(IT_ENGINE, "Engine.execute")
    rel = [p for p in ex.params if p != "self"][0]
    n = 0
    reported: set[str] = set()
    for i, p in enumerate(ctx.paths(ex)):
        for j, c in path_calls(p):
            if call_attr(c) != "execute" or not c.args:
                continue
            n += 1
            fa = field_access(p, c.args[0], j)
            inst = f"execute:{src(c)[:40]}:path{i}"
            if fa is not None and fa[0] == rel and len(fa[1]) == 1 and fa[1][0] in ("target", "lhs", "rhs"):
                run.ok(rule, inst)
            else:
                key = src(c)
                if key in reported:
                    continue
                reported.add(key)
                what = f"`{rel}.{'.'.join(fa[1])}`" if fa is not None and fa[0] == rel else f"`{src(c.args[0])[:40]}`, which is not an operand of `{rel}`"
                run.fail(
                    rule,
                    inst,
                    f"`{src(c)[:60]}` evaluates {what}: the nodes in between are stepped over - a Materialization among them is never given its payload (so it is computed again on "
                    "every execution), and a marker's own arm (Transfer, Select-like extension markers) never runs",
                    fi=ex,
                    node=c,
                    details=describe(p),
                )
    # a loop that walks down before executing
    for loop in [x for x in _ast.walk(ex.node) if isinstance(x, (_ast.While, _ast.For))]:
        for a in _ast.walk(loop):
            if isinstance(a, _ast.Assign) and len(a.targets) == 1 and isinstance(a.targets[0], _ast.Name) and isinstance(a.value, _ast.Attribute) and a.value.attr in ("target", "lhs", "rhs"):
                root = a.value.value
                if isinstance(root, _ast.Name) and root.id == a.targets[0].id:
                    n += 1
                    run.fail(rule, f"execute:loop:{a.targets[0].id}", f"execute() walks down the tree in a loop (`{src(a)}`) instead of recursing node by node: the nodes passed on the way are never dispatched", fi=ex, node=a)
    if n == 0:
        raise AnalysisError("execute() no longer calls itself")


def r_only_deduplication_merges_rows(ctx: Ctx, rule: str) -> None:
    """Relations are bags: the one operation that may turn two equal rows into one is Deduplication."""
    import ast as _ast

    from ..astutil import call_attr
    from ..flow import path_calls
    from ..props.common import IT_ENGINE, describe

    run, m = ctx.run, ctx.m
    run.rule(
        rule,
        "in the iteration engine's execute() rows pass through a keyed container (to_mapping, a dict or set built from "
        "rows) only in the Deduplication arm: any other arm (a projection of already-keyed rows, say) that re-keys its "
        "rows merges the ones that agree on the key, and a count-preserving operation loses rows",
        expected_min=5,
    )
    ex = m.func(IT_ENGINE, "Engine.execute")
    n = 0
    reported: set[str] = set()
    for i, p in enumerate(ctx.paths(ex)):
        arms = [src(s.node.pattern).split("(")[0] for s in p.steps if s.kind == "case" and s.value]  # type: ignore[union-attr]
        n += 1
        merging = [c for _j, c in path_calls(p) if call_attr(c) in ("to_mapping", "fromkeys") or (isinstance(c.func, _ast.Name) and c.func.id in ("set", "frozenset", "dict") and c.args)]
        merging += [x for s in p.steps if s.kind in ("stmt", "cond") for x in _ast.walk(s.node) if isinstance(x, (_ast.DictComp, _ast.SetComp))]
        inst = f"execute:path{i}:{'/'.join(arms) or 'top'}"
        if merging and "Deduplication" not in arms:
            key = src(merging[0])
            if key in reported:
                continue
            reported.add(key)
            run.fail(
                rule,
                inst,
                f"the {'/'.join(arms) or 'top-level'} path of execute() puts rows through `{src(merging[0])[:60]}`: rows that agree on the key are merged, so an operation that must keep every row "
                "(projection, calculation, selection, chain, slice) returns fewer rows than its target has",
                fi=ex,
                node=merging[0],
                details=describe(p),
            )
        else:
            run.ok(rule, inst)
    if n == 0:
        raise AnalysisError("execute() has no paths")


def r_to_mapping_shortcut(ctx: Ctx, rule: str) -> None:
    """Rows unique on (a, b) are not unique on (a): a mapping is its own answer only for exactly its own key."""
    import ast as _ast

    from ..facts import path_facts
    from ..props.common import IT_ROWS, describe

    run, m = ctx.run, ctx.m
    run.rule(
        rule,
        "RowMapping.to_mapping returns the mapping itself only when the requested key *equals* its own key; for any other "
        "key (a subset, a permutation) the rows are re-keyed: rows that are distinct under the mapping's key can coincide "
        "under a smaller one, and a Deduplication executed on such a payload must merge them",
        expected_min=1,
    )
    c = m.module(IT_ROWS).classes.get("RowMapping")
    f = c.methods.get("to_mapping") if c is not None else None
    if f is None:
        raise AnalysisError("RowMapping.to_mapping is missing")
    kp = [q for q in f.params if q != "self"][0]
    n = 0
    for i, p in enumerate(ctx.paths(f)):
        if p.outcome != "return":
            continue
        n += 1
        inst = f"RowMapping.to_mapping:path{i}"
        if src(p.value) != "self":
            run.ok(rule, inst)
            continue
        facts = path_facts(p)
        eq = any(fc.kind == "EQ" and fc.polarity and set(fc.args) in ({kp, "self.unique_key"}, {f"tuple({kp})", "self.unique_key"}, {f"tuple({kp})", "tuple(self.unique_key)"}) for fc in facts)
        if eq:
            run.ok(rule, inst)
        else:
            run.fail(rule, inst, f"the mapping is returned as it is on a path that has not established `{kp} == self.unique_key`: for a smaller or different key its rows are not unique, and they are handed on as if they were", fi=f, node=p.node, details=describe(p))
    if n == 0:
        raise AnalysisError("RowMapping.to_mapping never returns")
