"""Truthiness tests on optional values whose falsy non-None values are meaningful.

``max_rows`` (0 = empty vs None = unbounded), ``stop`` / ``limit`` (0 vs None) and ``payload`` (an empty row
container is falsy but is a payload) must be tested with ``is None`` / ``== 0``, never by truth value.
The set of attributes is computed from the package: every dataclass field or property annotated exactly
``int | None``, plus ``payload`` (typed Any, documented "None when absent").
"""

from __future__ import annotations

import ast

from ..astutil import AnalysisError, pattern_captures, src
from ..model import FunctionInfo
from ..props.common import Ctx


def optional_attributes(ctx: Ctx) -> set[str]:
    out = {"payload"}
    for c in ctx.m.all_classes():
        for f in c.own_fields:
            if f.annotation is not None and src(f.annotation).replace(" ", "") in ("int|None", "None|int", "Optional[int]"):
                out.add(f.name)
        for name, fn in c.methods.items():
            if fn.is_property and fn.node.returns is not None and src(fn.node.returns).replace(" ", "") in ("int|None", "None|int", "Optional[int]"):
                out.add(name)
    return out


def _truth_contexts(fn: ast.AST):
    """Yield expressions evaluated for their truth value."""
    for n in ast.walk(fn):
        if isinstance(n, (ast.If, ast.While, ast.IfExp)):
            yield n.test
        elif isinstance(n, ast.Assert):
            yield n.test
        elif isinstance(n, ast.BoolOp):
            # operands of and/or are truth-tested (all but the last decide short-circuiting; the last is the value,
            # which is itself truth-tested when the BoolOp is)
            for v in n.values:
                yield v
        elif isinstance(n, ast.UnaryOp) and isinstance(n.op, ast.Not):
            yield n.operand
        elif isinstance(n, ast.comprehension):
            for c in n.ifs:
                yield c
        elif isinstance(n, ast.match_case) and n.guard is not None:
            yield n.guard
        elif isinstance(n, ast.Call) and isinstance(n.func, ast.Name) and n.func.id == "bool" and len(n.args) == 1:
            yield n.args[0]


def r_optional_truthiness(ctx: Ctx, rule: str, attrs_filter: set[str] | None = None, modules: tuple[str, ...] | None = None) -> None:
    run, m = ctx.run, ctx.m
    opt = optional_attributes(ctx)
    if attrs_filter:
        opt &= attrs_filter
    if not opt:
        raise AnalysisError("no optional int attributes found in the package model")
    run.rule(
        rule,
        f"optional values with meaningful falsy values ({', '.join(sorted(opt))}) are tested with `is None` / `== 0`, never by "
        "truth value (0 rows vs unbounded, LIMIT 0 vs no limit, an empty cached payload vs none)",
        expected_min=5,
    )
    for fi in m.all_functions():
        if fi.module.rel == "tests.py":
            continue
        if modules and not any(fi.module.rel.startswith(x) for x in modules):
            continue
        # local names that stand for such an attribute: pattern captures, walrus/assignments from the attribute
        aliases: dict[str, str] = {}
        for n in ast.walk(fi.node):
            if isinstance(n, ast.match_case):
                for name, access in pattern_captures(n.pattern).items():
                    if access and access[-1] in opt:
                        aliases[name] = access[-1]
            elif isinstance(n, ast.NamedExpr) and isinstance(n.target, ast.Name) and isinstance(n.value, ast.Attribute) and n.value.attr in opt:
                aliases[n.target.id] = n.value.attr
            elif isinstance(n, ast.Assign) and len(n.targets) == 1 and isinstance(n.targets[0], ast.Name) and isinstance(n.value, ast.Attribute) and n.value.attr in opt:
                aliases[n.targets[0].id] = n.value.attr
        seen = set()
        n_tests = 0
        for e in _truth_contexts(fi.node):
            inner = e
            while isinstance(inner, ast.NamedExpr):
                inner = inner.value
            attr = None
            if isinstance(inner, ast.Attribute) and inner.attr in opt:
                attr = inner.attr
            elif isinstance(inner, ast.Name) and inner.id in aliases and isinstance(e, (ast.Name, ast.NamedExpr)) :
                attr = aliases[inner.id]
            elif isinstance(e, ast.Name) and e.id in aliases:
                attr = aliases[e.id]
            if attr is None:
                continue
            key = (id(e))
            if key in seen:
                continue
            seen.add(key)
            n_tests += 1
            run.fail(
                rule,
                f"{fi.module.rel}:{fi.qualname}:truth({src(e)[:40]})",
                f"`{src(e)[:60]}` is tested for truth in {fi.qualname}, but `{attr}` is optional with a meaningful falsy value: "
                + {"max_rows": "0 (no rows) and None (unbounded) are conflated", "payload": "an empty cached payload is treated as no payload", "limit": "LIMIT 0 and no limit are conflated", "stop": "stop == 0 and no stop are conflated"}.get(attr, "None and 0 are conflated"),
                fi=fi,
                node=e,
            )
    # positive instances: the explicit tests that exist today
    count = 0
    for fi in m.all_functions():
        if modules and not any(fi.module.rel.startswith(x) for x in modules):
            continue
        for n in ast.walk(fi.node):
            if isinstance(n, ast.Compare) and len(n.ops) == 1:
                sides = [n.left, n.comparators[0]]
                for s_ in sides:
                    t = s_
                    while isinstance(t, ast.NamedExpr):
                        t = t.value
                    if isinstance(t, ast.Attribute) and t.attr in opt:
                        count += 1
                        run.ok(rule, f"{fi.module.rel}:{fi.qualname}:{src(n)[:50]}")
    if count == 0:
        raise AnalysisError("no explicit test of an optional attribute found")
