"""R04.*: commutation reports; R03.*: the preferred-engine (backtracking) protocol."""

from __future__ import annotations

import ast

from ..absval import AbsState, ClsVal, ConstVal, Evaluator, cls_val, feasible
from ..astutil import AnalysisError, arg_or_kw, call_attr, dotted, iter_calls, kw, src
from ..facts import Fact, facts_of, has_fact, path_facts
from ..flow import backward_slice, case_index, path_calls
from ..model import ClassInfo, FunctionInfo
from ..paths import Path, env_at, resolve_name
from ..props.common import ENGINE, IT_ENGINE, UNARY, Ctx, describe
from .guards import Required, check_required

# Reference may-commute matrix (DESIGN.md appendix B).  Rows: operation being inserted (new, runs last);
# columns: existing operation it would move above.  S = sound when the new operation's inputs exist upstream,
# P = only the part the existing operation does not need, X = never, W = sound if the existing projection is widened.
REFERENCE = {
    "Calculation": {"Calculation": "S", "Deduplication": "S", "Projection": "W", "Selection": "S", "Slice": "S", "Sort": "S"},
    "Deduplication": {"Calculation": "S", "Deduplication": "S", "Projection": "X", "Selection": "S", "Slice": "X", "Sort": "S"},
    "Projection": {"Calculation": "P", "Deduplication": "X", "Projection": "S", "Selection": "P", "Slice": "S", "Sort": "P"},
    "Selection": {"Calculation": "S", "Deduplication": "S", "Projection": "S", "Selection": "S", "Slice": "X", "Sort": "S"},
    "Slice": {"Calculation": "S", "Deduplication": "X", "Projection": "S", "Selection": "X", "Slice": "X", "Sort": "X"},
    "Sort": {"Calculation": "S", "Deduplication": "S", "Projection": "S", "Selection": "S", "Slice": "X", "Sort": "X"},
    "PartialJoin": {"Calculation": "S", "Deduplication": "X", "Projection": "W", "Selection": "S", "Slice": "X", "Sort": "S"},
    "Identity": {"Calculation": "S", "Deduplication": "S", "Projection": "S", "Selection": "S", "Slice": "S", "Sort": "S"},
}
REASONS = {
    ("Deduplication", "Projection"): "removing columns first merges rows that were distinct",
    ("Deduplication", "Slice"): "a positional window depends on the number of rows before it",
    ("Projection", "Deduplication"): "projecting first merges rows the deduplication kept apart (multiplicities change)",
    ("Selection", "Slice"): "filtering before a positional window changes which rows fall in the window",
    ("Slice", "Deduplication"): "a positional window depends on the number of rows before it",
    ("Slice", "Selection"): "a positional window depends on the number of rows before it",
    ("Slice", "Slice"): "windows compose, they do not commute",
    ("Slice", "Sort"): "a positional window depends on the order of the rows before it",
    ("Sort", "Slice"): "sorting before a positional window changes which rows fall in the window",
    ("Sort", "Sort"): "a stable sort breaks ties by incoming order, so the later sort must stay the outer one",
    ("PartialJoin", "Deduplication"): "the fixed operand may repeat keys (multiplicities change)",
    ("PartialJoin", "Slice"): "a positional window depends on the number of rows before it",
}


def column_effect(ctx: Ctx, c: ClassInfo) -> str:
    """'same' | 'grow' | 'shrink' read from the class's resolved applied_columns."""
    f = ctx.m.method(c, "applied_columns")
    if f is None:
        return "same"
    tgt = [p for p in f.params if p != "self"]
    rets = [p.value for p in ctx.paths(f) if p.outcome == "return"]
    if all(r is not None and src(r) == f"{tgt[0]}.columns" for r in rets):
        return "same"
    if all(r is not None and src(r) == "self.columns" for r in rets):
        return "shrink"
    if any(isinstance(n, ast.Call) and call_attr(n) in ("add", "union") for n in ast.walk(f.node)) or any(
        isinstance(n, ast.BinOp) and isinstance(n.op, ast.BitOr) for n in ast.walk(f.node)
    ):
        return "grow"
    return "unknown"


class Outcome:
    def __init__(self, first: str, second: str, done: bool | None, call: ast.Call, path: Path):
        self.first, self.second, self.done, self.call, self.path = first, second, done, call, path

    def __repr__(self) -> str:
        return f"(first={self.first}, second={self.second}, done={self.done})"


def _commutator_args(call: ast.Call) -> tuple[ast.expr | None, ast.expr | None, ast.expr | None]:
    return arg_or_kw(call, 0, "first"), arg_or_kw(call, 1, "second"), arg_or_kw(call, 2, "done")


def _pick_ifexp(ev: Evaluator, st: AbsState, e: ast.expr | None) -> ast.expr | None:
    while isinstance(e, ast.IfExp):
        t = ev.truth(e.test, st)
        if t is True:
            e = e.body
        elif t is False:
            e = e.orelse
        else:
            return e
    return e


def commute_outcomes(ctx: Ctx, new_cls: ClassInfo, existing: ClassInfo, flags: dict[str, bool] | None = None) -> tuple[FunctionInfo, list[Outcome]]:
    """Feasible outcomes of new_cls.commute() over an existing node of class ``existing``.  ``flags`` fixes the flag
    properties of a hypothetical extension class (a user-defined RowFilter / Reordering subclass)."""
    m = ctx.m
    f = m.method(new_cls, "commute")
    if f is None:
        raise AnalysisError(f"{new_cls.name} has no commute()")
    cur = [p for p in f.params if p != "self"][0]
    ev = ctx.ev(f)
    eff = column_effect(ctx, existing)
    overrides: dict[str, object] = {}
    # atoms comparing the existing node's columns with its target's columns follow from the column effect
    for n in ast.walk(f.node):
        if isinstance(n, (ast.Compare, ast.Call)):
            fs = facts_of(n, True)
            if len(fs) == 1 and fs[0].kind == "LE":
                a, b = fs[0].args
                val = None
                if (a, b) == (f"{cur}.target.columns", f"{cur}.columns"):
                    val = eff in ("same", "grow")
                elif (a, b) == (f"{cur}.columns", f"{cur}.target.columns"):
                    val = eff in ("same", "shrink")
                if val is not None and eff != "unknown":
                    overrides[src(n)] = ConstVal(val if fs[0].polarity else not val)
    for fl, val in (flags or {}).items():
        overrides[f"{cur}.operation.{fl}"] = ConstVal(val)
    st0 = AbsState({f"{cur}.operation": cls_val(existing), "self": cls_val(new_cls)}, overrides)
    outs: list[Outcome] = []
    for p in ctx.paths(f):
        ok, st = feasible(p, st0, ev)
        if not ok:
            continue
        if p.outcome != "return":
            continue
        v = p.value
        if isinstance(v, ast.Name):
            v = resolve_name(p, v.id)
        if not (isinstance(v, ast.Call) and (dotted(v.func) or "").split(".")[-1] == "UnaryCommutator"):
            raise AnalysisError(f"{f.key}: returns `{src(p.value)[:60]}`, not a UnaryCommutator construction")
        a_first, a_second, a_done = _commutator_args(v)
        # locals stand for what they are bound to on this path
        def _res(e):
            if isinstance(e, ast.Name) and e.id not in ("self",):
                b = resolve_name(p, e.id)
                if isinstance(b, ast.expr):
                    return b
            return e

        a_first, a_second = _res(a_first), _res(a_second)
        a_first = _pick_ifexp(ev, st, a_first)
        a_second = _pick_ifexp(ev, st, a_second)
        if a_first is None or (isinstance(a_first, ast.Constant) and a_first.value is None):
            first = "None"
        elif src(a_first) == "self":
            first = "self"
        else:
            first = "modified"
        if a_second is not None and src(a_second) == f"{cur}.operation":
            second = "unchanged"
        elif isinstance(a_second, ast.Call) and (dotted(a_second.func) or "").split(".")[-1] == "Identity":
            second = "Identity"
        else:
            second = "modified"
        if a_done is None:
            done: bool | None = True
        elif isinstance(a_done, ast.Constant):
            done = bool(a_done.value)
        else:
            done = None
        o = Outcome(first, second, done, v, p)
        o.first_expr, o.second_expr = a_first, a_second  # type: ignore[attr-defined]
        outs.append(o)
    return f, outs


def _collision_guarded(f: FunctionInfo, o: "Outcome") -> bool:
    """Has the path established `(current.target.columns - current.columns)` disjoint from `self.fixed.columns`?"""
    from ..setalg import Venn

    cur = [p for p in f.params if p != "self"][0]
    atoms = [f"{cur}.columns", "self.fixed.columns", f"{cur}.target.columns"]
    v = Venn(atoms)
    C, F, T = (v.atom(a) for a in atoms)
    need_empty = (T - C) & F
    env: dict[str, frozenset] = {}
    known_empty: frozenset = frozenset()
    for s in o.path.steps:
        if s.kind == "stmt" and isinstance(s.node, ast.Assign) and len(s.node.targets) == 1 and isinstance(s.node.targets[0], ast.Name):
            val = v.eval(s.node.value, env)
            if val is not None:
                env[s.node.targets[0].id] = val
        if s.kind != "cond":
            continue
        t, pol = s.node, s.value
        while isinstance(t, ast.UnaryOp) and isinstance(t.op, ast.Not):
            t, pol = t.operand, not pol
        inter = None
        if isinstance(t, ast.Call) and call_attr(t) == "isdisjoint" and len(t.args) == 1 and isinstance(t.func, ast.Attribute):
            x, y = v.eval(t.func.value, env), v.eval(t.args[0], env)
            if x is not None and y is not None and pol:
                inter = x & y
        elif isinstance(t, ast.BinOp) and isinstance(t.op, ast.BitAnd):
            x = v.eval(t, env)
            if x is not None and not pol:
                inter = x  # `if not (a & b)` / `if a & b: ... else` : the intersection is empty here
        if inter is not None:
            known_empty = known_empty | inter
    return need_empty <= known_empty


def _widened_exact(ctx: Ctx, f: FunctionInfo, o: "Outcome", sec: ast.Call) -> bool | None:
    """Is the column set of the restored projection exactly `current.columns | fixed.columns` (for every value of the
    sets, given that a projection's columns are a subset of its target's)?  None when the expression is not set algebra."""
    import copy

    from ..setalg import Venn

    cur = [p for p in f.params if p != "self"][0]
    arg = sec.args[0] if sec.args else kw(sec, "columns")
    if arg is None:
        return None
    atoms = [f"{cur}.columns", "self.fixed.columns", f"{cur}.target.columns"]
    v = Venn(atoms)
    C, F, T = (v.atom(a) for a in atoms)

    class Sub(ast.NodeTransformer):
        def visit_Call(self, node):
            self.generic_visit(node)
            if call_attr(node) == "applied_columns" and isinstance(node.func, ast.Attribute) and src(node.func.value) == "self" and len(node.args) == 1:
                which = {cur: atoms[0], f"{cur}.target": atoms[2]}.get(src(node.args[0]))
                if which is not None:
                    # PartialJoin.applied_columns(x) is x.columns | fixed.columns (R04.4 decides that)
                    return ast.BinOp(left=ast.parse(which, mode="eval").body, op=ast.BitOr(), right=ast.parse(atoms[1], mode="eval").body)
            return node

    e = Sub().visit(copy.deepcopy(arg))
    ast.fix_missing_locations(e)
    # locals of the path
    env: dict[str, frozenset] = {}
    for s in o.path.steps:
        if s.kind == "stmt" and isinstance(s.node, ast.Assign) and len(s.node.targets) == 1 and isinstance(s.node.targets[0], ast.Name):
            val = v.eval(Sub().visit(copy.deepcopy(s.node.value)), env)
            if val is not None:
                env[s.node.targets[0].id] = val
    got = v.eval(e, env)
    if got is None:
        return None
    valid = frozenset(r for r in v.full if not (r in C and r not in T))
    if _collision_guarded(f, o):
        valid = valid - ((T - C) & F)
    return (got & valid) == ((C | F) & valid)


def r04_1_matrix(ctx: Ctx) -> None:
    run, m, k = ctx.run, ctx.m, ctx.k
    run.rule(
        "R04.1",
        "may-commute matrix: for every (new operation class, existing operation class) the feasible outcomes of commute() "
        "never move the new operation upstream in a cell the reference marks X, widen the projection in W cells, and keep "
        "the existing operation's inputs in P cells",
        expected_min=48,
    )
    new_classes = [c for c in k.concrete(k.unary_ops)]
    for n in sorted(new_classes, key=lambda c: c.name):
        if n.name not in REFERENCE:
            raise AnalysisError(f"unary operation class {n.name} has no row in the reference commutation matrix")
        for x in sorted(k.node_unary_ops, key=lambda c: c.name):
            if x.name not in REFERENCE[n.name]:
                raise AnalysisError(f"unary operation class {x.name} has no column in the reference commutation matrix")
            cell = REFERENCE[n.name][x.name]
            f, outs = commute_outcomes(ctx, n, x)
            inst = f"{n.name}x{x.name}"
            if not outs:
                raise AnalysisError(f"{f.key}: no feasible outcome for an existing {x.name}")
            moved = [o for o in outs if o.first != "None"]
            problem = None
            bad: Outcome | None = None
            if cell == "X" and moved:
                bad = moved[0]
                problem = (
                    f"{n.name}.commute reports that it can move above an existing {x.name} "
                    f"{bad!r}, but {REASONS.get((n.name, x.name), 'the two do not commute')}"
                )
            elif cell == "W":
                for o in moved:
                    sec = getattr(o, "second_expr", None)
                    ok = o.second == "modified" and isinstance(sec, ast.Call) and (dotted(sec.func) or "").split(".")[-1] == "Projection"
                    if ok and n.name == "Calculation":
                        ok = "self.tag" in src(sec)
                    if ok and n.name == "PartialJoin":
                        ok = "applied_columns" in src(sec) or "fixed.columns" in src(sec)
                        exact = _widened_exact(ctx, f, o, sec)
                        if not _collision_guarded(f, o):
                            run.fail(
                                "R04.1",
                                f"{inst}:collision-guard",
                                "PartialJoin.commute moves the join above an existing Projection without having established that the columns the projection "
                                "drops are disjoint from the fixed operand's columns: upstream of the projection the target still has a column with the same tag as "
                                "one of the fixed operand, so the joined relation has two candidates for it and (depending on which side the fixed operand is) "
                                "the values of the dropped column are returned instead of the fixed operand's",
                                fi=f,
                                node=o.call,
                                details=describe(o.path),
                            )
                        else:
                            run.ok("R04.1", f"{inst}:collision-guard")
                        if ok and exact is False:
                            bad = o
                            problem = (
                                f"PartialJoin.commute moves above an existing Projection and restores `{src(sec)[:70]}`: that is not the projected columns plus "
                                "all columns of the fixed operand - a column the projection dropped but the fixed operand also has is lost from the join's result"
                            )
                            break
                    if not ok:
                        bad = o
                        problem = (
                            f"{n.name}.commute moves above an existing Projection but hands back `{src(sec)[:60]}` as the second "
                            "operation: the projection must be widened by the columns the moved operation adds, or they are lost"
                        )
                        break
            elif cell == "P":
                cur = [p for p in f.params if p != "self"][0]
                req = f"{cur}.operation.columns_required"
                for o in moved:
                    if o.second == "Identity":
                        # the existing operation is elided: only sound for a Calculation whose tag is dropped
                        facts = path_facts(o.path)
                        elided_ok = x.name == "Calculation" and any(
                            fct.kind == "IN" and not fct.polarity and fct.args[1] == "self.columns" for fct in facts
                        )
                        if not elided_ok:
                            bad = o
                            problem = f"Projection.commute drops the existing {x.name} altogether without having established that its result is unused"
                            break
                        continue
                    fe = getattr(o, "first_expr", None)
                    sl = backward_slice(o.path, [fe] if fe is not None else [])
                    keeps = any(ch[-1] == "columns_required" and ch[0] == cur for ch in sl.chains) or req in src(fe)
                    guarded = any(
                        fct.kind == "LE" and fct.polarity and fct.args[0] == req for fct in path_facts(o.path)
                    )
                    if not (keeps or guarded):
                        bad = o
                        problem = (
                            f"Projection.commute moves `{src(fe)[:50]}` above an existing {x.name} without keeping the columns that "
                            f"operation reads ({req}) and without having checked that they survive"
                        )
                        break
                    if o.done is not False and not guarded:
                        bad = o
                        problem = f"Projection.commute reports full success above {x.name} without checking that its inputs survive the projection"
                        break
            if problem:
                run.fail("R04.1", inst, problem, fi=f, node=bad.call if bad else f.node, details=describe(bad.path) if bad else [], facts={"cell": cell, "outcomes": [repr(o) for o in outs]})
            else:
                run.ok("R04.1", inst, {"cell": cell, "outcomes": [repr(o) for o in outs]})
    # ---- the documented extension points: a user-defined RowFilter / Reordering is known to commute() only through
    # its flags.  An operation that changes how many rows there are must not move above a count-dependent one, and one
    # that changes their order not above an order-dependent one, whatever the other flag says.
    rowfilter, reordering = m.find_class("RowFilter"), m.find_class("Reordering")
    changes_count = {"Selection", "Deduplication", "PartialJoin", "Slice"}
    changes_order = {"Sort"}
    variants = [(rowfilter, {"is_count_dependent": cd, "is_order_dependent": od, "is_count_invariant": False}) for cd in (False, True) for od in (False, True)]
    variants.append((reordering, {"is_count_dependent": False, "is_order_dependent": False, "is_count_invariant": True, "is_empty_invariant": True}))
    for n in sorted(new_classes, key=lambda c: c.name):
        if n.name == "Identity":
            continue
        for base, flags in variants:
            f, outs = commute_outcomes(ctx, n, base, flags)
            tagv = f"custom {base.name}[count_dependent={flags['is_count_dependent']}, order_dependent={flags['is_order_dependent']}]"
            inst = f"{n.name}x{base.name}:cd={int(flags['is_count_dependent'])}:od={int(flags['is_order_dependent'])}"
            if not outs:
                raise AnalysisError(f"{f.key}: no feasible outcome for a {tagv}")
            moved = [o for o in outs if o.first != "None"]
            problem = None
            if moved and n.name in changes_count and flags["is_count_dependent"]:
                problem = f"{n.name}.commute moves above a {tagv} {moved[0]!r}: {n.name} changes the number of rows the existing operation sees, and that operation depends on it"
            elif moved and n.name in changes_order and flags["is_order_dependent"]:
                problem = f"{n.name}.commute moves above a {tagv} {moved[0]!r}: {n.name} changes the order of the rows the existing operation sees, and that operation depends on it"
            elif moved and n.name == "Slice":
                problem = f"Slice.commute moves above a {tagv} {moved[0]!r}: a positional window depends on the rows before it"
            elif moved and n.name == "Sort" and base is reordering:
                problem = f"Sort.commute moves above a custom Reordering {moved[0]!r}: a stable sort breaks ties by incoming order, so the later reordering must stay the outer one"
            if problem:
                run.fail("R04.1", inst, problem, fi=f, node=moved[0].call, details=describe(moved[0].path), facts={"outcomes": [repr(o) for o in outs]})
            else:
                run.ok("R04.1", inst, {"outcomes": [repr(o) for o in outs]})


def r04_2_failure_hands_back(ctx: Ctx) -> None:
    run, m = ctx.run, ctx.m
    run.rule(
        "R04.2",
        "every UnaryCommutator built with first=None hands back the existing operation unchanged with done=False; every one "
        "built with done omitted/True has a first operation",
        expected_min=20,
    )
    for fi in m.all_functions():
        cur = None
        if fi.name == "commute":
            ps = [p for p in fi.params if p != "self"]
            cur = ps[0] if ps else None
        for call in iter_calls(fi.node):
            if (dotted(call.func) or "").split(".")[-1] != "UnaryCommutator":
                continue
            a_first, a_second, a_done = _commutator_args(call)
            inst = f"{fi.module.rel}:{fi.qualname}:{src(call)[:70]}"
            first_none = a_first is None or (isinstance(a_first, ast.Constant) and a_first.value is None)
            if first_none:
                if isinstance(a_second, ast.Name):
                    # a local that stands for the existing operation
                    binds = [n.value for n in ast.walk(fi.node) if isinstance(n, ast.Assign) and any(isinstance(t, ast.Name) and t.id == a_second.id for t in n.targets)]
                    if len(binds) == 1:
                        a_second = binds[0]
                ok_second = a_second is not None and cur is not None and src(a_second) == f"{cur}.operation"
                ok_done = isinstance(a_done, ast.Constant) and a_done.value is False
                if ok_second and ok_done:
                    run.ok("R04.2", inst)
                elif not ok_second:
                    run.fail("R04.2", inst, f"a failed commutation hands back `{src(a_second)}` instead of the existing operation unchanged", fi=fi, node=call)
                else:
                    run.fail("R04.2", inst, "a commutator with no first operation claims done (the new operation would be dropped)", fi=fi, node=call)
            else:
                run.ok("R04.2", inst)


def r04_3_moved_stay_wellformed(ctx: Ctx) -> None:
    run, m = ctx.run, ctx.m
    run.rule(
        "R04.3",
        "an operation reported movable is well-formed where it lands: each precondition its _begin_apply enforces on the "
        "target reappears in commute() as a guard on current.target that leads to 'cannot move'",
        expected_min=6,
    )

    def moved(f: FunctionInfo, exclude_arm: tuple[str, ...] = ()):
        cur = [p for p in f.params if p != "self"][0]

        def pred(p: Path) -> bool:
            if p.outcome != "return":
                return False
            v = p.value
            if isinstance(v, ast.Name):
                v = resolve_name(p, v.id)
            if not (isinstance(v, ast.Call) and (dotted(v.func) or "").split(".")[-1] == "UnaryCommutator"):
                return False
            a_first = _commutator_args(v)[0]
            if a_first is None or (isinstance(a_first, ast.Constant) and a_first.value is None):
                return False
            for arm in exclude_arm:
                if case_index(p, arm, f"{cur}.operation") >= 0:
                    return False
            return True

        return pred

    specs = [
        ("Calculation", [
            Required("inputs-exist-upstream", "LE", ("self.columns_required", "self.expression.columns_required"), ("{p0}.target.columns",), True,
                     reason="the calculation's inputs must exist in the relation it is moved onto"),
            Required("tag-is-new-upstream", "IN", ("self.tag",), ("{p0}.target.columns",), False,
                     reason="the upstream relation may still hold a column with this tag that the existing projection dropped; "
                            "moving the calculation there makes a valid request fail with ColumnError"),
        ], ()),
        ("Selection", [Required("inputs-exist-upstream", "LE", ("self.columns_required", "self.predicate.columns_required"), ("{p0}.target.columns",), True,
                                reason="the predicate's columns must exist upstream")], ()),
        ("Sort", [Required("inputs-exist-upstream", "LE", ("self.columns_required",), ("{p0}.target.columns",), True,
                           reason="the sort terms' columns must exist upstream")], ()),
        ("PartialJoin", [Required("inputs-exist-upstream", "LE", ("self.columns_required",), ("{p0}.target.columns",), True,
                                  reason="the join's required columns must exist upstream")], ("Projection",)),
    ]
    for name, reqs, excl in specs:
        c = ctx.op_class(name)
        f = c.methods.get("commute")
        if f is None:
            raise AnalysisError(f"{name}.commute is missing")
        check_required(ctx, "R04.3", f, reqs, moved(f, excl), "reported move")
    # Projection: when it keeps a calculated tag it must not carry that tag upstream
    proj = ctx.op_class("Projection").methods["commute"]
    cur = [p for p in proj.params if p != "self"][0]
    n = 0
    for i, p in enumerate(ctx.paths(proj)):
        idx = case_index(p, "Calculation", f"{cur}.operation")
        if idx < 0 or p.outcome != "return":
            continue
        v = p.value
        if not isinstance(v, ast.Call):
            continue
        a_first = _commutator_args(v)[0]
        if a_first is None or (isinstance(a_first, ast.Constant) and a_first.value is None):
            continue
        caps = [s for s in p.steps[idx : idx + 1]]
        tagname = None
        from ..astutil import pattern_captures

        for nm, access in pattern_captures(caps[0].node.pattern).items():  # type: ignore[union-attr]
            if access == ("tag",):
                tagname = nm
        if tagname is None and getattr(caps[0], "subject", None) is not None:
            tagname = f"{src(caps[0].subject)}.tag"  # read as an attribute instead of captured by the pattern
        facts = path_facts(p)
        keeps_tag = tagname is not None and has_fact(facts, "IN", (tagname, "self.columns"), True)
        if not keeps_tag:
            continue
        n += 1
        inst = f"Projection.commute:Calculation-tag-kept:path{i}"
        from ..astutil import chains_read, names_read

        reduced_names = set()
        for s in p.steps:
            if s.kind != "stmt":
                continue
            if isinstance(s.node, ast.AugAssign) and isinstance(s.node.op, ast.Sub) and tagname in src(s.node.value) and isinstance(s.node.target, ast.Name):
                reduced_names.add(s.node.target.id)
            elif isinstance(s.node, ast.Assign) and isinstance(s.node.value, ast.BinOp) and isinstance(s.node.value.op, ast.Sub) and tagname in src(s.node.value.right):
                reduced_names.update(t.id for t in s.node.targets if isinstance(t, ast.Name))
        removed = bool(reduced_names) and bool(reduced_names & names_read(a_first))
        uses_self = src(a_first) == "self" or ("self", "columns") in chains_read(a_first)
        if removed and not uses_self:
            run.ok("R04.3", inst)
        else:
            run.fail("R04.3", inst, "Projection.commute moves a projection that still lists the calculated tag above the calculation that creates it", fi=proj, node=v, details=describe(p))
    if n == 0:
        raise AnalysisError("Projection.commute has no path for a Calculation whose tag the projection keeps")


# ------------------------------------------------------------------ R03


def r03_1_apply_protocol(ctx: Ctx) -> None:
    run, m = ctx.run, ctx.m
    run.rule(
        "R03.1",
        "UnaryOperation.apply option protocol on every path: append_unary is reached iff the operation was not inserted "
        "by backtracking; transfer=True hands the transferred relation to append_unary; require_preferred_engine raises "
        "EngineError without appending; backtrack=False never calls backtrack_unary",
        expected_min=6,
    )
    f = m.func(UNARY, "UnaryOperation.apply")
    tgt = [p for p in f.params if p != "self"][0]
    done_v = None
    for n in ast.walk(f.node):
        if isinstance(n, ast.Assign) and isinstance(n.value, ast.Call) and call_attr(n.value) == "backtrack_unary" and isinstance(n.targets[0], ast.Tuple) and len(n.targets[0].elts) >= 2:
            done_v = src(n.targets[0].elts[1])
    if done_v is None:
        raise AnalysisError("UnaryOperation.apply no longer unpacks (result, done, messages) from backtrack_unary")
    from ..facts import contradictory

    for i, p in enumerate(ctx.paths(f)):
        inst = f"apply:path{i}"
        facts = path_facts(p)
        if contradictory([fc for fc in facts if fc.kind == "OR" or all(a.isidentifier() for a in fc.args)]):
            continue  # e.g. `not done and transfer` taken and `not done` refused later, with `done` not re-bound in between
        other_engine = has_fact(facts, "EQ", tuple(sorted(("preferred_engine", f"{tgt}.engine"))), False)
        backtrack = has_fact(facts, "TRUTH", ("backtrack",), True)
        no_backtrack = has_fact(facts, "TRUTH", ("backtrack",), False)
        transfer = has_fact(facts, "TRUTH", ("transfer",), True)
        no_transfer = has_fact(facts, "TRUTH", ("transfer",), False)
        require = has_fact(facts, "TRUTH", ("require_preferred_engine",), True)
        calls = list(path_calls(p))
        appends = [(j, c) for j, c in calls if call_attr(c) == "append_unary"]
        backs = [(j, c) for j, c in calls if call_attr(c) == "backtrack_unary"]
        transfers = [(j, c) for j, c in calls if call_attr(c) in ("transferred_to", "transfer")]
        # `done` on this path: False unless bound from backtrack_unary
        env = env_at(p)
        done_b = env.get(done_v)
        done_known_false = isinstance(done_b, ast.Constant) and done_b.value is False
        # inserted by backtracking on this path?  Only backtrack_unary can say so: without a call nothing was inserted,
        # with one its `done` result decides (whatever locals the answer is copied into afterwards)
        not_done = has_fact(facts, "TRUTH", (done_v,), False) or not backs
        is_done = bool(backs) and has_fact(facts, "TRUTH", (done_v,), True)
        done_known_false = done_known_false or not backs
        problem = None
        # what is inserted - upstream or at the root - is the operation _begin_apply returned, not the caller's `self`
        for what, sites in (("backtrack_unary", backs), ("append_unary", appends)):
            for j, c in sites:
                a0 = c.args[0] if c.args else None
                b0 = env_at(p, j).get(a0.id) if isinstance(a0, ast.Name) else None
                while isinstance(b0, ast.Name):
                    b0 = env_at(p, j).get(b0.id)
                if not (isinstance(b0, tuple) and b0[0] == "unpack" and isinstance(b0[1], ast.Call) and call_attr(b0[1]) == "_begin_apply" and b0[2] == 0):
                    problem = problem or f"{what} is given `{src(a0) if a0 is not None else '?'}` instead of the operation returned by _begin_apply (a PartialJoin is resolved, a do-nothing operation replaced, only there)"
        if no_backtrack and backs:
            problem = problem or "backtrack_unary is called although backtrack is false"
        if other_engine and backtrack and not backs:
            problem = problem or "backtracking was requested for another engine but backtrack_unary is not called"
        if not other_engine and (backs or transfers):
            problem = problem or "backtracking/transfer happens although the target is already in the preferred engine"
        if p.outcome == "raise":
            if not (other_engine and (not_done or done_known_false) and no_transfer and require and p.raises("EngineError")):
                problem = problem or "apply() raises outside the documented case (other engine, not inserted, no transfer, engine required) or not EngineError"
            if appends:
                problem = problem or "an operation is appended on the path that refuses with EngineError"
        else:
            if is_done and appends:
                problem = problem or "the operation is appended although backtracking already inserted it (it would be applied twice)"
            if (not_done or done_known_false) and not is_done and not appends:
                problem = problem or "the operation is neither inserted by backtracking nor appended (it would be dropped)"
            if len(appends) > 1:
                problem = problem or "append_unary is called more than once"
            if other_engine and (not_done or done_known_false) and transfer:
                if not transfers:
                    problem = problem or "transfer=True but no transfer to the preferred engine is inserted"
                elif appends:
                    j, c = appends[0]
                    a = c.args[1] if len(c.args) > 1 else None
                    b = resolve_name(p, a.id, j) if isinstance(a, ast.Name) else a
                    okx = isinstance(b, ast.Call) and call_attr(b) in ("transferred_to", "transfer") and b.args and src(b.args[0]) == "preferred_engine"
                    if not okx:
                        problem = problem or "with transfer=True the relation handed to append_unary is not the one transferred to the preferred engine"
            if other_engine and (not_done or done_known_false) and no_transfer and require:
                problem = problem or "require_preferred_engine is set, the operation could not be placed in that engine, and no EngineError is raised"
            if other_engine and no_transfer and transfers:
                problem = problem or "a transfer is inserted although transfer is false"
            if appends:
                j, c = appends[0]
                recv = src(c.func.value) if isinstance(c.func, ast.Attribute) else ""
                a = src(c.args[1]) if len(c.args) > 1 else ""
                if recv != f"{a}.engine":
                    problem = problem or f"append_unary is called on `{recv}` for relation `{a}` (must be that relation's own engine)"
            rv = p.value
            rvb = resolve_name(p, rv.id) if isinstance(rv, ast.Name) else rv
            if appends and not (isinstance(rvb, ast.Call) and call_attr(rvb) == "append_unary"):
                problem = problem or "the appended relation is not what apply() returns"
            if is_done and not appends:
                b = resolve_name(p, rv.id) if isinstance(rv, ast.Name) else rv
                if not (isinstance(b, tuple) and b[0] == "unpack" and isinstance(b[1], ast.Call) and call_attr(b[1]) == "backtrack_unary" and b[2] == 0):
                    problem = problem or "after a successful backtracking insertion apply() does not return the tree backtrack_unary built"
        if problem:
            run.fail("R03.1", inst, problem, fi=f, node=p.node or f.node, details=describe(p))
        else:
            run.ok("R03.1", inst, {"path": p.describe()})
    # ---- the same protocol as a truth table: for every combination of (other engine, backtrack, inserted, transfer,
    # required) exactly one path is taken, and what it does is what the documentation says
    import itertools

    class _Unknown(Exception):
        pass

    def _ev(e: ast.expr, asg: dict, done_now) -> bool:
        if isinstance(e, ast.UnaryOp) and isinstance(e.op, ast.Not):
            return not _ev(e.operand, asg, done_now)
        if isinstance(e, ast.BoolOp):
            vals = [_ev(x, asg, done_now) for x in e.values]
            return all(vals) if isinstance(e.op, ast.And) else any(vals)
        if isinstance(e, ast.Name):
            if e.id in ("backtrack", "transfer", "require_preferred_engine"):
                return asg[e.id]
            if e.id == done_v:
                if done_now is None:
                    raise _Unknown()
                return done_now
        if isinstance(e, ast.Compare) and len(e.ops) == 1 and isinstance(e.ops[0], (ast.Eq, ast.NotEq)):
            if {src(e.left), src(e.comparators[0])} == {"preferred_engine", f"{tgt}.engine"}:
                return asg["other"] == isinstance(e.ops[0], ast.NotEq)
        raise _Unknown()

    all_paths = list(ctx.paths(f))
    decided = True
    for other, bt, ins, tr, rq in itertools.product((False, True), repeat=5):
        asg = {"other": other, "backtrack": bt, "transfer": tr, "require_preferred_engine": rq}
        taken = []
        try:
            for p in all_paths:
                done_now = None
                ok_p = True
                for s in p.steps:
                    if s.kind == "stmt" and isinstance(s.node, ast.Assign):
                        tg = s.node.targets[0]
                        if isinstance(tg, ast.Name) and tg.id == done_v and isinstance(s.node.value, ast.Constant):
                            done_now = bool(s.node.value.value)
                        elif isinstance(tg, ast.Tuple) and isinstance(s.node.value, ast.Call) and call_attr(s.node.value) == "backtrack_unary" and any(src(x) == done_v for x in tg.elts):
                            done_now = ins
                        elif isinstance(tg, ast.Name) and tg.id == done_v:
                            raise _Unknown()
                    if s.kind == "cond":
                        if _ev(s.node, asg, done_now) != s.value:
                            ok_p = False
                            break
                    elif s.kind != "stmt":
                        raise _Unknown()
                if ok_p:
                    taken.append(p)
        except _Unknown:
            decided = False
            break
        if len(taken) != 1:
            decided = False
            break
        p = taken[0]
        calls = list(path_calls(p))
        did_back = any(call_attr(c) == "backtrack_unary" for _, c in calls)
        did_transfer = any(call_attr(c) in ("transferred_to", "transfer") for _, c in calls)
        did_append = any(call_attr(c) == "append_unary" for _, c in calls)
        raised = p.outcome == "raise"
        want_back = other and bt
        inserted = ins if want_back else False
        want_transfer = other and not inserted and tr
        want_raise = other and not inserted and not tr and rq
        want_append = not want_raise and not inserted
        label = f"other-engine={other}, backtrack={bt}, inserted-by-backtracking={ins if want_back else 'n/a'}, transfer={tr}, require_preferred_engine={rq}"
        inst = f"apply:table:{int(other)}{int(bt)}{int(ins)}{int(tr)}{int(rq)}"
        got = (did_back, did_transfer, raised, did_append)
        want = (want_back, want_transfer, want_raise, want_append)
        if got == want:
            run.ok("R03.1", inst)
        else:
            names = ("backtrack_unary called", "transfer inserted", "EngineError raised", "append_unary called")
            diff = "; ".join(f"{nm}: {g} (documented: {w})" for nm, g, w in zip(names, got, want) if g != w)
            run.fail("R03.1", inst, f"apply() with {label}: {diff}", fi=f, node=p.node or f.node, details=describe(p))
    if not decided:
        run.note("UnaryOperation.apply's option protocol could not be evaluated as a truth table (a condition outside the five options); the per-path checks stand")


def r03_2_backtrack_contract(ctx: Ctx) -> None:
    run, m = ctx.run, ctx.m
    run.rule(
        "R03.2",
        "backtrack_unary contract: locked trees are handed back first; a failed commutation returns the unchanged tree; "
        "recursion is on (commutator.first, target), the node is rebuilt with commutator.second only when upstream changed, "
        "done is the conjunction; the Transfer arm applies with full validation in the preferred engine or delegates",
        expected_min=8,
    )
    f = m.func(IT_ENGINE, "Engine.backtrack_unary")
    ps = [p for p in f.params if p != "self"]
    op, tree, pref = ps[0], ps[1], ps[2]
    paths = ctx.paths(f)
    # first effect: the is_locked return
    locked = [p for p in paths if has_fact(path_facts(p), "TRUTH", (f"{tree}.is_locked",), True)]
    if not locked:
        run.fail("R03.2", "locked-first", "backtrack_unary no longer tests is_locked: a locked relation falls through to the dispatch (internal error instead of 'cannot insert')", fi=f)
    for i, p in enumerate(locked):
        v = p.value
        first_cond = next((s for s in p.steps if s.kind in ("cond", "case")), None)
        ok = p.outcome == "return" and isinstance(v, ast.Tuple) and len(v.elts) == 3 and src(v.elts[0]) == tree and isinstance(v.elts[1], ast.Constant) and v.elts[1].value is False
        ok = ok and first_cond is not None and f"{tree}.is_locked" in src(first_cond.node)
        if ok:
            run.ok("R03.2", f"locked-first:path{i}")
        else:
            run.fail("R03.2", f"locked-first:path{i}", "a locked tree is not handed back unchanged with done=False before anything else", fi=f, node=p.node or f.node, details=describe(p))
    for i, p in enumerate(paths):
        if p in locked:
            continue
        inst = f"path{i}"
        iu = case_index(p, "UnaryOperationRelation", tree)
        it = case_index(p, "Transfer", tree)
        ib = case_index(p, "BinaryOperationRelation", tree)
        v = p.value
        if iu >= 0:
            calls = list(path_calls(p, iu))
            com = [c for _, c in calls if call_attr(c) == "commute"]
            if not com or src(com[0].func.value) != op or [src(a) for a in com[0].args] != [tree]:  # type: ignore[union-attr]
                run.fail("R03.2", inst + ":commute", f"the commutator does not come from {op}.commute({tree})", fi=f, node=p.node or f.node)
                continue
            cname = None
            for s in p.steps:
                if s.kind == "stmt" and isinstance(s.node, ast.Assign) and s.node.value is com[0]:
                    cname = src(s.node.targets[0])
            facts = path_facts(p)
            if has_fact(facts, "IS", tuple(sorted(("None", f"{cname}.first"))), True):
                ok = p.outcome == "return" and isinstance(v, ast.Tuple) and src(v.elts[0]) == tree and src(v.elts[1]) == f"{cname}.done"
                if ok:
                    run.ok("R03.2", inst + ":cannot-move")
                else:
                    run.fail("R03.2", inst + ":cannot-move", "when the commutator has no first operation the tree must be returned unchanged with the commutator's own done flag", fi=f, node=p.node, details=describe(p))
                continue
            rec = [c for _, c in calls if call_attr(c) == "backtrack_unary"]
            problem = None
            from ..flow import denotes

            if not rec or len(rec[0].args) < 3 or src(rec[0].args[0]) != f"{cname}.first" or not denotes(p, rec[0].args[1], tree, ("target",)) or src(rec[0].args[2]) != pref:
                problem = f"recursion is not on ({cname}.first, <target of the node>, {pref})"
            ups = None
            for s in p.steps:
                if s.kind == "stmt" and isinstance(s.node, ast.Assign) and rec and s.node.value is rec[0] and isinstance(s.node.targets[0], ast.Tuple):
                    ups = [src(e) for e in s.node.targets[0].elts]
            if ups is None:
                problem = problem or "the recursive result is not unpacked into (upstream, done, messages)"
            else:
                up, dn = ups[0], ups[1]

                def _is_target(polarity: bool) -> bool:
                    for fct in facts:
                        if fct.kind == "IS" and fct.polarity == polarity and up in fct.args:
                            other = [a for a in fct.args if a != up]
                            try:
                                oe = ast.parse(other[0], mode="eval").body if other else None
                            except SyntaxError:
                                oe = None
                            if oe is not None and denotes(p, oe, tree, ("target",)):
                                return True
                    return False

                changed = _is_target(False)
                same = _is_target(True)
                rv = v.elts[0] if isinstance(v, ast.Tuple) and v.elts else None
                rb = resolve_name(p, rv.id) if isinstance(rv, ast.Name) else rv
                rebuilt = isinstance(rb, ast.Call) and call_attr(rb) == "_finish_apply" and src(rb.func.value) == f"{cname}.second" and [src(a) for a in rb.args] == [up]  # type: ignore[union-attr]
                kept = rb is not None and src(rb) == tree
                # The decision is a Boolean function of three tests: S `upstream is <target>`, D `done` (the moved
                # operation was fully taken care of upstream), E `<commutator>.second is <the node's operation>`.
                #   keeping the node is wrong when not S (an upstream insertion is dropped) and when S and D and not E (the
                #     existing operation was replaced - a projection superseding a calculation - and stays in the tree);
                #   rebuilding with `second` is wrong when S and not D and not E (the moved operation was blocked, so a
                #     replacement that assumes it was inserted - a projection widened by a column that does not exist -
                #     must not be used).
                from .. import boolfn as B

                cond, _defs = B.path_condition(p)
                S_atoms, D_atoms, E_atoms = set(), set(), set()
                for an in B.atoms_of(cond):
                    kind, _, rest = an.partition("(")
                    args = [x.strip() for x in rest.rstrip(")").split(",")] if rest else []
                    def _den(txt, access):
                        try:
                            return denotes(p, ast.parse(txt, mode="eval").body, tree, access)
                        except SyntaxError:
                            return False
                    if kind == "IS" and len(args) == 2 and up in args and _den([x for x in args if x != up][0] if [x for x in args if x != up] else up, ("target",)):
                        S_atoms.add(an)
                    elif kind == "IS" and len(args) == 2 and any(x.endswith(".second") for x in args) and any(_den(x, ("operation",)) for x in args if not x.endswith(".second")):
                        E_atoms.add(an)
                    elif kind == "TRUTH" and args == [dn]:
                        D_atoms.add(an)

                def _possible(want_s: bool, want_d: bool, want_e: bool) -> bool:
                    """Can the path be taken with S, D, E having these values?"""
                    names = sorted(B.atoms_of(cond))
                    if len(names) > B.MAX_ATOMS:
                        raise AnalysisError("backtrack_unary: too many tests on one path for a truth table")
                    import itertools as _it

                    for vals in _it.product((False, True), repeat=len(names)):
                        env = dict(zip(names, vals))
                        if any(env[a] != want_s for a in S_atoms) or any(env[a] != want_d for a in D_atoms) or any(env[a] != want_e for a in E_atoms):
                            continue
                        if B.evaluate(cond, env):
                            return True
                    return False

                if kept:
                    if _possible(False, True, True) or _possible(False, False, True) or _possible(False, True, False) or _possible(False, False, False):
                        problem = problem or f"the original node is returned on a path that has not established `{up} is <the node's target>`: what was inserted upstream is dropped"
                    elif _possible(True, True, False):
                        problem = problem or (
                            f"the original node is kept although `{up}` is the node's own target only because the moved operation did nothing upstream, and {cname}.second is not the node's operation: "
                            "when commute() replaces the existing operation (a projection that supersedes a calculation: second=Identity()) the superseded operation stays in the tree while done=True is reported"
                        )
                elif rebuilt:
                    if _possible(True, False, False):
                        problem = problem or (
                            f"the node is rebuilt with {cname}.second although the moved operation may have been blocked upstream ({up} is the node's target and `{dn}` is false): "
                            "a replacement that assumes the insertion (a projection widened by a calculated column) then refers to a column that does not exist"
                        )
                else:
                    problem = problem or f"the node is neither rebuilt as {cname}.second._finish_apply({up}) nor handed back unchanged"
                d = v.elts[1] if isinstance(v, ast.Tuple) and len(v.elts) > 1 else None
                okd = isinstance(d, ast.BoolOp) and isinstance(d.op, ast.And) and {src(x) for x in d.values} == {dn, f"{cname}.done"}
                if not okd:
                    problem = problem or f"done must be `{dn} and {cname}.done` (got `{src(d)}`)"
            if problem:
                run.fail("R03.2", inst + ":move", problem, fi=f, node=p.node or f.node, details=describe(p))
            else:
                run.ok("R03.2", inst + ":move")
        elif it >= 0:
            calls = list(path_calls(p, it))
            facts = path_facts(p)
            tcap = None
            alias = None
            from ..astutil import pattern_captures

            for nme, acc in pattern_captures(p.steps[it].node.pattern).items():  # type: ignore[union-attr]
                if acc == ("target",):
                    tcap = nme
                if acc == ():
                    alias = nme
            here = has_fact(facts, "EQ", tuple(sorted((pref, f"{tcap}.engine"))), True)
            rv = v.elts[0] if isinstance(v, ast.Tuple) and v.elts else None
            if here:
                def _is_apply(e) -> bool:
                    b = resolve_name(p, e.id) if isinstance(e, ast.Name) else e
                    return isinstance(b, ast.Call) and call_attr(b) == "apply" and isinstance(b.func, ast.Attribute) and src(b.func.value) == op and [src(a) for a in b.args] == [tcap]

                ok = isinstance(rv, ast.Call) and call_attr(rv) == "reapply" and bool(rv.args) and _is_apply(rv.args[0])
                if not ok and rv is not None and _is_apply(rv):
                    # the applied relation itself, where the path knows it already lives in this engine (the operation
                    # was elided in favour of a relation of the destination engine: nothing left to transfer)
                    ok = has_fact(facts, "EQ", tuple(sorted(("self", f"{src(rv)}.engine"))), True)
                ok = ok and isinstance(v.elts[1], ast.Constant) and v.elts[1].value is True  # type: ignore[union-attr]
                if ok:
                    run.ok("R03.2", inst + ":transfer-apply")
                else:
                    run.fail("R03.2", inst + ":transfer-apply", f"in the preferred engine the operation must be inserted with the validating {op}.apply({tcap}) below the re-applied transfer, done=True", fi=f, node=p.node, details=describe(p))
            else:
                rec = [c for _, c in calls if call_attr(c) == "backtrack_unary"]
                ok = bool(rec) and src(rec[0].func.value) == f"{tcap}.engine" and [src(a) for a in rec[0].args] == [op, tcap, pref]  # type: ignore[union-attr]
                ok = ok and isinstance(rv, ast.Call) and call_attr(rv) == "reapply"

                def _part(e, idx, _rec=rec) -> bool:
                    """`e` is element idx of what the delegate returned, untouched."""
                    envp = env_at(p)
                    if isinstance(e, ast.Name):
                        b = envp.get(e.id)
                        if isinstance(b, tuple) and b and b[0] == "unpack" and b[2] == idx:
                            return src(b[1]) == src(_rec[0])
                        return False
                    if isinstance(e, ast.Subscript) and isinstance(e.slice, ast.Constant) and e.slice.value == idx:
                        b = envp.get(e.value.id) if isinstance(e.value, ast.Name) else e.value
                        return isinstance(b, ast.AST) and src(b) == src(_rec[0])
                    return False

                forwarded = ok and isinstance(v, ast.Tuple) and len(v.elts) == 3 and rv.args and _part(rv.args[0], 0) and _part(v.elts[1], 1) and _part(v.elts[2], 2)
                if ok and forwarded:
                    run.ok("R03.2", inst + ":transfer-delegate")
                elif ok:
                    run.fail(
                        "R03.2",
                        inst + ":transfer-delegate",
                        f"the answer of the upstream engine's backtrack_unary is not handed on as it is (`{src(v)[:90]}`): the transfer must be re-applied on the returned tree, and the "
                        "returned done flag and messages passed through untouched - only that engine knows whether the operation itself (rather than a wider stand-in) was inserted",
                        fi=f,
                        node=p.node or f.node,
                        details=describe(p),
                    )
                else:
                    run.fail("R03.2", inst + ":transfer-delegate", "for another upstream engine backtracking must be delegated to that engine's backtrack_unary and the transfer re-applied on its result", fi=f, node=p.node or f.node, details=describe(p))
        elif ib >= 0:
            ok = p.outcome == "return" and isinstance(v, ast.Tuple) and src(v.elts[0]) == tree and isinstance(v.elts[1], ast.Constant) and v.elts[1].value is False
            if ok:
                run.ok("R03.2", inst + ":binary")
            else:
                run.fail("R03.2", inst + ":binary", "binary nodes must be handed back unchanged with done=False", fi=f, node=p.node or f.node)
        else:
            if p.outcome == "raise":
                run.ok("R03.2", inst + ":unsupported")
            else:
                run.fail("R03.2", inst + ":unsupported", "unexpected fall-through in backtrack_unary", fi=f, node=p.node or f.node)
    # MarkerRelation.reapply(target) keeps payload None and returns self for the same target
    base = m.func(ENGINE, "Engine.backtrack_unary")
    tree_b = [p for p in base.params if p != "self"][1]
    for i, p in enumerate(ctx.paths(base)):
        v = p.value
        ok = p.outcome == "return" and isinstance(v, ast.Tuple) and src(v.elts[0]) == tree_b and isinstance(v.elts[1], ast.Constant) and v.elts[1].value is False
        if ok:
            run.ok("R03.2", f"base:path{i}")
        else:
            run.fail("R03.2", f"base:path{i}", "the base engine's backtrack_unary must return (tree, False, ...)", fi=base, node=p.node or base.node)


def r04_4_set_formulas(ctx: Ctx, rule: str = "R04.4") -> None:
    """Column-set formulas the commutation guards rely on, decided exactly by Venn regions."""
    from ..setalg import Venn

    run, m = ctx.run, ctx.m
    run.rule(
        rule,
        "column-set formulas: PartialJoin.columns_required == (predicate columns - fixed columns) | min_columns; "
        "Calculation.applied_columns == target columns | {tag}; Join.applied_columns == lhs | rhs (exact over Venn regions)",
        expected_min=3,
    )
    pj = ctx.op_class("PartialJoin").methods.get("columns_required")
    if pj is None:
        raise AnalysisError("PartialJoin.columns_required is missing")
    atoms = ["self.binary.predicate.columns_required", "self.fixed.columns", "self.binary.min_columns"]
    v = Venn(atoms)
    a, f_, mn = (v.atom(x) for x in atoms)
    ref = (a - f_) | mn
    for i, p in enumerate(ctx.paths(pj)):
        if p.outcome != "return":
            continue
        got = v.run_path(p, p.value)
        inst = f"PartialJoin.columns_required:path{i}"
        if got is None:
            run.note("PartialJoin.columns_required is computed in a form the Venn evaluator does not cover; undecided")
            run.ok(rule, inst, {"undecided": True})
        elif got == ref:
            run.ok(rule, inst)
        else:
            run.fail(
                rule,
                inst,
                "PartialJoin.columns_required is not (predicate columns - fixed columns) | min_columns: "
                + ("the join's own key columns are missing from it, so commute() lets the join move above the operation that creates them" if not (mn <= got) else "it differs from the reference on some combination of memberships"),
                fi=pj,
                node=p.node,
            )
    calc = ctx.op_class("Calculation").methods.get("applied_columns")
    t = [q for q in calc.params if q != "self"][0]
    atoms = [f"{t}.columns", "{self.tag}"]
    v = Venn(atoms)
    ref = v.atom(atoms[0]) | v.atom(atoms[1])
    for i, p in enumerate(ctx.paths(calc)):
        if p.outcome != "return":
            continue
        got = v.run_path(p, p.value)
        inst = f"Calculation.applied_columns:path{i}"
        if got is None or got == ref:
            run.ok(rule, inst, {"undecided": got is None})
        else:
            run.fail(rule, inst, "Calculation.applied_columns is not the target's columns plus the calculated tag", fi=calc, node=p.node)
    jn = ctx.op_class("Join").methods.get("applied_columns")
    jp = [q for q in jn.params if q != "self"]
    atoms = [f"{jp[0]}.columns", f"{jp[1]}.columns"]
    v = Venn(atoms)
    ref = v.atom(atoms[0]) | v.atom(atoms[1])
    for i, p in enumerate(ctx.paths(jn)):
        if p.outcome != "return":
            continue
        got = v.run_path(p, p.value)
        inst = f"Join.applied_columns:path{i}"
        if got is None or got == ref:
            run.ok(rule, inst, {"undecided": got is None})
        else:
            run.fail(rule, inst, "Join.applied_columns is not the union of both operands' columns", fi=jn, node=p.node)


def r03_5_partial_join_engine(ctx: Ctx, rule: str = "R03.5") -> None:
    """A join to a fixed relation is to be evaluated where the fixed relation lives unless the caller says otherwise."""
    run, m = ctx.run, ctx.m
    run.rule(
        rule,
        "PartialJoin._begin_apply hands the base implementation a preferred engine on every path: the caller's, or - when "
        "the caller gave None - the engine of the fixed operand (whether or not the common columns still had to be "
        "resolved): without it a join whose target lives elsewhere is neither backtracked nor transferred and fails "
        "with 'mismatched engines' although it is valid",
        expected_min=1,
    )
    f = ctx.op_class("PartialJoin").methods.get("_begin_apply")
    if f is None:
        raise AnalysisError("PartialJoin._begin_apply is missing")
    ps = [p for p in f.params if p != "self"]
    pe = ps[1]
    n = 0
    for i, p in enumerate(ctx.paths(f)):
        if p.outcome != "return":
            continue
        v = p.value
        if not (isinstance(v, ast.Call) and call_attr(v) == "_begin_apply"):
            continue
        recv = v.func.value if isinstance(v.func, ast.Attribute) else None
        if not (isinstance(recv, ast.Call) and isinstance(recv.func, ast.Name) and recv.func.id == "super"):
            n += 1
            # delegation to the replacement operation: it must pass the caller's preference on
            a = v.args[1] if len(v.args) > 1 else kw(v, pe)
            if a is not None and src(a) == pe and pe not in {nm for s in p.steps for nm in _rebinds(s)}:
                run.ok(rule, f"path{i}:delegates")
            else:
                ab = env_at(p).get(a.id) if isinstance(a, ast.Name) else a
                if isinstance(ab, ast.AST) and src(ab) in (pe, "self.fixed.engine"):
                    run.ok(rule, f"path{i}:delegates")
                else:
                    run.fail(rule, f"path{i}:delegates", f"the re-resolved join is applied with preferred engine `{src(a) if a is not None else '?'}` instead of the caller's", fi=f, node=p.node, details=describe(p))
            continue
        n += 1
        a = v.args[1] if len(v.args) > 1 else kw(v, pe)
        inst = f"path{i}:base-call"
        facts = path_facts(p)
        given = has_fact(facts, "IS", tuple(sorted(("None", pe))), False)
        b = env_at(p).get(a.id) if isinstance(a, ast.Name) else a
        defaulted = isinstance(b, ast.AST) and src(b) == "self.fixed.engine"
        if isinstance(b, ast.IfExp):
            # `self.fixed.engine if preferred_engine is None else preferred_engine` (either way round)
            from ..facts import facts_of as _facts_of

            tf = _facts_of(b.test, True)
            none_when_true = any(fc.kind == "IS" and set(fc.args) == {"None", pe} and fc.polarity for fc in tf)
            none_when_false = any(fc.kind == "IS" and set(fc.args) == {"None", pe} and not fc.polarity for fc in tf)
            if none_when_true and src(b.body) == "self.fixed.engine" and src(b.orelse) == pe:
                defaulted = True
            if none_when_false and src(b.orelse) == "self.fixed.engine" and src(b.body) == pe:
                defaulted = True
        if isinstance(b, ast.BoolOp) and isinstance(b.op, ast.Or) and [src(x) for x in b.values] == [pe, "self.fixed.engine"]:
            defaulted = False  # an engine object is always truthy, but `or` is not the documented test; keep it undecided -> reported
        through = src(a) == pe or (isinstance(b, ast.Name) and b.id == pe)
        if a is not None and (defaulted or (through and given)):
            run.ok(rule, inst)
        else:
            run.fail(
                rule,
                inst,
                f"the base _begin_apply is reached with `{src(a) if a is not None else '?'}` on a path where the caller's preferred engine may be None and was not replaced by `self.fixed.engine`",
                fi=f,
                node=p.node,
                details=describe(p),
            )
    if n == 0:
        raise AnalysisError("PartialJoin._begin_apply no longer delegates to a _begin_apply")


def _rebinds(step) -> set[str]:
    from ..paths import _binds

    return _binds(step)


def r14_17_partial_join_resolved(ctx: Ctx, rule: str) -> None:
    """The join a PartialJoin hands on is resolved: min_columns == max_columns."""
    run, m = ctx.run, ctx.m
    run.rule(
        rule,
        "PartialJoin._begin_apply reaches the base implementation only with a join whose common columns are resolved "
        "(`binary.max_columns == binary.min_columns` established on the path); every other path goes through the "
        "re-resolved replacement: the SQL engine builds the join node from `binary` as it stands, so an unresolved join "
        "(an explicit max_columns that differs from min_columns) would sit in the tree, where `common_columns` raises",
        expected_min=1,
    )
    f = ctx.op_class("PartialJoin").methods.get("_begin_apply")
    if f is None:
        raise AnalysisError("PartialJoin._begin_apply is missing")
    n = 0
    for i, p in enumerate(ctx.paths(f)):
        if p.outcome != "return":
            continue
        v = p.value
        if not (isinstance(v, ast.Call) and call_attr(v) == "_begin_apply" and isinstance(v.func, ast.Attribute) and isinstance(v.func.value, ast.Call) and isinstance(v.func.value.func, ast.Name) and v.func.value.func.id == "super"):
            continue
        n += 1
        facts = path_facts(p)
        resolved = any(fc.kind == "EQ" and fc.polarity and set(fc.args) == {"self.binary.max_columns", "self.binary.min_columns"} for fc in facts)
        inst = f"path{i}:resolved"
        if resolved:
            run.ok(rule, inst)
        else:
            run.fail(
                rule,
                inst,
                "the base _begin_apply is reached on a path that has not established `self.binary.max_columns == self.binary.min_columns`: a join given an explicit max_columns "
                "that differs from its min_columns is passed on unresolved",
                fi=f,
                node=p.node,
                details=describe(p),
            )
    if n == 0:
        raise AnalysisError("PartialJoin._begin_apply no longer reaches the base implementation")
