"""R05.2: the do-nothing ("trivial") conditions of Slice and Sort agree everywhere they are tested.

The conditions only look at truthiness and None-ness of ``start``, ``stop``/``limit`` and ``terms``, so they
are decided exactly by evaluating the guard expressions (with a tiny evaluator written here - repository
code is not run) over the finite abstraction  start in {0, +},  stop in {None, 0, +},  terms in {(), (t,)}.
"""

from __future__ import annotations

import ast
import itertools

from ..astutil import AnalysisError, src
from ..model import FunctionInfo
from ..paths import Path
from ..props.common import SQL_ENGINE, SQL_SELECT, Ctx, describe

UNKNOWN = object()


class _Pos:
    """An unspecified positive integer."""

    def __repr__(self) -> str:
        return "+"


POS = _Pos()
NONEMPTY = ("<term>",)


def _truthy(v) -> bool:
    if v is POS or v is NONEMPTY:
        return True
    return bool(v)


def evaluate(node: ast.expr, env: dict[str, object]):
    """Evaluate a guard over the abstraction; UNKNOWN when it leaves the supported fragment."""
    text = src(node)
    if text in env:
        return env[text]
    if isinstance(node, ast.Constant):
        return node.value
    if isinstance(node, ast.UnaryOp) and isinstance(node.op, ast.Not):
        v = evaluate(node.operand, env)
        return UNKNOWN if v is UNKNOWN else not _truthy(v)
    if isinstance(node, ast.BoolOp):
        vals = []
        for x in node.values:
            v = evaluate(x, env)
            if v is UNKNOWN:
                return UNKNOWN
            vals.append(v)
            if isinstance(node.op, ast.And) and not _truthy(v):
                return v
            if isinstance(node.op, ast.Or) and _truthy(v):
                return v
        return vals[-1]
    if isinstance(node, ast.Call) and isinstance(node.func, ast.Name) and node.func.id == "bool" and len(node.args) == 1:
        v = evaluate(node.args[0], env)
        return UNKNOWN if v is UNKNOWN else _truthy(v)
    if isinstance(node, ast.Call) and isinstance(node.func, ast.Name) and node.func.id == "len" and len(node.args) == 1:
        v = evaluate(node.args[0], env)
        if v is UNKNOWN:
            return UNKNOWN
        return POS if _truthy(v) else 0
    if isinstance(node, ast.Compare) and len(node.ops) == 1:
        a, b = evaluate(node.left, env), evaluate(node.comparators[0], env)
        if a is UNKNOWN or b is UNKNOWN:
            return UNKNOWN
        op = node.ops[0]
        if isinstance(op, ast.Is):
            return a is b if (a is None or b is None) else UNKNOWN
        if isinstance(op, ast.IsNot):
            return a is not b if (a is None or b is None) else UNKNOWN
        if isinstance(op, (ast.Eq, ast.NotEq, ast.Gt, ast.GtE, ast.Lt, ast.LtE)):
            def num(x):
                return 1 if x is POS else (0 if x == () else (1 if x is NONEMPTY else x))

            x, y = num(a), num(b)
            if x is None or y is None:
                if isinstance(op, ast.Eq):
                    return x is y
                if isinstance(op, ast.NotEq):
                    return x is not y
                return UNKNOWN
            if not isinstance(x, (int, bool)) or not isinstance(y, (int, bool)):
                return UNKNOWN
            # only comparisons against 0 are exact in this abstraction
            if 0 not in (x, y) and not (isinstance(op, (ast.Eq, ast.NotEq)) and x == y == 0):
                return UNKNOWN
            return {ast.Eq: x == y, ast.NotEq: x != y, ast.Gt: x > y, ast.GtE: x >= y, ast.Lt: x < y, ast.LtE: x <= y}[type(op)]
    if isinstance(node, ast.NamedExpr):
        return evaluate(node.value, env)
    return UNKNOWN


def slice_envs(prefix: str):
    """All abstract (start, stop) pairs with stop >= start, as environments for `<prefix>.start` etc."""
    for start, stop in itertools.product((0, POS), (None, 0, POS)):
        if start is POS and stop == 0:
            continue  # stop < start is rejected by Slice.__post_init__
        if stop is None:
            limits = [None]
        elif stop == 0:
            limits = [0]
        elif start == 0:
            limits = [POS]
        else:
            limits = [0, POS]  # stop - start with both positive: either
        for lim in limits:
            yield {
                f"{prefix}.start": start,
                f"{prefix}.stop": stop,
                f"{prefix}.limit": lim,
            }, (start == 0 and stop is None)


def sort_envs(prefix: str):
    for terms in ((), NONEMPTY):
        yield {f"{prefix}.terms": terms}, terms == ()


def _cond_of_return(ctx: Ctx, f: FunctionInfo, pred) -> list[tuple[Path, list]]:
    """Paths whose return value satisfies ``pred`` with the conjunction of their branch tests."""
    out = []
    for p in ctx.paths(f):
        if p.outcome == "return" and pred(p):
            out.append((p, [(s.node, s.value) for s in p.steps if s.kind == "cond"]))
    return out


def _holds(conds, env) -> object:
    """Truth of a conjunction of (test, expected) pairs under env; UNKNOWN if any is."""
    res = True
    for node, expected in conds:
        v = evaluate(node, env)
        if v is UNKNOWN:
            return UNKNOWN
        if _truthy(v) != expected:
            res = False
    return res


def r05_2_noop_predicates_agree(ctx: Ctx, rule: str = "R05.2") -> None:
    run, m = ctx.run, ctx.m
    run.rule(
        rule,
        "do-nothing predicates agree: a Slice is trivial iff start == 0 and stop is None, a Sort iff it has no terms - in "
        "_begin_apply (Identity), _finish_apply (target), simplify (upstream), Select.has_slice/has_sort, "
        "Select.apply_skip (slot applied) and the OFFSET/LIMIT/ORDER BY emission, decided over all abstract values",
        expected_min=14,
    )

    def check_site(inst: str, f: FunctionInfo, envs, trivial_paths, describe_what: str, negate: bool = False):
        """On every abstract value: some `trivial path` is taken  <=>  the value is trivial (or its negation)."""
        bad = None
        for env, is_trivial in envs:
            taken = False
            unknown = False
            for p, conds in trivial_paths:
                h = _holds(conds, env)
                if h is UNKNOWN:
                    unknown = True
                elif h:
                    taken = True
            if unknown:
                raise AnalysisError(f"{f.key}: triviality guard leaves the decidable fragment ({describe_what})")
            want = (not is_trivial) if negate else is_trivial
            if taken != want:
                bad = (env, is_trivial, taken)
                break
        if bad:
            env, is_trivial, taken = bad
            vals = ", ".join(f"{k.split('.')[-1]}={v!r}" for k, v in env.items())
            run.fail(
                rule,
                inst,
                f"{f.qualname}: {describe_what} is {'taken' if taken else 'not taken'} for {vals}, which is "
                f"{'' if is_trivial else 'not '}a do-nothing value: the sites that test triviality disagree",
                fi=f,
            )
        else:
            run.ok(rule, inst)

    # ---- Slice
    sl = ctx.op_class("Slice")
    begin = sl.methods.get("_begin_apply")
    finish = sl.methods.get("_finish_apply")
    simp = sl.methods.get("simplify")
    for f, what, pred in (
        (begin, "the Identity short-cut", lambda p: isinstance(p.value, ast.Tuple) and "Identity" in src(p.value.elts[0])),
        (finish, "returning the target unchanged", lambda p, f=finish: src(p.value) == [q for q in f.params if q != "self"][0] if f else False),
        (simp, "returning the upstream operation", lambda p, f=simp: src(p.value) == [q for q in f.params if q != "self"][0] if f else False),
    ):
        if f is None:
            raise AnalysisError("Slice lost one of _begin_apply/_finish_apply/simplify")
        check_site(f"Slice.{f.name}", f, list(slice_envs("self")), _cond_of_return(ctx, f, pred), what)
    sel = ctx.cls(SQL_SELECT, "Select")
    hs = sel.methods.get("has_slice")
    if hs is None:
        raise AnalysisError("Select.has_slice is missing")
    # has_slice: value of the returned expression
    bad = None
    for env, is_trivial in slice_envs("self.slice"):
        for p in ctx.paths(hs):
            if p.outcome != "return":
                continue
            conds = [(s.node, s.value) for s in p.steps if s.kind == "cond"]
            h = _holds(conds, env)
            if h is UNKNOWN:
                raise AnalysisError("Select.has_slice leaves the decidable fragment")
            if not h:
                continue
            v = evaluate(p.value, env)
            if v is UNKNOWN:
                raise AnalysisError("Select.has_slice leaves the decidable fragment")
            if _truthy(v) == is_trivial:
                bad = (env, is_trivial, _truthy(v))
    if bad:
        env, is_trivial, val = bad
        vals = ", ".join(f"{k.split('.')[-1]}={v!r}" for k, v in env.items() if not k.endswith("limit"))
        run.fail(rule, "Select.has_slice", f"Select.has_slice is {val} for slice({vals}), which is {'' if is_trivial else 'not '}a do-nothing slice; a real slice would be treated as absent (or vice versa)", fi=hs)
    else:
        run.ok(rule, "Select.has_slice")
    ask = m.func(SQL_SELECT, "Select.apply_skip")
    applied = [
        (p, [(s.node, s.value) for s in p.steps if s.kind == "cond" and "slice" in src(s.node) and "is None" not in src(s.node)])
        for p in ctx.paths(ask)
        if p.outcome == "return" and any(s.kind == "stmt" and "slice._finish_apply" in src(s.node) for s in p.steps)
    ]
    if not applied:
        raise AnalysisError("Select.apply_skip never applies the slice slot")
    check_site("Select.apply_skip:slice", ask, list(slice_envs("slice")), applied, "applying the slice to the target", negate=True)
    # emission: OFFSET or LIMIT is emitted iff the slice is non-trivial
    ste = m.func(SQL_ENGINE, "Engine._select_to_executable")
    selp = [q for q in ste.params if q != "self"][0]
    emit_conds = [n for n in ast.walk(ste.node) if isinstance(n, ast.If) and any(isinstance(c, ast.Call) and isinstance(c.func, ast.Attribute) and c.func.attr in ("offset", "limit") for b in n.body for c in ast.walk(b))]
    if len(emit_conds) < 2:
        raise AnalysisError("_select_to_executable no longer guards OFFSET and LIMIT emission separately")
    bad = None
    for env, is_trivial in slice_envs(f"{selp}.slice"):
        vals = [evaluate(n.test, env) for n in emit_conds]
        if any(v is UNKNOWN for v in vals):
            raise AnalysisError("OFFSET/LIMIT emission guards leave the decidable fragment")
        emitted = any(_truthy(v) for v in vals)
        if emitted == is_trivial:
            bad = env
        # LIMIT must be emitted whenever there is a stop; OFFSET whenever start > 0
        for n, v in zip(emit_conds, vals):
            which = "limit" if any(isinstance(c, ast.Call) and isinstance(c.func, ast.Attribute) and c.func.attr == "limit" for b in n.body for c in ast.walk(b)) else "offset"
            need = (env[f"{selp}.slice.stop"] is not None) if which == "limit" else (env[f"{selp}.slice.start"] is POS)
            if _truthy(v) != need:
                bad = env
    if bad:
        vals_s = ", ".join(f"{k.split('.')[-1]}={v!r}" for k, v in bad.items())
        run.fail(rule, "emit:offset-limit", f"OFFSET/LIMIT emission disagrees with the slice for {vals_s}", fi=ste)
    else:
        run.ok(rule, "emit:offset-limit")

    # ---- Sort
    so = ctx.op_class("Sort")
    for name, what, predf in (
        ("_begin_apply", "the Identity short-cut", lambda f: (lambda p: isinstance(p.value, ast.Tuple) and "Identity" in src(p.value.elts[0]))),
        ("_finish_apply", "returning the target unchanged", lambda f: (lambda p: src(p.value) == [q for q in f.params if q != "self"][0])),
        ("simplify", "returning the upstream operation", lambda f: (lambda p: src(p.value) == [q for q in f.params if q != "self"][0])),
    ):
        f = so.methods.get(name)
        if f is None:
            raise AnalysisError(f"Sort.{name} is missing")
        check_site(f"Sort.{name}", f, list(sort_envs("self")), _cond_of_return(ctx, f, predf(f)), what)
    hsrt = sel.methods.get("has_sort")
    if hsrt is None:
        raise AnalysisError("Select.has_sort is missing")
    ok = True
    for env, is_trivial in sort_envs("self.sort"):
        for p in ctx.paths(hsrt):
            v = evaluate(p.value, env)
            if v is UNKNOWN:
                raise AnalysisError("Select.has_sort leaves the decidable fragment")
            if _truthy(v) == is_trivial:
                ok = False
    if ok:
        run.ok(rule, "Select.has_sort")
    else:
        run.fail(rule, "Select.has_sort", "Select.has_sort disagrees with Sort's own do-nothing condition (no terms)", fi=hsrt)
    applied = [
        (p, [(s.node, s.value) for s in p.steps if s.kind == "cond" and "sort" in src(s.node) and "is None" not in src(s.node)])
        for p in ctx.paths(ask)
        if p.outcome == "return" and any(s.kind == "stmt" and "sort._finish_apply" in src(s.node) for s in p.steps)
    ]
    if not applied:
        raise AnalysisError("Select.apply_skip never applies the sort slot")
    check_site("Select.apply_skip:sort", ask, list(sort_envs("sort")), applied, "applying the sort to the target", negate=True)
    # has_projection / has_deduplication are None tests on the slot (apply_skip applies iff not None)
    for slot in ("projection", "deduplication"):
        hp = sel.methods.get(f"has_{slot}")
        from .. import boolfn as B

        got = B.function_truth(ctx.paths(hp)) if hp else None
        want = B.neg(B.atom("IS", *sorted(("None", f"self.{slot}"))))
        if got is not None and B.equivalent(got, want)[0]:
            run.ok(rule, f"Select.has_{slot}")
        else:
            run.fail(rule, f"Select.has_{slot}", f"Select.has_{slot} is `{B.show(got) if got else None}`, not `self.{slot} is not None` (the condition under which apply_skip applies the slot)", fi=hp or ask)
    # Projection / Selection no-op predicates: same fact in _begin_apply and _finish_apply
    for cname, fact_text in (("Projection", None), ("Selection", None)):
        c = ctx.op_class(cname)
        b, fn = c.methods.get("_begin_apply"), c.methods.get("_finish_apply")
        if b is None or fn is None:
            run.fail(rule, f"{cname}:noop-pair", f"{cname} lost its _begin_apply/_finish_apply no-op short-cut", file=c.module.path, line=c.node.lineno, func=cname)
            continue

        def first_cond(f, pred):
            from ..facts import path_facts

            for p in ctx.paths(f):
                if p.outcome == "return" and pred(p):
                    return sorted(str(x) for x in path_facts(p))
            return None

        tb = [q for q in b.params if q != "self"][0]
        tf = [q for q in fn.params if q != "self"][0]
        cb = first_cond(b, lambda p: isinstance(p.value, ast.Tuple) and "Identity" in src(p.value.elts[0]))
        cf = first_cond(fn, lambda p: src(p.value) == tf)
        if cb is None or cf is None:
            run.fail(rule, f"{cname}:noop-pair", f"{cname} no longer short-cuts its do-nothing case in both _begin_apply and _finish_apply", fi=b)
            continue
        norm_b = [t.replace(f"{tb}.", "T.") for t in cb]
        norm_f = [t.replace(f"{tf}.", "T.") for t in cf]
        if norm_b == norm_f:
            run.ok(rule, f"{cname}:noop-pair", {"condition": norm_b})
        else:
            run.fail(rule, f"{cname}:noop-pair", f"{cname}'s do-nothing condition differs between _begin_apply {norm_b} and _finish_apply {norm_f}", fi=fn)
