"""R20.*: ill-formed requests are rejected at the factory call."""

from __future__ import annotations

import ast

from ..astutil import AnalysisError, call_attr, dotted, iter_calls, kw, src
from ..flow import path_calls
from ..paths import env_at, resolve_name
from ..props.common import BINARY, ENGINE, OPS, RELATION, SQL_ENGINE, SQL_SELECT, UNARY, Ctx, describe
from .guards import Required, check_required, is_identity_return

OPTION_NAMES = ("preferred_engine", "backtrack", "transfer", "require_preferred_engine")


def r20_1_validation_first(ctx: Ctx) -> None:
    run, m = ctx.run, ctx.m
    run.rule(
        "R20.1",
        "every BaseRelation factory returns <Operation>(...).apply(...) / engine.materialize / destination.transfer and "
        "forwards its options; in apply() the _begin_apply call precedes every call into an engine and its result is the "
        "operation handed on",
        expected_min=14,
    )
    base = ctx.cls(RELATION, "BaseRelation")
    factories = [f for f in base.methods.values() if "_copy_relation_docs" in f.decorators and not f.is_property and f.name != "attach_payload"]
    if len(factories) < 10:
        raise AnalysisError(f"expected at least 10 BaseRelation factories, found {len(factories)}")
    for f in sorted(factories, key=lambda f: f.name):
        for i, p in enumerate(ctx.paths(f)):
            inst = f"factory:{f.name}:path{i}"
            if p.outcome == "raise":
                run.ok("R20.1", inst)
                continue
            v = p.value
            if not isinstance(v, ast.Call) or call_attr(v) not in ("apply", "materialize", "transfer"):
                run.fail("R20.1", inst, f"factory {f.name} returns `{src(v)[:80]}`, which is not an apply()/materialize()/transfer() call", fi=f, node=p.node or f.node)
                continue
            problems = []
            if call_attr(v) == "apply":
                # receiver: a constructor call of an operation class (possibly .partial(...))
                recv = v.func.value  # type: ignore[union-attr]
                if isinstance(recv, ast.Name):
                    b = resolve_name(p, recv.id)
                    if isinstance(b, ast.expr):
                        recv = b
                ctor = recv
                while isinstance(ctor, ast.Call) and isinstance(ctor.func, ast.Attribute):
                    ctor = ctor.func.value
                name = dotted(ctor.func) if isinstance(ctor, ast.Call) else None
                cls = m.resolve_class(f.module, name) if name else None
                if cls is None or not (m.is_subclass(cls, ctx.k.unary_root) or m.is_subclass(cls, ctx.k.binary_root)):
                    problems.append(f"apply() is not called on a freshly constructed operation ({src(recv)[:60]})")
                # `self` is the (first) operand
                if not v.args or src(v.args[0]) != "self":
                    problems.append("the relation itself is not the first operand of apply()")
                for opt in OPTION_NAMES:
                    if opt in f.params:
                        a = kw(v, opt)
                        if a is None or src(a) != opt:
                            problems.append(f"option `{opt}` is not forwarded to apply()")
            if problems:
                run.fail("R20.1", inst, f"factory {f.name}: " + "; ".join(problems), fi=f, node=p.node)
            else:
                run.ok("R20.1", inst, {"returns": src(v)[:100]})

    # UnaryOperation.apply
    apply_u = m.func(UNARY, "UnaryOperation.apply")
    for i, p in enumerate(ctx.paths(apply_u)):
        inst = f"UnaryOperation.apply:path{i}"
        calls = list(path_calls(p))
        engine_calls = [(j, c) for j, c in calls if call_attr(c) in ("backtrack_unary", "append_unary", "transferred_to", "transfer", "_finish_apply")]
        begins = [(j, c) for j, c in calls if call_attr(c) == "_begin_apply"]
        if not begins:
            run.fail("R20.1", inst, "a path through apply() never calls _begin_apply (validation skipped)", fi=apply_u, node=p.node or apply_u.node, details=describe(p))
            continue
        jb = begins[0][0]
        early = [c for j, c in engine_calls if j < jb]
        if early:
            run.fail("R20.1", inst, f"`{src(early[0])[:60]}` runs before _begin_apply validated the request", fi=apply_u, node=early[0], details=describe(p))
            continue
        # the operation given to the engine is the one _begin_apply returned
        bad = None
        for j, c in engine_calls:
            if call_attr(c) in ("backtrack_unary", "append_unary") and c.args:
                a0 = c.args[0]
                if not isinstance(a0, ast.Name):
                    bad = c
                    break
                bound = env_at(p, j).get(a0.id)
                ok = isinstance(bound, tuple) and bound[0] == "unpack" and isinstance(bound[1], ast.Call) and call_attr(bound[1]) == "_begin_apply" and bound[2] == 0
                if not ok:
                    bad = c
                    break
        if bad is not None:
            run.fail("R20.1", inst, f"`{src(bad)[:70]}` is not given the operation returned by _begin_apply", fi=apply_u, node=bad, details=describe(p))
        else:
            run.ok("R20.1", inst)
    apply_b = m.func(BINARY, "BinaryOperation.apply")
    for i, p in enumerate(ctx.paths(apply_b)):
        inst = f"BinaryOperation.apply:path{i}"
        calls = list(path_calls(p))
        begins = [(j, c) for j, c in calls if call_attr(c) == "_begin_apply"]
        appends = [(j, c) for j, c in calls if call_attr(c) in ("append_binary", "_finish_apply")]
        if not begins or not appends or begins[0][0] > appends[0][0]:
            run.fail("R20.1", inst, "BinaryOperation.apply does not validate with _begin_apply before appending", fi=apply_b, node=p.node or apply_b.node, details=describe(p))
            continue
        j, c = appends[0]
        a0 = c.args[0] if c.args else None
        bound = env_at(p, j).get(a0.id) if isinstance(a0, ast.Name) else a0
        ok = isinstance(bound, ast.Call) and call_attr(bound) == "_begin_apply"
        lr = [src(a) for a in c.args[1:3]]
        params = [q for q in apply_b.params if q != "self"]
        if ok and lr == params[:2]:
            run.ok("R20.1", inst, {"append": src(c)})
        else:
            run.fail("R20.1", inst, f"`{src(c)}` does not pass on the validated operation and both operands in order", fi=apply_b, node=c)


def _op_func(ctx: Ctx, cls_name: str, meth: str):
    c = ctx.op_class(cls_name)
    f = c.methods.get(meth)
    if f is None:
        raise AnalysisError(f"{cls_name}.{meth} is missing (anchor of the check inventory)")
    return f


def inventory(ctx: Ctx) -> list[tuple]:
    """(function, [Required...], success-predicate, label)."""
    non_identity = lambda p: p.outcome == "return" and not is_identity_return(p)  # noqa: E731
    any_exit = lambda p: p.outcome in ("return", "fall")  # noqa: E731
    inv: list[tuple] = []
    inv.append((
        _op_func(ctx, "Calculation", "_begin_apply"),
        [
            Required("expression-columns-present", "LE", ("self.expression.columns_required", "self.columns_required"), ("{p0}.columns",), True, "ColumnError",
                     reason="a calculation whose inputs are missing must be rejected with ColumnError"),
            Required("tag-is-new", "IN", ("self.tag",), ("{p0}.columns",), False, "ColumnError",
                     reason="a calculated tag that already exists must be rejected with ColumnError"),
        ],
        non_identity, "non-identity return",
    ))
    inv.append((
        _op_func(ctx, "Calculation", "__post_init__"),
        [Required("depends-on-a-column", "TRUTH", ("self.expression.columns_required",), (), True, "ColumnError",
                  reason="constant calculated columns are documented as ColumnError")],
        any_exit, "normal exit",
    ))
    inv.append((
        _op_func(ctx, "Projection", "_begin_apply"),
        [Required("columns-present", "LE", ("self.columns", "self.columns_required"), ("{p0}.columns",), True, "ColumnError",
                  reason="projecting a missing column must be rejected with ColumnError",
                  )],
        non_identity, "non-identity return",
    ))
    inv.append((
        _op_func(ctx, "Projection", "_begin_apply"),
        [Required("identity-only-for-all-columns", "EQ", ("self.columns",), ("{p0}.columns",), True, None,
                  reason="the do-nothing short-cut precedes the ColumnError guard, so it must imply it: only a projection onto "
                         "exactly the target's columns is a no-op; a superset names a missing column and must be rejected")],
        lambda p: p.outcome == "return" and is_identity_return(p), "Identity short-cut",
    ))
    inv.append((
        _op_func(ctx, "Selection", "_begin_apply"),
        [Required("predicate-columns-present", "LE", ("self.predicate.columns_required", "self.columns_required"), ("{p0}.columns",), True, "ColumnError",
                  reason="a predicate on a missing column must be rejected with ColumnError")],
        non_identity, "non-identity return",
    ))
    sort_begin = _op_func(ctx, "Sort", "_begin_apply")
    term_v = next((src(n.target) for n in ast.walk(sort_begin.node) if isinstance(n, ast.For) and src(n.iter) == "self.terms"), "term")
    inv.append((
        sort_begin,
        [Required("term-columns-present", "LE", (f"{term_v}.expression.columns_required", "self.columns_required"), ("{p0}.columns",), True, "ColumnError",
                  loop_over="self.terms", reason="a sort term on a missing column must be rejected with ColumnError")],
        non_identity, "non-identity return",
    ))
    inv.append((
        _op_func(ctx, "Chain", "_begin_apply"),
        [
            Required("same-engine", "EQ", ("{p0}.engine",), ("{p1}.engine",), True, "EngineError", reason="chain operands in different engines must be rejected with EngineError"),
            Required("same-columns", "EQ", ("{p0}.columns",), ("{p1}.columns",), True, "ColumnError", reason="chain operands with different columns must be rejected with ColumnError"),
        ],
        any_exit, "return",
    ))
    join_begin = _op_func(ctx, "Join", "_begin_apply")
    inv.append((
        join_begin,
        [
            Required("predicate-columns-present", "LE", ("self.predicate.columns_required",), ("self.applied_columns({p0}, {p1})", "{p0}.columns | {p1}.columns"), True, "ColumnError",
                     reason="a join predicate on a missing column must be rejected with ColumnError"),
            Required("common-columns-in-lhs", "LE", ("self.common_columns", "self.min_columns"), ("{p0}.columns",), True, "ColumnError",
                     either=("self.applied_common_columns({p0}, {p1})",), reason="explicit common columns must exist in the left operand"),
            Required("common-columns-in-rhs", "LE", ("self.common_columns", "self.min_columns"), ("{p1}.columns",), True, "ColumnError",
                     either=("self.applied_common_columns({p0}, {p1})",), reason="explicit common columns must exist in the right operand"),
        ],
        any_exit, "return",
    ))
    acc = _op_func(ctx, "Join", "applied_common_columns")
    cc_v = next((src(n.targets[0]) for n in ast.walk(acc.node) if isinstance(n, ast.Assign) and isinstance(n.value, (ast.SetComp, ast.Call, ast.BinOp)) and isinstance(n.targets[0], ast.Name)), "common_columns")
    inv.append((
        acc,
        [Required("resolved-superset-of-min", "LE", ("self.min_columns",), (cc_v,), True, "ColumnError",
                  vacuous=("EQ(self.max_columns, self.min_columns)",), reason="resolved common columns must include min_columns")],
        any_exit, "return",
    ))
    inv.append((
        _op_func(ctx, "Join", "__post_init__"),
        [Required("min-subset-of-max", "LE", ("self.min_columns",), ("self.max_columns",), True, "ColumnError",
                  vacuous=("IS(None, self.max_columns)",), reason="min_columns must be a subset of max_columns")],
        any_exit, "normal exit",
    ))
    inv.append((
        _op_func(ctx, "Join", "partial"),
        [Required("min-columns-in-fixed", "LE", ("self.min_columns",), ("{p0}.columns",), True, "ColumnError", reason="partial join to a relation lacking min_columns must be rejected")],
        any_exit, "return",
    ))
    pj = _op_func(ctx, "PartialJoin", "_begin_apply")
    inv.append((
        pj,
        [Required("required-columns-present", "LE", ("self.columns_required",), ("{p0}.columns",), True, "ColumnError", reason="a join needing a missing column must be rejected with ColumnError")],
        lambda p: p.outcome == "return" and isinstance(p.value, ast.Call) and src(p.value.func).startswith("super()"),
        "return through the base _begin_apply",
    ))
    inv.append((
        _op_func(ctx, "Slice", "__post_init__"),
        [
            Required("start-non-negative", "LT", ("self.start",), ("0",), False, "ValueError", reason="negative slice start must raise ValueError"),
            Required("stop-not-before-start", "LT", ("self.stop",), ("self.start",), False, "ValueError",
                     vacuous=("IS(None, self.stop)",), reason="reversed slice must raise ValueError"),
        ],
        any_exit, "normal exit",
    ))
    getitem = ctx.m.func(RELATION, "BaseRelation.__getitem__")
    inv.append((
        getitem,
        [
            Required("key-is-slice", "ISINSTANCE", ("{p0}",), ("slice",), True, "TypeError", reason="non-slice keys must raise TypeError"),
            Required("unit-step", "IN", ("{p0}.step",), ("(1, None)", "(None, 1)", "{1, None}", "[1, None]"), True, "TypeError", reason="stepped slices must raise TypeError"),
        ],
        lambda p: p.outcome == "return", "return",
    ))
    inv.append((
        ctx.m.func(UNARY, "UnaryOperation._finish_apply"),
        [Required("engine-supports-operation", "TRUTH", ("self.is_supported_by({p0}.engine)",), (), True, "EngineError", reason="an operation the engine does not support must raise EngineError")],
        lambda p: p.outcome == "return" and isinstance(p.value, ast.Call) and src(p.value.func).split(".")[-1] == "UnaryOperationRelation",
        "node construction",
    ))
    inv.append((
        _op_func(ctx, "Join", "_finish_apply"),
        [
            Required("same-engine", "EQ", ("{p0}.engine",), ("{p1}.engine",), True, "EngineError", reason="join operands in different engines must raise EngineError"),
            Required("engine-supports-predicate", "TRUTH", ("self.predicate.is_supported_by({p0}.engine)", "self.predicate.is_supported_by({p1}.engine)"), (), True, "EngineError", reason="an unsupported join predicate must raise EngineError"),
        ],
        lambda p: p.outcome == "return" and isinstance(p.value, ast.Call) and src(p.value.func).startswith("super()"),
        "node construction",
    ))
    return inv


def r20_2_inventory(ctx: Ctx, rule: str = "R20.2") -> None:
    ctx.run.rule(
        rule,
        "inventory of required checks: each exists in the stated function, holds on every successful exit and its "
        "failure raises the documented exception class",
        expected_min=20,
    )
    for fi, reqs, success, label in inventory(ctx):
        check_required(ctx, rule, fi, reqs, success, label)
    # the required-engine refusal in apply()
    apply_u = ctx.m.func(UNARY, "UnaryOperation.apply")
    raises = [p for p in ctx.paths(apply_u) if p.outcome == "raise"]
    if raises and all(p.raises("EngineError") for p in raises):
        ctx.run.ok(rule, "UnaryOperation.apply:required-engine-refusal", {"paths": len(raises)})
    else:
        ctx.run.fail(rule, "UnaryOperation.apply:required-engine-refusal", "apply() has no EngineError refusal for require_preferred_engine (or raises another class)", fi=apply_u)


# receivers that may have `_finish_apply` called without a dominating `_begin_apply`
_BYPASS_OK = {
    # (module, function): {receiver text: reason}
    (ENGINE, "Engine.append_unary"): {"operation": "already begun by UnaryOperation.apply / read from an existing node"},
    (ENGINE, "Engine.append_binary"): {"operation": "already begun by BinaryOperation.apply"},
    (UNARY, "UnaryOperation._finish_apply"): {"simplified": "output of simplify() applied to the upstream target"},
    ("iteration/_engine.py", "Engine.backtrack_unary"): {"commutator.second": "the existing node's operation (possibly widened) re-applied after the moved one"},
    (SQL_ENGINE, "Engine._append_unary_to_select"): {"operation": "already begun, or read from an existing node by conform()"},
    (SQL_ENGINE, "Engine._append_binary_to_select"): {"operation": "already begun, or read from an existing node by conform()"},
    (SQL_SELECT, "Select.apply_skip"): {"sort": "Select slot", "projection": "Select slot", "deduplication": "Select slot", "slice": "Select slot"},
    (SQL_SELECT, "Select.reapply_skip"): {"after": "operation handed in by _append_unary_to_select"},
}


def r20_3_who_may_bypass(ctx: Ctx) -> None:
    run, m = ctx.run, ctx.m
    run.rule(
        "R20.3",
        "calls to _finish_apply that are not preceded by that operation's _begin_apply are made only with operations of "
        "sanctioned provenance (engine append parameters, Select slots, simplify output, commutator.second, super())",
        expected_min=15,
    )
    for fi in m.all_functions():
        for call in iter_calls(fi.node):
            if call_attr(call) != "_finish_apply" or not isinstance(call.func, ast.Attribute):
                continue
            recv = src(call.func.value)
            inst = f"{fi.module.rel}:{fi.qualname}:{recv}._finish_apply"
            if recv == "super()":
                run.ok("R20.3", inst, {"why": "delegation to the base implementation"})
                continue
            if recv == "self" and fi.cls is not None and fi.cls in ctx.k.placeholders:
                run.ok("R20.3", inst, {"why": "placeholder's own pass-through"})
                continue
            allowed = dict(_BYPASS_OK.get((fi.module.rel, fi.qualname), {}))
            # locals are recognised by what they are bound to, not by their name
            recv_root = recv.split(".")[0]
            for n in ast.walk(fi.node):
                val = None
                if isinstance(n, ast.NamedExpr) and isinstance(n.target, ast.Name) and n.target.id == recv_root:
                    val = n.value
                elif isinstance(n, ast.Assign) and any(isinstance(t, ast.Name) and t.id == recv_root for t in n.targets):
                    val = n.value
                if isinstance(val, ast.Call) and call_attr(val) == "simplify" and recv == recv_root and "simplified" in allowed:
                    allowed[recv] = allowed["simplified"]
                if isinstance(val, ast.Call) and call_attr(val) == "commute" and recv == f"{recv_root}.second" and "commutator.second" in allowed:
                    allowed[recv] = allowed["commutator.second"]
                if isinstance(val, ast.Attribute) and val.attr == "operation" and recv == recv_root and src(val.value).endswith(".skip_to"):
                    allowed[recv] = "the operation of an existing node (read as an attribute instead of captured by a pattern)"
            if recv.endswith(".skip_to.operation"):
                allowed[recv] = "the operation of an existing node (read as an attribute chain)"
            # a pattern capture of the sanctioned parameter counts as that parameter
            root = recv
            if recv not in allowed:
                for n in ast.walk(fi.node):
                    if isinstance(n, ast.Match):
                        for case in n.cases:
                            from ..astutil import pattern_captures

                            caps = pattern_captures(case.pattern)
                            if recv in caps and any(x is call for b in case.body for x in ast.walk(b)):
                                subj = src(n.subject)
                                # `Chain() as chain` captured from an existing node's operation
                                root = subj if caps[recv] in ((), ("operation",)) else recv
                if root != recv and (root in allowed or root.endswith(".skip_to") or root == "operation"):
                    run.ok("R20.3", inst, {"why": f"captured from `{root}` (operation of an existing node / sanctioned parameter)"})
                    continue
                run.fail(
                    "R20.3",
                    inst,
                    f"`{src(call)[:80]}` builds a node without validation: receiver `{recv}` has no sanctioned provenance in {fi.qualname}",
                    fi=fi,
                    node=call,
                )
            else:
                run.ok("R20.3", inst, {"why": allowed[recv]})
