"""What a type checker would say about the package's own classes, without one.

Two rules over the source as written (not the model's canonicalised copy), resolved through the package model:

F30  every attribute read from a value whose class is known - `self`, a parameter annotated with a package class, an
     `as` capture or keyword capture of a class pattern, followed through annotated fields / properties - names
     something that class, one of its bases *or one of its subclasses* defines (the path may have narrowed the value).
F31  every call whose callee resolves to a function of the package - a method through `self`, through a value of known
     class, through the class itself, a module-level function, the constructor of a (data)class - passes arguments the
     signature accepts: not too many, no unknown keyword, none twice, none missing.

Both fail, in Python, only when the line is executed; in this code base the lines the test-suite does not execute are
the error paths and the rarely-combined options, where an AttributeError / TypeError replaces the documented behaviour.
Everything the rules cannot resolve is skipped (unknown external bases, unions of several classes, re-bound names,
`*args` / `**kwargs` at the call, decorators that may change a signature), so they are silent unless the mismatch is
certain.
"""

from __future__ import annotations

import ast

from ..astutil import AnalysisError, dotted, src
from ..model import ClassInfo, FunctionInfo, ModuleInfo
from ..props.common import Ctx

SAFE_EXTERNAL = {"ABC", "Generic", "Protocol", "Hashable", "object"}
SIGNATURE_NEUTRAL = {"abstractmethod", "final", "override", "cache", "lru_cache", "cached_getter", "immutable", "overload"}


class _Types:
    def __init__(self, ctx: Ctx):
        self.m = ctx.m
        self._defined: dict[ClassInfo, set[str] | None] = {}
        self._defined_down: dict[ClassInfo, set[str] | None] = {}
        # the model's copy of the sources has private helpers inlined away: what a class defines is read off the text
        self._raw: dict[tuple[str, str], set[str]] = {}
        for mod in self.m.modules.values():
            try:
                tree = ast.parse(mod.source)
            except SyntaxError:
                continue
            for n in tree.body:
                if isinstance(n, ast.ClassDef):
                    names: set[str] = set()
                    for x in n.body:
                        if isinstance(x, (ast.FunctionDef, ast.AsyncFunctionDef, ast.ClassDef)):
                            names.add(x.name)
                        elif isinstance(x, ast.AnnAssign) and isinstance(x.target, ast.Name):
                            names.add(x.target.id)
                        elif isinstance(x, ast.Assign):
                            names |= {t.id for t in x.targets if isinstance(t, ast.Name)}
                    for x in ast.walk(n):
                        if isinstance(x, ast.Attribute) and isinstance(x.ctx, ast.Store) and isinstance(x.value, ast.Name) and x.value.id in ("self", "cls"):
                            names.add(x.attr)
                    self._raw[(mod.rel, n.name)] = names

    # -- classes from annotations -------------------------------------------------------------------------------
    def ann_class(self, mod: ModuleInfo, ann: ast.expr | None, depth: int = 0) -> ClassInfo | None:
        if ann is None or depth > 4:
            return None
        if isinstance(ann, ast.Constant) and isinstance(ann.value, str):
            try:
                return self.ann_class(mod, ast.parse(ann.value, mode="eval").body, depth + 1)
            except SyntaxError:
                return None
        if isinstance(ann, (ast.Name, ast.Attribute)):
            d = dotted(ann)
            return self.m.resolve_class(mod, d) if d else None
        if isinstance(ann, ast.BinOp) and isinstance(ann.op, ast.BitOr):
            parts = []
            stack = [ann]
            while stack:
                x = stack.pop()
                if isinstance(x, ast.BinOp) and isinstance(x.op, ast.BitOr):
                    stack += [x.left, x.right]
                else:
                    parts.append(x)
            parts = [x for x in parts if not (isinstance(x, ast.Constant) and x.value is None)]
            if len(parts) == 1:
                return self.ann_class(mod, parts[0], depth + 1)
            return None
        if isinstance(ann, ast.Subscript) and (dotted(ann.value) or "").split(".")[-1] == "Optional":
            return self.ann_class(mod, ann.slice, depth + 1)
        return None

    # -- what a class defines -------------------------------------------------------------------------------------
    def _own(self, k: ClassInfo) -> set[str]:
        out = set(k.methods) | set(k.class_assigns) | set(k.own_annotations) | {f.name for f in k.own_fields} | self._raw.get((k.module.rel, k.name), set())
        for f in k.methods.values():
            for x in ast.walk(f.node):
                if isinstance(x, ast.Attribute) and isinstance(x.ctx, ast.Store) and isinstance(x.value, ast.Name) and x.value.id in ("self", "cls"):
                    out.add(x.attr)
                elif isinstance(x, ast.Call) and src(x.func) in ("object.__setattr__", "setattr") and len(x.args) >= 2 and isinstance(x.args[1], ast.Constant) and isinstance(x.args[1].value, str):
                    out.add(x.args[1].value)
        return out

    def closed(self, c: ClassInfo) -> bool:
        return all(b.split("[")[0].split(".")[-1] in SAFE_EXTERNAL for k in self.m.mro(c) for b in k.external_bases)

    def defined(self, c: ClassInfo) -> set[str] | None:
        """Names available on an instance of `c` or of any subclass; None when a class involved has bases we do not know."""
        if c not in self._defined_down:
            out: set[str] = set()
            ok = True
            family = [c] + [s for s in self.m.subclasses(c, strict=True)]
            if any(b.split("[")[0].split(".")[-1] == "Protocol" for b in c.external_bases):
                # a protocol is implemented structurally: every class that has all of its members may be behind it
                proto = {n for k in self.m.mro(c) for n in self._own(k) if not n.startswith("_")}
                for k in self.m.all_classes():
                    if k in family or k.module.rel.startswith("tests") or not self.closed(k):
                        continue
                    have: set[str] = set()
                    for b in self.m.mro(k):
                        have |= self._own(b)
                    if proto <= have:
                        family.append(k)
                        family += [s for s in self.m.subclasses(k, strict=True) if s not in family]
            for k in family:
                if not self.closed(k):
                    ok = False
                    break
                for b in self.m.mro(k):
                    out |= self._own(b)
            self._defined_down[c] = out if ok else None
        return self._defined_down[c]

    def attr_class(self, c: ClassInfo, attr: str) -> ClassInfo | None:
        for k in self.m.mro(c):
            if attr in k.methods:
                f = k.methods[attr]
                if f.is_property:
                    return self.ann_class(k.module, f.node.returns)
                return None
            for fl in k.own_fields:
                if fl.name == attr:
                    return self.ann_class(k.module, fl.annotation)
            if attr in k.own_annotations:
                return self.ann_class(k.module, k.own_annotations[attr].annotation)
            if attr in k.class_assigns:
                return None
        return None


def _functions(tree: ast.Module):
    """(class name | None, function node) for module-level functions and methods of module-level classes."""
    for n in tree.body:
        if isinstance(n, (ast.FunctionDef, ast.AsyncFunctionDef)):
            yield None, n
        elif isinstance(n, ast.ClassDef):
            for x in n.body:
                if isinstance(x, (ast.FunctionDef, ast.AsyncFunctionDef)):
                    yield n.name, x


def _stored_names(fn: ast.AST) -> dict[str, int]:
    """How often each plain name is bound inside the function (parameters not counted)."""
    out: dict[str, int] = {}

    def bump(n: str) -> None:
        out[n] = out.get(n, 0) + 1

    for x in ast.walk(fn):
        if isinstance(x, ast.Name) and isinstance(x.ctx, (ast.Store, ast.Del)):
            bump(x.id)
        elif isinstance(x, (ast.MatchAs, ast.MatchStar)) and x.name:
            bump(x.name)
        elif isinstance(x, ast.MatchMapping) and x.rest:
            bump(x.rest)
        elif isinstance(x, ast.ExceptHandler) and x.name:
            bump(x.name)
        elif isinstance(x, (ast.Import, ast.ImportFrom)):
            for a in x.names:
                bump((a.asname or a.name).split(".")[0])
        elif isinstance(x, (ast.FunctionDef, ast.AsyncFunctionDef, ast.ClassDef)) and x is not fn:
            bump(x.name)
            a = x.args if not isinstance(x, ast.ClassDef) else None
            if a is not None:
                for p in a.posonlyargs + a.args + a.kwonlyargs + ([a.vararg] if a.vararg else []) + ([a.kwarg] if a.kwarg else []):
                    bump(p.arg)  # a nested function's parameter of the same name is another variable: give up on the name
        elif isinstance(x, ast.Lambda):
            a = x.args
            for p in a.posonlyargs + a.args + a.kwonlyargs + ([a.vararg] if a.vararg else []) + ([a.kwarg] if a.kwarg else []):
                bump(p.arg)
        elif isinstance(x, ast.comprehension):
            pass  # targets are Name(Store): counted above
    return out


def _typed_names(ty: _Types, mod: ModuleInfo, cname: str | None, fn: ast.FunctionDef) -> dict[str, ClassInfo]:
    stored = _stored_names(fn)
    env: dict[str, ClassInfo] = {}
    a = fn.args
    params = a.posonlyargs + a.args + a.kwonlyargs
    decos = {(dotted(d) or "").split(".")[-1] for d in fn.decorator_list}
    for i, p in enumerate(params):
        if stored.get(p.arg):
            continue
        c = None
        if i == 0 and cname is not None and p.arg == "self" and "staticmethod" not in decos and "classmethod" not in decos:
            c = mod.classes.get(cname)
        else:
            c = ty.ann_class(mod, p.annotation)
        if c is not None:
            env[p.arg] = c
    pnames = {p.arg for p in params}
    for x in ast.walk(fn):
        if isinstance(x, ast.MatchAs) and x.name and isinstance(x.pattern, ast.MatchClass) and stored.get(x.name) == 1 and x.name not in pnames:
            d = dotted(x.pattern.cls)
            c = ty.m.resolve_class(mod, d) if d else None
            if c is not None:
                env[x.name] = c
        if isinstance(x, ast.MatchClass) and not x.patterns:
            d = dotted(x.cls)
            c = ty.m.resolve_class(mod, d) if d else None
            if c is None:
                continue
            for attr, sub in zip(x.kwd_attrs, x.kwd_patterns):
                if isinstance(sub, ast.MatchAs) and sub.pattern is None and sub.name and stored.get(sub.name) == 1 and sub.name not in pnames:
                    t = ty.attr_class(c, attr)
                    if t is not None:
                        env[sub.name] = t
    return env


def _chain(e: ast.Attribute) -> tuple[str, list[str]] | None:
    attrs: list[str] = []
    cur: ast.expr = e
    while isinstance(cur, ast.Attribute):
        attrs.append(cur.attr)
        cur = cur.value
    if isinstance(cur, ast.Name):
        return cur.id, list(reversed(attrs))
    return None


def r_typed_attributes(ctx: Ctx, rule: str) -> None:
    run, m = ctx.run, ctx.m
    run.rule(
        rule,
        "every attribute read from a value of known package class (`self`, an annotated parameter, a class-pattern "
        "capture; followed through annotated fields and properties) is defined by that class, a base or a subclass: a "
        "name nothing in the hierarchy has is an AttributeError on the first execution of the line - on an error path, "
        "instead of the documented exception",
        expected_min=300,
    )
    ty = _Types(ctx)
    n = 0
    for mod in m.modules.values():
        if mod.rel.startswith("tests"):
            continue
        tree = ast.parse(mod.source, filename=mod.path)
        for cname, fn in _functions(tree):
            env = _typed_names(ty, mod, cname, fn)
            if not env:
                continue
            inner: set[int] = set()
            for x in ast.walk(fn):
                if not isinstance(x, ast.Attribute) or id(x) in inner:
                    continue
                v = x.value
                while isinstance(v, ast.Attribute):
                    inner.add(id(v))
                    v = v.value
                ch = _chain(x)
                if ch is None or ch[0] not in env:
                    continue
                t: ClassInfo | None = env[ch[0]]
                path = ch[0]
                for attr in ch[1]:
                    if t is None or (attr.startswith("__") and attr.endswith("__")):
                        break
                    names = ty.defined(t)
                    if names is None:
                        break
                    n += 1
                    if attr not in names:
                        # a store creates the attribute
                        if isinstance(x.ctx, ast.Store) and attr == ch[1][-1]:
                            break
                        run.fail(
                            rule,
                            f"{mod.rel}:{(cname + '.') if cname else ''}{fn.name}:{path}.{attr}",
                            f"`{path}.{attr}`: `{path}` is a {t.name} here, and neither {t.name} nor any of its bases or subclasses defines `{attr}`: the line raises AttributeError whenever it is executed",
                            file=mod.path,
                            line=x.lineno,
                            func=f"{(cname + '.') if cname else ''}{fn.name}",
                        )
                        break
                    t = ty.attr_class(t, attr)
                    path = f"{path}.{attr}"
    run.rules[rule].instances += n
    if n < 300:
        raise AnalysisError(f"only {n} typed attribute reads were resolved; the type environment no longer sees the annotations")
    run.ok(rule, "resolved-reads", {"count": n})


# ------------------------------------------------------------------------------------------------------ call arity


def _signature(fn: ast.FunctionDef, drop_first: bool):
    a = fn.args
    pos = [p.arg for p in a.posonlyargs + a.args]
    posonly = {p.arg for p in a.posonlyargs}
    n_def = len(a.defaults)
    required = set(pos[: len(pos) - n_def]) if n_def else set(pos)
    if drop_first and pos:
        required.discard(pos[0])
        posonly.discard(pos[0])
        pos = pos[1:]
    kwonly = [p.arg for p in a.kwonlyargs]
    for p, d in zip(a.kwonlyargs, a.kw_defaults):
        if d is None:
            required.add(p.arg)
    return {"pos": pos, "posonly": posonly, "kwonly": kwonly, "required": required, "vararg": a.vararg is not None, "kwarg": a.kwarg is not None}


def _bind_problem(sig: dict, call: ast.Call) -> str | None:
    starred = any(isinstance(x, ast.Starred) for x in call.args)
    dstar = any(k.arg is None for k in call.keywords)
    npos = sum(1 for x in call.args if not isinstance(x, ast.Starred))
    if not sig["vararg"] and npos > len(sig["pos"]):
        return f"{npos} positional arguments where at most {len(sig['pos'])} are accepted"
    seen: set[str] = set()
    accepted = (set(sig["pos"]) - sig["posonly"]) | set(sig["kwonly"])
    for k in call.keywords:
        if k.arg is None:
            continue
        if k.arg in seen:
            return f"keyword `{k.arg}` given twice"
        seen.add(k.arg)
        if k.arg not in accepted and not sig["kwarg"]:
            return f"unexpected keyword argument `{k.arg}`"
        if not starred and k.arg in sig["pos"][:npos]:
            return f"`{k.arg}` is given both by position and by keyword"
    if not starred and not dstar:
        bound = set(sig["pos"][:npos]) | seen
        missing = [p for p in sig["pos"] + sig["kwonly"] if p in sig["required"] and p not in bound]
        if missing:
            return f"required argument{'s' if len(missing) > 1 else ''} {', '.join('`' + x + '`' for x in missing)} not given"
    return None


def _dataclass_signature(m, c: ClassInfo) -> dict | None:
    fields: dict[str, object] = {}
    for k in reversed(m.mro(c)):
        if not k.is_dataclass:
            if k.own_fields:
                return None
            continue
        kw_all = bool((k.dataclass_kwargs or {}).get("kw_only"))
        for f in k.own_fields:
            if f.is_classvar:
                continue
            fields[f.name] = (f, kw_all)
    pos, kwonly, required = [], [], set()
    for name, (f, kw_all) in fields.items():
        if not f.flag("init", True):
            continue
        if f.flag("kw_only", kw_all):
            kwonly.append(name)
        else:
            pos.append(name)
        if not f.has_default:
            required.add(name)
    # a KW_ONLY sentinel changes what follows; give up on classes that use it
    for k in m.mro(c):
        for node in k.node.body:
            if isinstance(node, ast.AnnAssign) and "KW_ONLY" in src(node.annotation):
                return None
    return {"pos": pos, "posonly": set(), "kwonly": kwonly, "required": required, "vararg": False, "kwarg": False}


def r_call_arity(ctx: Ctx, rule: str) -> None:
    run, m = ctx.run, ctx.m
    run.rule(
        rule,
        "every call that resolves to a function, method or (data)class constructor of the package passes arguments its "
        "signature accepts (count, keyword names, nothing twice, nothing required missing): a mismatch is a TypeError on "
        "the first execution of the line - a signature changed with one caller on an untested path left behind",
        expected_min=150,
    )
    ty = _Types(ctx)
    n = 0

    def neutral(f: FunctionInfo) -> bool:
        return all(d.split(".")[-1] in SIGNATURE_NEUTRAL | {"classmethod", "staticmethod", "property"} for d in f.decorators)

    def method_sig(f: FunctionInfo, through_instance: bool) -> dict | None:
        if f.is_property or not neutral(f):
            return None
        if f.is_staticmethod:
            return _signature(f.node, False)
        if f.is_classmethod:
            return _signature(f.node, True)
        if through_instance:
            return _signature(f.node, True)
        return _signature(f.node, False)  # plain function reached through the class: nothing is bound

    def ctor_sig(c: ClassInfo) -> dict | None:
        if not ty.closed(c):
            return None
        for k in m.mro(c):
            if "__init__" in k.methods:
                f = k.methods["__init__"]
                return _signature(f.node, True) if neutral(f) else None
            if "__new__" in k.methods:
                return None
        if c.is_dataclass:
            return _dataclass_signature(m, c)
        if any(k.is_dataclass for k in m.mro(c)):
            return None
        return {"pos": [], "posonly": set(), "kwonly": [], "required": set(), "vararg": False, "kwarg": False}

    for mod in m.modules.values():
        if mod.rel.startswith("tests"):
            continue
        tree = ast.parse(mod.source, filename=mod.path)
        for cname, fn in _functions(tree):
            env = _typed_names(ty, mod, cname, fn)
            stored = _stored_names(fn)
            pnames = {p.arg for p in fn.args.posonlyargs + fn.args.args + fn.args.kwonlyargs} | ({fn.args.vararg.arg} if fn.args.vararg else set()) | ({fn.args.kwarg.arg} if fn.args.kwarg else set())
            cur_cls = mod.classes.get(cname) if cname else None
            for call in [x for x in ast.walk(fn) if isinstance(x, ast.Call)]:
                f = call.func
                sig = None
                what = None
                if isinstance(f, ast.Name):
                    if f.id in stored or f.id in pnames:
                        continue
                    c = m.resolve_class(mod, f.id)
                    if c is not None:
                        sig, what = ctor_sig(c), f"{c.name}(...)"
                    else:
                        g = m.resolve_function(mod, f.id)
                        if g is not None and neutral(g):
                            sig, what = _signature(g.node, False), f"{g.name}(...)"
                elif isinstance(f, ast.Attribute):
                    base = f.value
                    if isinstance(base, ast.Name) and base.id in env:
                        c = env[base.id]
                        g = m.method(c, f.attr)
                        if g is not None and ty.closed(c):
                            # an attribute of the same name defined as data somewhere below would shadow the method
                            sig, what = method_sig(g, True), f"{c.name}.{f.attr}(...)"
                    elif isinstance(base, ast.Name) and base.id == "cls" and cur_cls is not None and not stored.get("cls"):
                        g = m.method(cur_cls, f.attr)
                        if g is not None:
                            sig, what = method_sig(g, False) if not g.is_classmethod else _signature(g.node, True), f"{cur_cls.name}.{f.attr}(...)"
                            if g.is_property:
                                sig = None
                    elif isinstance(base, ast.Name) and base.id not in stored and base.id not in pnames:
                        c = m.resolve_class(mod, base.id)
                        if c is not None:
                            g = m.method(c, f.attr)
                            if g is not None:
                                sig, what = method_sig(g, False), f"{c.name}.{f.attr}(...)"
                    elif isinstance(base, ast.Call) and isinstance(base.func, ast.Name) and base.func.id == "super" and not base.args and cur_cls is not None:
                        for k in m.mro(cur_cls)[1:]:
                            if f.attr in k.methods:
                                g = k.methods[f.attr]
                                decos = {(dotted(d) or "").split(".")[-1] for d in fn.decorator_list}
                                through_instance = "classmethod" not in decos and "staticmethod" not in decos
                                sig, what = (method_sig(g, True) if through_instance or g.is_classmethod else None), f"super().{f.attr}(...)"
                                break
                if sig is None:
                    continue
                n += 1
                inst = f"{mod.rel}:{(cname + '.') if cname else ''}{fn.name}:{what}@{call.lineno - fn.lineno}"
                problem = _bind_problem(sig, call)
                if problem:
                    run.fail(
                        rule,
                        inst,
                        f"`{src(call)[:80]}` does not fit the signature of {what}: {problem} - a TypeError whenever the line is executed",
                        file=mod.path,
                        line=call.lineno,
                        func=f"{(cname + '.') if cname else ''}{fn.name}",
                    )
                else:
                    run.ok(rule, inst)
    if n < 150:
        raise AnalysisError(f"only {n} calls were resolved to package callables; the resolver no longer sees the package")
