"""SQL emission rules: R02.2 join payload provenance, R02.3 hoisted projection, R02.4 compound handling,
R02.5 emission coverage."""

from __future__ import annotations

import ast

from ..astutil import AnalysisError, call_attr, dotted, iter_calls, kw, src
from ..facts import Fact, has_fact, path_facts
from ..flow import backward_slice, case_index, path_calls
from ..paths import Path, env_at, resolve_name
from ..props.common import SQL_ENGINE, SQL_SELECT, Ctx, describe


def _join_paths(ctx: Ctx, f, subject: str) -> list[tuple[int, Path]]:
    out = []
    for p in ctx.paths(f):
        for i, s in enumerate(p.steps):
            if s.kind == "case" and s.value and src(s.subject) == subject and "Join" in src(s.node.pattern):  # type: ignore[union-attr]
                out.append((i, p))
                break
    return out


def r02_2_join_payload(ctx: Ctx, rule: str = "R02.2") -> None:
    run, m = ctx.run, ctx.m
    run.rule(
        rule,
        "join payload provenance: the joined Payload draws from_clause, where and columns_available from both operand "
        "payloads, equates every common column, includes the predicate; and a projection stripped from an operand can never "
        "shadow a real column of the other operand (hidden columns disjoint, or the Select kept as a subquery)",
        expected_min=8,
    )
    f = m.func(SQL_ENGINE, "Engine.to_payload")
    rel = [p for p in f.params if p != "self"][0]
    jp = [(i, p) for i, p in _join_paths(ctx, f, rel) if p.outcome == "return"]
    if not jp:
        raise AnalysisError("to_payload has no returning path through a Join arm")
    reported: set[str] = set()
    for idx, p in jp:
        v = p.value
        if isinstance(v, ast.Name):
            v = resolve_name(p, v.id)
        if not (isinstance(v, ast.Call) and (dotted(v.func) or "").split("[")[0].split(".")[-1] == "Payload"):
            raise AnalysisError(f"to_payload's Join arm returns `{src(p.value)[:50]}`, not a Payload construction")
        env = env_at(p)
        # names bound to to_payload(<captured operand>)
        operands: dict[str, str] = {}
        for name, b in env.items():
            if isinstance(b, ast.Call) and call_attr(b) == "to_payload" and b.args:
                from ..flow import field_access

                fa = field_access(p, b.args[0])
                if fa is not None and fa[0] == rel and fa[1] in (("lhs",), ("rhs",)):
                    operands[fa[1][0]] = name
        if set(operands) != {"lhs", "rhs"}:
            raise AnalysisError("to_payload's Join arm does not compute a payload for both captured operands")
        lp, rp = operands["lhs"], operands["rhs"]
        for field, argpos in (("from_clause", 0), ("where", 1), ("columns_available", 2)):
            a = kw(v, field) or (v.args[argpos] if argpos < len(v.args) else None)
            inst = f"join:{field}:both-operands"
            if a is None:
                if inst not in reported:
                    reported.add(inst)
                    run.fail(rule, inst, f"the joined Payload is built without `{field}`", fi=f, node=v)
                continue
            sl = backward_slice(p, [a], start=idx)
            ok = sl.reads(lp, field) and sl.reads(rp, field)
            if ok:
                run.ok(rule, inst, {"expr": src(a)[:80]})
            elif inst not in reported:
                reported.add(inst)
                missing = [x for x, nm in (("lhs", lp), ("rhs", rp)) if not sl.reads(nm, field)]
                run.fail(rule, inst, f"`{field}` of the joined Payload does not draw on the {'/'.join(missing)} operand's {field} (its rows/filters would be lost)", fi=f, node=v, details=describe(p))
        # the ON clause is always an explicit SQL expression (None makes SQLAlchemy look for foreign keys)
        fc = kw(v, "from_clause") or (v.args[0] if v.args else None)
        for jc in [n for n in ast.walk(fc) if isinstance(n, ast.Call) and call_attr(n) == "join"] if fc is not None else []:
            oc = kw(jc, "onclause") or (jc.args[1] if len(jc.args) > 1 else None)
            ob = resolve_name(p, oc.id) if isinstance(oc, ast.Name) else oc
            inst = "join:on-clause:explicit"
            if ob is None or (isinstance(ob, ast.Constant) and ob.value is None):
                if inst not in reported:
                    reported.add(inst)
                    run.fail(rule, inst, "the JOIN is emitted without an explicit ON clause on some path (onclause=None): SQLAlchemy then tries to infer one from foreign keys and a join without common columns and predicate cannot be compiled", fi=f, node=jc, details=describe(p))
            else:
                run.ok(rule, inst)
        # ON clause: equality of every common column from both payloads, and the predicate
        a = kw(v, "from_clause") or (v.args[0] if v.args else None)
        sl = backward_slice(p, [a], start=idx, control=False)
        txt = " ".join(src(e) for e in sl.exprs)
        eq_ok = any(
            isinstance(n, ast.Compare) and len(n.ops) == 1 and isinstance(n.ops[0], ast.Eq)
            and {src(n.left).split("[")[0], src(n.comparators[0]).split("[")[0]} == {f"{lp}.columns_available", f"{rp}.columns_available"}
            and src(n.left).split("[", 1)[1] == src(n.comparators[0]).split("[", 1)[1]
            for e in sl.exprs for n in ast.walk(e)
        )
        from ..astutil import pattern_captures

        jcaps = pattern_captures(p.steps[idx].node.pattern)  # type: ignore[union-attr]
        from ..flow import field_access as _fa

        def _is_common(e: ast.AST) -> bool:
            # the join operation's own `common_columns` (resolved at construction), not a set recomputed from the operands
            fa = _fa(p, e)
            return fa is not None and fa[0] == rel and fa[1][-1:] == ("common_columns",) and "operation" in fa[1]

        loops_common = any(isinstance(n, ast.comprehension) and _is_common(n.iter) for e in sl.exprs for n in ast.walk(e))
        truths = [fct.args[0] for fct in path_facts(p) if fct.kind == "TRUTH" and fct.polarity]
        has_loop_path = any(_is_common(ast.parse(t, mode="eval").body) for t in truths if t.replace(".", "").replace("_", "").isalnum())
        if not has_loop_path and any(isinstance(n, ast.comprehension) and "columns" in src(n.iter) for e in sl.exprs for n in ast.walk(e)) and not loops_common and truths:
            has_loop_path = True  # equality terms are built from some other column set: decided (and refused) below
        # a list that received terms on this path cannot be tested empty afterwards: such paths are not real executions
        extended = {src(c.func.value) for _, c in path_calls(p, idx) if call_attr(c) in ("extend", "append") and isinstance(c.func, ast.Attribute)}
        if any(fct.kind == "TRUTH" and not fct.polarity and fct.args[0] in extended for fct in path_facts(p)):
            continue
        inst = "join:on-clause:common-columns"
        if has_loop_path:
            if eq_ok and loops_common:
                run.ok(rule, inst)
            elif inst not in reported:
                reported.add(inst)
                run.fail(rule, inst, "the ON clause does not equate every common column of the two operand payloads", fi=f, node=v, details=describe(p))
        inst = "join:on-clause:predicate"
        nontrivial = any(fct.kind == "IS" and "as_trivial()" in " ".join(fct.args) and "True" in fct.args and not fct.polarity for fct in path_facts(p))
        if nontrivial:
            # the predicate is converted against a mapping that, *at that moment*, holds the columns of both operands
            conv = [(j, c) for j, c in path_calls(p, idx) if call_attr(c) in ("convert_flattened_predicate", "convert_predicate") and len(c.args) >= 2]
            incomplete = None
            for j, c in conv:
                marg = c.args[1]
                texts = [src(marg)]
                if isinstance(marg, ast.Name):
                    b = env_at(p, j).get(marg.id)
                    if isinstance(b, ast.AST):
                        texts = [src(b)]
                    for jj, cc in path_calls(p, idx):
                        if jj < j and call_attr(cc) in ("update", "__ior__") and isinstance(cc.func, ast.Attribute) and src(cc.func.value) == marg.id:
                            texts.extend(src(a) for a in cc.args)
                    for st in p.steps[idx:j]:
                        if st.kind == "stmt" and isinstance(st.node, ast.AugAssign) and src(st.node.target) == marg.id:
                            texts.append(src(st.node.value))
                joined = " ".join(texts)
                if not (f"{lp}.columns_available" in joined and f"{rp}.columns_available" in joined):
                    incomplete = (c, [s for s in (lp, rp) if f"{s}.columns_available" not in joined])
            if incomplete is not None and inst not in reported:
                reported.add(inst)
                run.fail(rule, inst, f"the join predicate is converted against a mapping that does not yet hold the columns of {'/'.join(incomplete[1])} at that point: a predicate on a column only that operand has fails with a missing-column lookup at compile time", fi=f, node=incomplete[0], details=describe(p))
            elif incomplete is not None:
                pass
            elif "convert_flattened_predicate" in txt or "convert_predicate" in txt:
                run.ok(rule, inst)
            elif inst not in reported:
                reported.add(inst)
                run.fail(rule, inst, "a non-trivial join predicate does not reach the ON clause", fi=f, node=v, details=describe(p))

    for inst, what in (("join:on-clause:common-columns", "equality of the common columns"), ("join:on-clause:predicate", "the join predicate")):
        st = run.rules[rule]
        if inst not in st.nontrivial:
            run.fail(rule, inst, f"no path through to_payload's Join arm puts {what} into the ON clause", fi=f)
    # ---- key-exactness of the merged mapping: stripped projections must not shadow real columns
    g = m.func(SQL_ENGINE, "Engine._append_binary_to_select")
    gp = [p for p in g.params if p != "self"]
    opn, lhs, rhs = gp[0], gp[1], gp[2]
    strips: dict[str, tuple[str, str]] = {}
    for n in ast.walk(g.node):
        if isinstance(n, ast.Assign) and isinstance(n.value, ast.Call) and call_attr(n.value) == "strip" and isinstance(n.targets[0], ast.Tuple) and len(n.targets[0].elts) == 2:
            recv = src(n.value.func.value)  # type: ignore[union-attr]
            strips[recv] = (src(n.targets[0].elts[0]), src(n.targets[0].elts[1]))
    strip_removes_projection = _strip_can_remove_projection(ctx)
    jpaths = [(i, p) for i, p in _join_paths(ctx, g, opn) if p.outcome == "return"]
    if not jpaths:
        raise AnalysisError("_append_binary_to_select has no returning Join arm")
    agg: dict[str, list[Path]] = {}
    good: dict[str, int] = {}
    for idx, p in jpaths:
        fin = [c for _, c in path_calls(p, idx) if call_attr(c) == "_finish_apply"]
        if not fin or len(fin[0].args) != 2:
            raise AnalysisError("the Join arm of _append_binary_to_select does not call _finish_apply(lhs, rhs)")
        for pos, (side, other) in enumerate(((lhs, rhs), (rhs, lhs))):
            a = fin[0].args[pos]
            inst = f"join-operand:{side}:hidden-columns"
            b = _resolve_deep(p, a)
            stripped = isinstance(b, tuple) and b[0] == "unpack" and isinstance(b[1], ast.Call) and call_attr(b[1]) == "strip" and b[2] == 0
            if not stripped or not strip_removes_projection:
                good[inst] = good.get(inst, 0) + 1
                continue
            new, needs = strips.get(side, (src(a), ""))
            facts = path_facts(p)
            hidden = {f"{new}.columns - {side}.columns", f"({new}.columns - {side}.columns)"}

            def discharges(fct: Fact) -> bool:
                if fct.kind == "DISJOINT" and fct.polarity and (set(fct.args) & hidden) and f"{other}.columns" in fct.args:
                    return True
                if fct.kind == "TRUTH" and fct.args == (needs,) and not fct.polarity:
                    return True
                if fct.kind == "OR" and fct.parts:
                    return all(any(discharges(x) for x in alt) for alt in fct.parts)
                return False

            ok = any(discharges(fct) for fct in facts)
            if ok:
                good[inst] = good.get(inst, 0) + 1
            else:
                agg.setdefault(inst, []).append(p)
    for inst in sorted(set(good) | set(agg)):
        if inst in agg:
            p = agg[inst][0]
            side = inst.split(":")[1]
            run.fail(
                rule,
                inst,
                f"the projection stripped from join operand `{side}` exposes its hidden columns in the merged column mapping; "
                "when one has the same tag as a column of the other operand, the result column is read from the wrong table "
                "(no guard establishes that the hidden columns are disjoint from the other operand's columns, and the Select "
                "is not kept as a subquery)",
                fi=g,
                node=p.node,
                details=describe(p),
            )
        else:
            run.ok(rule, inst, {"paths": good[inst]})


def _all_alternatives(facts: list[Fact]) -> list[Fact]:
    out = []
    for f in facts:
        if f.kind == "OR":
            for alt in f.parts:
                out.extend(_all_alternatives(list(alt)))
        else:
            out.append(f)
    return out


def _resolve_deep(p: Path, a: ast.expr):
    if isinstance(a, ast.Name):
        cur = a.id
        for _ in range(8):
            b = env_at(p).get(cur)
            if isinstance(b, ast.Name):
                cur = b.id
                continue
            return b if b is not None else ast.Name(cur, ast.Load())
    return a


def _strip_can_remove_projection(ctx: Ctx) -> bool:
    strip = ctx.m.func(SQL_SELECT, "Select.strip")
    for p in ctx.paths(strip):
        v = p.value
        if p.outcome == "return" and isinstance(v, ast.Tuple) and len(v.elts) == 2 and src(v.elts[0]) != "self":
            if not (isinstance(v.elts[1], ast.Constant) and v.elts[1].value is False):
                return True
    return False


def r02_3_hoisted_projection(ctx: Ctx, rule: str = "R02.3") -> None:
    run, m = ctx.run, ctx.m
    run.rule(
        rule,
        "hoisted projection: if either operand's projection was stripped, the joined Select gets "
        "Projection(lhs.columns | rhs.columns) computed from the un-stripped operands; otherwise none",
        expected_min=3,
    )
    g = m.func(SQL_ENGINE, "Engine._append_binary_to_select")
    gp = [p for p in g.params if p != "self"]
    opn, lhs, rhs = gp[0], gp[1], gp[2]
    # names that carry the needs-projection flag of an operand: the second result of <operand>.strip() and its copies
    origin: dict[str, set[str]] = {}
    for n in ast.walk(g.node):
        if isinstance(n, ast.Assign) and isinstance(n.value, ast.Call) and call_attr(n.value) == "strip" and isinstance(n.targets[0], ast.Tuple) and isinstance(n.value.func, ast.Attribute):
            origin.setdefault(src(n.targets[0].elts[1]), set()).add(src(n.value.func.value))
    changed = True
    while changed:
        changed = False
        for n in ast.walk(g.node):
            if not isinstance(n, ast.Assign) or len(n.targets) != 1:
                continue
            pairs = []
            t, v = n.targets[0], n.value
            if isinstance(t, ast.Name):
                pairs.append((t, v))
            elif isinstance(t, ast.Tuple) and isinstance(v, ast.Tuple) and len(t.elts) == len(v.elts):
                pairs.extend(zip(t.elts, v.elts))
            for tt, vv in pairs:
                if isinstance(tt, ast.Name) and isinstance(vv, ast.Name) and vv.id in origin and not origin[vv.id] <= origin.get(tt.id, set()):
                    origin.setdefault(tt.id, set()).update(origin[vv.id])
                    changed = True
    seen = set()
    for idx, p in _join_paths(ctx, g, opn):
        if p.outcome != "return":
            continue
        v = p.value
        if not (isinstance(v, ast.Call) and call_attr(v) == "apply_skip"):
            raise AnalysisError("the Join arm of _append_binary_to_select does not return Select.apply_skip(...)")
        pr = kw(v, "projection")
        b = _resolve_deep(p, pr) if pr is not None else None
        from ..astutil import names_read

        # the decision: one test of both flags together (`if a or b`), or one plain test per flag (`if a: ... if b: ...`)
        from ..facts import step_facts

        joint = [st for st in p.steps[idx:] if st.kind == "cond" and {lhs, rhs} <= set().union(*[origin[x] for x in names_read(st.node) if x in origin])]
        if joint:
            needs = [x for x in names_read(joint[-1].node) if x in origin]
            dfacts = step_facts(joint[-1])
            none_needed = all(any(fct.kind == "TRUTH" and fct.args == (n,) and not fct.polarity for fct in dfacts) for n in needs)
            any_needed = not none_needed
        else:
            states: dict[str, bool] = {}
            for st in p.steps[idx:]:
                if st.kind != "cond":
                    continue
                t = st.node
                pol = st.value
                while isinstance(t, ast.UnaryOp) and isinstance(t.op, ast.Not):
                    t, pol = t.operand, not pol
                if isinstance(t, ast.Name) and t.id in origin and len(origin[t.id]) == 1:
                    states[next(iter(origin[t.id]))] = bool(pol)
            if set(states) != {lhs, rhs}:
                raise AnalysisError("the Join arm no longer decides the hoisted projection from the strip() results")
            any_needed = any(states.values())
            none_needed = not any_needed
        if any_needed and not none_needed:
            inst = "join:projection-hoisted"
            ok = isinstance(b, ast.Call) and (dotted(b.func) or "").split(".")[-1] == "Projection" and b.args
            if ok:
                from ..astutil import chains_read

                chs = chains_read(b.args[0])
                ok = (lhs, "columns") in chs and (rhs, "columns") in chs and any(isinstance(n, ast.BinOp) and isinstance(n.op, ast.BitOr) for n in ast.walk(b.args[0]))
                ok = ok and not any(c[-1] == "columns" and c[0] not in (lhs, rhs) for c in chs)
            if ok:
                run.ok(rule, inst, {"projection": src(b)})
            elif inst not in seen:
                seen.add(inst)
                run.fail(rule, inst, f"an operand's projection was stripped but the joined Select's projection is `{src(b)}`, not Projection(<lhs>.columns | <rhs>.columns) of the un-stripped operands", fi=g, node=p.node, details=describe(p))
        elif none_needed:
            inst = "join:no-projection"
            if b is None or (isinstance(b, ast.Constant) and b.value is None):
                run.ok(rule, inst)
            elif inst not in seen:
                seen.add(inst)
                run.fail(rule, inst, f"no projection was stripped but the joined Select gets `{src(b)}`", fi=g, node=p.node)
        fin = [c for _, c in path_calls(p, idx) if call_attr(c) == "_finish_apply"]
        if fin and isinstance(fin[0].func, ast.Attribute) and src(fin[0].func.value) == opn:
            run.ok(rule, "join:finish-apply-on-operation")
        else:
            run.fail(rule, "join:finish-apply-on-operation", "the join node is not built by the validated operation's _finish_apply", fi=g, node=p.node)


def r02_4_compound(ctx: Ctx, rule: str = "R02.4") -> None:
    run, m = ctx.run, ctx.m
    run.rule(
        rule,
        "compound handling: chain operands with a slice are wrapped in a fresh Select before the UNION; DISTINCT is emitted "
        "as UNION (vs UNION ALL) on the compound path and as .distinct() on the plain path, exactly when the Select "
        "has a deduplication",
        expected_min=6,
    )
    g = m.func(SQL_ENGINE, "Engine._append_binary_to_select")
    gp = [p for p in g.params if p != "self"]
    opn, lhs, rhs = gp[0], gp[1], gp[2]
    n = 0
    for p in ctx.paths(g):
        idx = case_index(p, "Chain", opn)
        if idx < 0 or p.outcome != "return":
            continue
        n += 1
        fin = [c for _, c in path_calls(p, idx) if call_attr(c) == "_finish_apply"]
        if not fin or len(fin[0].args) != 2:
            raise AnalysisError("the Chain arm does not call _finish_apply(lhs, rhs)")
        facts = path_facts(p, versioned=False)
        for pos, side in enumerate((lhs, rhs)):
            a = fin[0].args[pos]
            b = _resolve_deep(p, a)
            sliced = has_fact(facts, "TRUTH", (f"{side}.has_slice",), True)
            wrapped = isinstance(b, ast.Call) and call_attr(b) == "apply_skip" and b.args and src(b.args[0]) == side and not b.keywords
            inst = f"chain:{side}:{'sliced' if sliced else 'plain'}"
            if sliced and not wrapped:
                run.fail(rule, inst, f"chain operand `{side}` has a slice but is put into the UNION without being wrapped in a subquery Select", fi=g, node=p.node, details=describe(p))
            elif not sliced and not (isinstance(b, ast.Name) and b.id == side) and not wrapped:
                run.fail(rule, inst, f"chain operand `{side}` is replaced by `{src(b)}`", fi=g, node=p.node)
            else:
                run.ok(rule, inst)
        ok_order = [src(a) for a in fin[0].args] == [lhs, rhs]
        if ok_order:
            run.ok(rule, "chain:operand-order")
        else:
            run.fail(rule, "chain:operand-order", "chain operands are swapped when the UNION node is built", fi=g, node=fin[0])
    if n == 0:
        raise AnalysisError("_append_binary_to_select has no Chain arm")
    for side in (lhs, rhs):
        if f"chain:{side}:sliced" not in run.rules[rule].nontrivial:
            run.fail(rule, f"chain:{side}:sliced", f"chain operand `{side}` is never wrapped in a subquery Select when it has a slice (its LIMIT/OFFSET would apply to the whole UNION or be lost)", fi=g)
    f = m.func(SQL_ENGINE, "Engine._select_to_executable")
    sel = [p for p in f.params if p != "self"][0]
    seen: set[str] = set()
    for p in ctx.paths(f):
        if p.outcome != "return":
            continue
        facts = path_facts(p)
        compound = any(s.kind == "case" and s.value and "Chain" in src(s.node.pattern) for s in p.steps)  # type: ignore[union-attr]
        ddp = has_fact(facts, "TRUTH", (f"{sel}.has_deduplication",), True)
        noddp = has_fact(facts, "TRUTH", (f"{sel}.has_deduplication",), False)
        calls = [call_attr(c) for _, c in path_calls(p)]
        full = [(dotted(c.func) or "") for _, c in path_calls(p)]
        if compound:
            u, ua = any(x.endswith(".union") or x == "union" for x in full), any(x.endswith("union_all") for x in full)
            inst = f"emit:compound:{'ddp' if ddp else 'noddp'}"
            ok = (ddp and u and not ua) or (noddp and ua and not u)
            if ok:
                run.ok(rule, inst)
            elif inst not in seen:
                seen.add(inst)
                run.fail(rule, inst, f"compound Select {'with' if ddp else 'without'} deduplication is emitted with {'UNION' if u else ''}{' UNION ALL' if ua else ''}", fi=f, node=p.node, details=describe(p, 14))
            # both operands, in order
            for _, c in path_calls(p):
                nm = dotted(c.func) or ""
                if nm.endswith(("union", "union_all")):
                    args = [_resolve_deep(p, a) for a in c.args]
                    okb = len(args) == 2 and all(isinstance(x, ast.Call) and call_attr(x) == "_select_to_executable" for x in args)
                    if okb:
                        caps = []
                        for x in args:
                            a0 = x.args[0]
                            while isinstance(a0, ast.Call) and call_attr(a0) == "cast":
                                a0 = a0.args[1]
                            caps.append(env_at(p).get(a0.id) if isinstance(a0, ast.Name) else None)
                        okb = [c2[2] for c2 in caps if isinstance(c2, tuple)] == [("lhs",), ("rhs",)]
                    if okb:
                        run.ok(rule, "emit:compound:both-operands")
                    elif "emit:compound:both-operands" not in seen:
                        seen.add("emit:compound:both-operands")
                        run.fail(rule, "emit:compound:both-operands", "the UNION is not built from the executables of the chain's lhs and rhs, in that order", fi=f, node=c)
        else:
            inst = f"emit:plain:{'ddp' if ddp else 'noddp'}"
            has_distinct = "distinct" in calls
            ok = (ddp and has_distinct) or (noddp and not has_distinct)
            if ok:
                run.ok(rule, inst)
            elif inst not in seen:
                seen.add(inst)
                run.fail(rule, inst, f"plain Select {'with' if ddp else 'without'} deduplication is emitted {'with' if has_distinct else 'without'} DISTINCT", fi=f, node=p.node, details=describe(p, 14))


def r02_5_emission_coverage(ctx: Ctx, rule: str = "R02.5") -> None:
    run, m = ctx.run, ctx.m
    run.rule(
        rule,
        "emission coverage: the emitted SELECT reads the Select's columns, the payload's from_clause, all of its where terms "
        "and its column mapping; to_payload's Calculation/Selection arms copy the upstream payload and add the operation's "
        "tag/expression/predicate to it",
        expected_min=8,
    )
    f = m.func(SQL_ENGINE, "Engine._select_to_executable")
    sel = [p for p in f.params if p != "self"][0]
    seen: set[str] = set()
    n = 0
    for p in ctx.paths(f):
        if p.outcome != "return":
            continue
        compound = any(s.kind == "case" and s.value and "Chain" in src(s.node.pattern) for s in p.steps)  # type: ignore[union-attr]
        if compound:
            continue
        n += 1
        sl = backward_slice(p, [p.value])
        pay = None
        for name, b in env_at(p).items():
            if isinstance(b, ast.Call) and call_attr(b) == "to_payload":
                pay = name
            elif isinstance(b, ast.Attribute) and b.attr == "payload":
                pay = name
        if pay is None:
            raise AnalysisError("_select_to_executable: no payload local on the plain branch")
        for what, ok in (
            ("select.columns", sl.reads(sel, "columns")),
            ("payload.from_clause", sl.reads(pay, "from_clause")),
            ("payload.columns_available", sl.reads(pay, "columns_available")),
        ):
            inst = f"emit:reads:{what}"
            if ok:
                run.ok(rule, inst)
            elif inst not in seen:
                seen.add(inst)
                run.fail(rule, inst, f"the emitted SELECT does not depend on {what}", fi=f, node=p.node, details=describe(p, 14))
        facts = path_facts(p)
        wheres = []
        for j_, c_ in path_calls(p):
            if call_attr(c_) != "where":
                continue
            # the clause under the local it was given (`where_clause = terms[0]` ... `.where(where_clause)`)
            if c_.args and isinstance(c_.args[0], ast.Name) and isinstance(env_at(p, j_).get(c_.args[0].id), ast.expr):
                c_ = ast.copy_location(ast.Call(func=c_.func, args=[env_at(p, j_)[c_.args[0].id]] + list(c_.args[1:]), keywords=c_.keywords), c_)
            wheres.append(c_)
        # the term list under any local name it was given (`terms = payload.where`)
        wnames = {f"{pay}.where"} | {nm for nm, b in env_at(p).items() if isinstance(b, ast.Attribute) and src(b) == f"{pay}.where"}
        one = any(fct.kind == "EQ" and fct.polarity and "1" in fct.args and any(f"len({w})" in fct.args for w in wnames) for fct in facts)
        many = any(has_fact(facts, "TRUTH", (w,), True) for w in wnames) and not one
        none = any(has_fact(facts, "TRUTH", (w,), False) for w in wnames)
        inst = f"emit:where:{'one' if one else 'many' if many else 'none'}"
        problem = None
        if one:
            if len(wheres) != 1 or src(wheres[0].args[0] if wheres[0].args else None) not in {f"{w}[0]" for w in wnames}:
                problem = "a single WHERE term is not emitted as payload.where[0]"
        elif many:
            okm = len(wheres) == 1 and wheres[0].args and isinstance(wheres[0].args[0], ast.Call) and call_attr(wheres[0].args[0]) == "and_" and len(wheres[0].args[0].args) == 1 and src(wheres[0].args[0].args[0]) in {f"*{w}" for w in wnames}
            if not okm:
                problem = "several WHERE terms are not emitted as and_(*payload.where)"
        elif none and wheres:
            problem = "a WHERE clause is emitted although the payload has no terms"
        elif wheres:
            a0 = wheres[0].args[0] if wheres[0].args else None
            problem = f"the WHERE clause is built from `{src(a0)[:60]}`, not from every term of {pay}.where (payload.where[0] for one term, and_(*payload.where) for several): a filtered or de-duplicated list can lose a constraint"
        elif not none:
            problem = f"no WHERE clause is emitted on a path that has not established that {pay}.where is empty"
        if problem and inst not in seen:
            seen.add(inst)
            run.fail(rule, inst, problem, fi=f, node=p.node, details=describe(p, 14))
        elif not problem:
            run.ok(rule, inst)
        # the column list is exactly the Select's columns looked up in the payload's mapping
    if n == 0:
        raise AnalysisError("_select_to_executable has no plain (non-compound) returning path")
    for nn in ast.walk(f.node):
        if isinstance(nn, ast.Expr) and isinstance(nn.value, ast.Call) and call_attr(nn.value) in ("order_by", "offset", "limit", "where", "distinct", "select_from"):
            run.fail(rule, f"dropped:{call_attr(nn.value)}", f"the result of `{src(nn.value)[:50]}` is discarded (sqlalchemy selects are immutable, the clause is lost)", fi=f, node=nn)
    def _over_columns(it: ast.expr) -> bool:
        # `select.columns`, or a re-ordering of exactly that set
        if src(it) == f"{sel}.columns":
            return True
        return isinstance(it, ast.Call) and isinstance(it.func, ast.Name) and it.func.id in ("sorted", "list", "tuple") and bool(it.args) and src(it.args[0]) == f"{sel}.columns"

    comps = [c for c in ast.walk(f.node) if isinstance(c, ast.DictComp) and _over_columns(c.generators[0].iter)]
    if comps and isinstance(comps[0].value, ast.Subscript) and src(comps[0].value.slice) == src(comps[0].key) == src(comps[0].generators[0].target):
        run.ok(rule, "emit:select-list")
    else:
        run.fail(rule, "emit:select-list", "the select list is not {tag: columns_available[tag] for tag in select.columns}", fi=f)
    # to_payload arms
    tp = m.func(SQL_ENGINE, "Engine.to_payload")
    for cls_name, fields, sink in (("Calculation", ("tag", "expression"), "columns_available"), ("Selection", ("predicate",), "where")):
        hit = 0
        for p in ctx.paths(tp):
            idx = case_index(p, cls_name)
            if idx < 0 or p.outcome != "return":
                continue
            hit += 1
            inst = f"to_payload:{cls_name}"
            rv = p.value
            b = _resolve_deep(p, rv) if isinstance(rv, ast.Name) else rv
            copied = isinstance(b, ast.Call) and call_attr(b) == "copy" and isinstance(b.func, ast.Attribute) and isinstance(b.func.value, ast.Call) and call_attr(b.func.value) == "to_payload"
            up = None
            if copied:
                a0 = b.func.value.args[0] if b.func.value.args else None  # type: ignore[union-attr]
                cap = env_at(p).get(a0.id) if isinstance(a0, ast.Name) else None
                up = isinstance(cap, tuple) and cap[2] == ("target",)
            sl = backward_slice(p, [rv], start=idx)
            caps = {nm: acc for nm, acc in __import__("sa.astutil", fromlist=["pattern_captures"]).pattern_captures(p.steps[idx].node.pattern).items()}  # type: ignore[union-attr]
            used = all(any(acc == (fl,) and any(nm in {n2.id for e in sl.exprs for n2 in ast.walk(e) if isinstance(n2, ast.Name)} for _ in [0]) for nm, acc in caps.items()) for fl in fields)
            writes_sink = any(
                (isinstance(s.node, ast.Assign) and any(isinstance(t, ast.Subscript) and src(t.value).endswith(f".{sink}") for t in s.node.targets))
                or (isinstance(s.node, ast.Expr) and isinstance(s.node.value, ast.Call) and isinstance(s.node.value.func, ast.Attribute) and src(s.node.value.func.value).endswith(f".{sink}") and s.node.value.func.attr in ("extend", "append", "update"))
                for s in p.steps[idx:]
                if s.kind == "stmt"
            )
            if copied and up and used and writes_sink:
                run.ok(rule, inst)
            else:
                why = [w for w, c in (("the upstream payload of `target` is not copied", copied and up), (f"not every field of {cls_name} ({', '.join(fields)}) reaches the result", used), (f"nothing is added to `{sink}`", writes_sink)) if not c]
                run.fail(rule, inst, f"to_payload's {cls_name} arm: " + "; ".join(why), fi=tp, node=p.node, details=describe(p))
        if hit == 0:
            raise AnalysisError(f"to_payload has no returning {cls_name} arm")


def r_select_list_order(ctx: Ctx, rule: str) -> None:
    """UNION matches columns by position; a SELECT list written in set-iteration order differs between operands."""
    run, m = ctx.run, ctx.m
    run.rule(
        rule,
        "the SELECT list is emitted in an order that is a function of the column *set* (sorted(...)), not in the "
        "iteration order of a particular set object: two chain operands with equal columns may iterate them differently, "
        "and UNION pairs columns by position",
        expected_min=1,
    )
    from ..flow import denotes

    f = m.func(SQL_ENGINE, "Engine._select_to_executable")
    sel = [p for p in f.params if p != "self"][0]
    seen = 0
    reported = False
    for i, p in enumerate(ctx.paths(f)):
        if p.outcome != "return":
            continue
        for j, c in path_calls(p):
            if call_attr(c) != "select_items" or not c.args:
                continue
            seen += 1
            a0 = c.args[0]
            base = a0.func.value if isinstance(a0, ast.Call) and call_attr(a0) == "items" and isinstance(a0.func, ast.Attribute) else a0
            b = resolve_name(p, base.id, j) if isinstance(base, ast.Name) else base
            inst = "select-list:order"
            ok = False
            what = src(b)[:80] if isinstance(b, ast.AST) else repr(b)
            if isinstance(b, (ast.DictComp, ast.ListComp, ast.GeneratorExp)):
                it = b.generators[0].iter
                itb = resolve_name(p, it.id, j) if isinstance(it, ast.Name) else it
                if isinstance(itb, ast.Call) and isinstance(itb.func, ast.Name) and itb.func.id == "sorted" and itb.args and denotes(p, itb.args[0], sel, ("columns",), j):
                    ok = True
                    key = kw(itb, "key")
                    if isinstance(key, ast.Name) and isinstance(resolve_name(p, key.id, j), ast.AST):
                        key = resolve_name(p, key.id, j)
                    ktxt = src(key).replace(" ", "") if key is not None else ""
                    injective = False
                    if isinstance(key, ast.Lambda) and len(key.args.args) == 1:
                        a_ = key.args.args[0].arg
                        injective = src(key.body).replace(" ", "") in (f"{a_}.qualified_name", f"self.get_identifier({a_})")
                    elif ktxt in ("self.get_identifier", "operator.attrgetter('qualified_name')", "attrgetter('qualified_name')"):
                        injective = True
                    if key is not None and not injective and not reported:
                        reported = True
                        seen += 1
                        run.fail(
                            rule,
                            "select-list:key",
                            f"the SELECT list is sorted by `{src(key)[:60]}`: the ColumnTag protocol promises only that qualified_name is as unique as the tag, so two "
                            "different tags may compare equal under this key; the stable sort then keeps them in the iteration order of the particular set object, "
                            "and the operands of a UNION list the same columns in different positions",
                            fi=f,
                            node=itb,
                        )
                        continue
                what = src(it)[:80]
            if ok:
                run.ok(rule, inst, {"order": what})
            elif not reported:
                reported = True
                run.fail(
                    rule,
                    inst,
                    f"the SELECT list is built by iterating `{what}`: for a set that is the iteration order of that particular object, so the "
                    "operands of a UNION can list the same columns in different orders and their values end up under the wrong names",
                    fi=f,
                    node=c,
                )
    if seen == 0:
        raise AnalysisError("_select_to_executable no longer calls select_items")


def r_identifier_agreement(ctx: Ctx, rule: str) -> None:
    """Writers (``.label(...)``) and readers (``columns[...]``) of SQL column names must go through one function."""
    run, m = ctx.run, ctx.m
    run.rule(
        rule,
        "every SQL column name derived from a column tag - the label a SELECT list gives a column and the key a column is "
        "looked up by in a table or subquery - comes from self.get_identifier(<tag>): the writer and the readers of a "
        "name agree for every engine subclass that overrides get_identifier",
        expected_min=3,
    )
    mod = m.modules.get(SQL_ENGINE) if hasattr(m, "modules") and isinstance(m.modules, dict) else None
    eng = ctx.cls(SQL_ENGINE, "Engine")
    gid = eng.methods.get("get_identifier")
    if gid is None:
        raise AnalysisError("sql.Engine.get_identifier is missing")
    seen = 0
    for f in eng.methods.values():
        if f is gid:
            continue
        parents: dict[int, ast.AST] = {}
        for n in ast.walk(f.node):
            for ch in ast.iter_child_nodes(n):
                parents[id(ch)] = n

        def _is_gid(e: ast.AST | None) -> bool:
            return isinstance(e, ast.Call) and call_attr(e) == "get_identifier" and isinstance(e.func, ast.Attribute) and src(e.func.value) == "self"

        for n in ast.walk(f.node):
            if isinstance(n, ast.Call) and call_attr(n) == "label" and len(n.args) == 1 and not n.keywords:
                a = n.args[0]
                if isinstance(a, ast.Constant) or not any(isinstance(x, ast.Name) and x.id != "self" for x in ast.walk(a)):
                    continue  # a fixed name (constant or class attribute), not derived from a tag
                seen += 1
                inst = f"{f.qualname}:label@{src(a)[:40]}"
                if _is_gid(a):
                    run.ok(rule, inst)
                else:
                    run.fail(rule, inst, f"a SELECT-list column is labelled `{src(a)[:60]}` instead of self.get_identifier(<tag>): readers look the column up under get_identifier's name, so an engine that overrides it cannot find the column in a subquery", fi=f, node=n)
            elif isinstance(n, ast.Subscript) and not isinstance(n.slice, (ast.Slice, ast.Constant)):
                idx = n.slice
                mentions_name = any(isinstance(x, ast.Attribute) and x.attr == "qualified_name" for x in ast.walk(idx))
                if _is_gid(idx):
                    seen += 1
                    run.ok(rule, f"{f.qualname}:lookup@{src(n.value)[:30]}")
                elif mentions_name:
                    seen += 1
                    run.fail(rule, f"{f.qualname}:lookup@{src(n.value)[:30]}", f"a column is looked up under `{src(idx)[:60]}` instead of self.get_identifier(<tag>)", fi=f, node=n)
            elif isinstance(n, ast.Call) and isinstance(n.func, ast.Name) and n.func.id in ("getattr", "hasattr") and len(n.args) >= 2 and any(_is_gid(x) for x in ast.walk(n.args[1])):
                seen += 1
                run.fail(rule, f"{f.qualname}:lookup@getattr", f"`{src(n)[:70]}` looks a column up as an *attribute* of the column collection: a column named like one of the collection's own attributes (keys, values, items, get, ...) resolves to that attribute instead - columns are looked up by subscript", fi=f, node=n)
            elif isinstance(n, ast.Attribute) and n.attr == "qualified_name":
                # the only other legitimate use: an ordering key (sorted(..., key=lambda tag: tag.qualified_name))
                par = parents.get(id(n))
                anc = par
                in_key = False
                while anc is not None:
                    if isinstance(anc, ast.keyword) and anc.arg == "key":
                        in_key = True
                        break
                    anc = parents.get(id(anc))
                if in_key:
                    continue
                if isinstance(par, ast.Subscript) or (isinstance(par, ast.Call) and call_attr(par) == "label"):
                    continue  # reported above
                # flows into a name position?  (label / column / table-column lookup / bindparam)
                up = par
                while up is not None and not isinstance(up, (ast.Call, ast.stmt)):
                    up = parents.get(id(up))
                if isinstance(up, ast.Call) and call_attr(up) in ("label", "column", "literal_column", "get", "corresponding_column"):
                    seen += 1
                    run.fail(rule, f"{f.qualname}:name@{call_attr(up)}", f"`{src(up)[:70]}` names a SQL column by tag.qualified_name instead of self.get_identifier(<tag>)", fi=f, node=up)
    if seen == 0:
        raise AnalysisError("the SQL engine no longer labels or looks up columns by name")


def r_anonymous_binds(ctx: Ctx, rule: str) -> None:
    """Two literals in one statement must not share a bind-parameter name."""
    run, m = ctx.run, ctx.m
    run.rule(
        rule,
        "every literal value reaches SQL through an anonymous, per-occurrence bind parameter (sqlalchemy literal(), or "
        "bindparam with key None / unique=True): a fixed bind name is shared by all literals of a statement, which then "
        "all carry one value",
        expected_min=2,
    )
    eng = ctx.cls(SQL_ENGINE, "Engine")
    seen = 0
    for f in eng.methods.values():
        for c in iter_calls(f.node):
            name = call_attr(c) or (c.func.id if isinstance(c.func, ast.Name) else "")
            if name == "literal" and "sqlalchemy" in (dotted(c.func) or "sqlalchemy"):
                seen += 1
                run.ok(rule, f"{f.qualname}:literal")
            elif name == "bindparam":
                seen += 1
                key = c.args[0] if c.args else kw(c, "key")
                uniq = kw(c, "unique")
                anonymous = key is None or (isinstance(key, ast.Constant) and key.value is None) or (isinstance(uniq, ast.Constant) and uniq.value is True)
                inst = f"{f.qualname}:bindparam"
                if anonymous:
                    run.ok(rule, inst)
                else:
                    run.fail(rule, inst, f"`{src(c)[:70]}` binds a value under the fixed name `{src(key)[:30]}`: every literal converted by this method shares that name, so a statement with two literals executes with one value for both", fi=f, node=c)
    cl = eng.methods.get("convert_column_literal")
    if cl is None:
        raise AnalysisError("sql.Engine.convert_column_literal is missing")
    vparam = [q for q in cl.params if q != "self"][0]
    for i, p in enumerate(ctx.paths(cl)):
        if p.outcome != "return":
            continue
        seen += 1
        sl = backward_slice(p, [p.value])
        if any(isinstance(n, ast.Name) and n.id == vparam for e in sl.exprs for n in ast.walk(e)):
            run.ok(rule, f"convert_column_literal:value:path{i}")
        else:
            run.fail(rule, f"convert_column_literal:value:path{i}", "the converted literal does not depend on the value", fi=cl, node=p.node)
    if seen == 0:
        raise AnalysisError("the SQL engine no longer converts literals")


def r_flattened_predicate(ctx: Ctx, rule: str) -> None:
    """flatten_logical_and answers False for a trivially false predicate and [] for a trivially true one."""
    run, m = ctx.run, ctx.m
    run.rule(
        rule,
        "convert_flattened_predicate keeps flatten_logical_and's two trivial answers apart: `False` (no row satisfies the "
        "predicate) becomes the single SQL term literal(False), a list of conjuncts becomes one converted term per "
        "conjunct (none for the empty list); a truthiness test would turn 'never' into 'always'",
        expected_min=2,
    )
    f = m.func(SQL_ENGINE, "Engine.convert_flattened_predicate")
    ps = [q for q in f.params if q != "self"]
    calls = [c for c in iter_calls(f.node) if call_attr(c) == "flatten_logical_and" or (isinstance(c.func, ast.Name) and c.func.id == "flatten_logical_and")]
    if not calls or [src(a) for a in calls[0].args] != [ps[0]]:
        raise AnalysisError("convert_flattened_predicate no longer flattens its predicate with flatten_logical_and(<predicate>)")
    n = 0
    for i, p in enumerate(ctx.paths(f)):
        if p.outcome != "return":
            continue
        n += 1
        facts = path_facts(p)
        names = {src(calls[0])}
        for nm, b in env_at(p).items():
            if b is calls[0] or (isinstance(b, ast.AST) and src(b) == src(calls[0])):
                names.add(nm)
        is_false = any(fct.kind == "IS" and fct.polarity and "False" in fct.args and set(fct.args) & names for fct in facts)
        not_false = any(fct.kind == "IS" and not fct.polarity and "False" in fct.args and set(fct.args) & names for fct in facts)
        v = p.value
        b = resolve_name(p, v.id) if isinstance(v, ast.Name) else v
        inst = f"convert_flattened_predicate:path{i}"
        if is_false:
            ok = isinstance(b, (ast.List, ast.Tuple)) and len(b.elts) == 1 and isinstance(b.elts[0], ast.Call) and call_attr(b.elts[0]) == "literal" and [src(a) for a in b.elts[0].args] == ["False"]
            if ok:
                run.ok(rule, inst + ":never")
            else:
                run.fail(rule, inst + ":never", f"a trivially false predicate is translated to `{src(v)[:60]}`, not [literal(False)]", fi=f, node=p.node)
        elif not_false:
            comp = b if isinstance(b, (ast.ListComp, ast.GeneratorExp)) else (b.args[0] if isinstance(b, ast.Call) and b.args and isinstance(b.args[0], (ast.ListComp, ast.GeneratorExp)) else None)
            ok = comp is not None and not comp.generators[0].ifs and (src(comp.generators[0].iter) in names) and isinstance(comp.elt, ast.Call) and call_attr(comp.elt) == "convert_predicate" and [src(a) for a in comp.elt.args][:1] == [src(comp.generators[0].target)]
            if ok:
                run.ok(rule, inst + ":conjuncts")
            else:
                run.fail(rule, inst + ":conjuncts", f"the conjuncts are translated as `{src(v)[:70]}`, not one convert_predicate(...) per conjunct", fi=f, node=p.node)
        else:
            run.fail(
                rule,
                inst + ":undistinguished",
                f"`{src(v)[:70]}` is returned on a path that never tested the flattened predicate against False: flatten_logical_and's `False` (never true) is "
                "treated like its empty list (always true), so a trivially false selection or join condition is emitted with no constraint at all",
                fi=f,
                node=p.node,
                details=describe(p),
            )
    if n == 0:
        raise AnalysisError("convert_flattened_predicate has no returning path")


def r_select_hooks_get_selects(ctx: Ctx, rule: str) -> None:
    """The internal *_to_select hooks read Select-only attributes before any engine check."""
    run, m = ctx.run, ctx.m
    run.rule(
        rule,
        "every relation handed to _append_unary_to_select / _append_binary_to_select is `self.conform(<operand>)` (a Select of "
        "this engine, or conform's own refusal): the hooks read has_sort / has_slice before Join/Chain validation compares "
        "engines, so an operand conformed by another engine turns the documented EngineError into AttributeError",
        expected_min=3,
    )
    eng = ctx.cls(SQL_ENGINE, "Engine")
    n = 0
    for f in eng.methods.values():
        for p in ctx.paths(f):
            for j, c in path_calls(p):
                if call_attr(c) not in ("_append_unary_to_select", "_append_binary_to_select"):
                    continue
                if not (isinstance(c.func, ast.Attribute) and src(c.func.value) == "self"):
                    continue
                for pos, a in enumerate(c.args[1:], start=1):
                    n += 1
                    b = resolve_name(p, a.id, j) if isinstance(a, ast.Name) else a
                    inst = f"{f.qualname}:{call_attr(c)}:arg{pos}"
                    ok = isinstance(b, ast.Call) and call_attr(b) == "conform" and isinstance(b.func, ast.Attribute) and src(b.func.value) == "self"
                    # a recursive call may pass on what it was given as a Select
                    if not ok and isinstance(a, ast.Name) and a.id in f.params and "Select" in src(f.param_annotation(a.id) or ast.Constant("")):
                        ok = True
                    if ok:
                        run.ok(rule, inst)
                    else:
                        run.fail(rule, inst, f"`{src(c)[:80]}` receives `{src(b)[:50] if isinstance(b, ast.AST) else src(a)}` instead of self.conform(<operand>): an operand of another engine reaches code that assumes a Select", fi=f, node=c)
    if n == 0:
        raise AnalysisError("no call of the *_to_select hooks found")


def r_select_never_empty(ctx: Ctx, rule: str) -> None:
    """`SELECT FROM t` is not SQL: every SELECT list built from a variable-length list gets the placeholder."""
    run, m = ctx.run, ctx.m
    run.rule(
        rule,
        "no SELECT without columns: every `select(*cols)` the SQL engine builds from a list of variable length is "
        "preceded, on every path and with no re-binding in between, by `self.handle_empty_columns(cols)` (select_items "
        "documents this as its responsibility), and handle_empty_columns appends a labelled literal whenever the list "
        "is empty: a zero-column relation (join identity, projection to nothing) otherwise renders `SELECT FROM ...`",
        expected_min=4,
    )
    from ..paths import _binds

    eng = ctx.cls(SQL_ENGINE, "Engine")
    n_sites = 0
    for f in eng.methods.values():
        sites = [
            c
            for c in iter_calls(f.node)
            if (dotted(c.func) or "").split(".")[-1] == "select" and "sql" in (dotted(c.func) or "") and any(isinstance(a, ast.Starred) for a in c.args)
        ]
        if not sites:
            continue
        for pi, p in enumerate(ctx.paths(f)):
            for j, c in path_calls(p):
                if not any(c is s_ for s_ in sites):
                    continue
                if any(not isinstance(a, ast.Starred) for a in c.args):
                    continue  # a fixed column is always there
                n_sites += 1
                problem = None
                for a in c.args:
                    v = a.value  # type: ignore[union-attr]
                    if not isinstance(v, ast.Name):
                        if isinstance(v, (ast.List, ast.Tuple)) and v.elts and not any(isinstance(e, ast.Starred) for e in v.elts):
                            break
                        problem = f"`{src(c)[:70]}` spreads `{src(v)[:40]}`, which nothing guarantees to be non-empty"
                        continue
                    handled = False
                    for k, s in enumerate(p.steps[:j]):
                        if v.id in _binds(s):
                            b = env_at(p, k + 1).get(v.id)
                            handled = isinstance(b, (ast.List, ast.Tuple)) and bool(b.elts) and not any(isinstance(e, ast.Starred) for e in b.elts)
                        for _jj, c2 in path_calls(p, k, k + 1) if s.kind in ("stmt", "cond") else []:
                            if call_attr(c2) == "handle_empty_columns" and c2.args and isinstance(c2.args[0], ast.Name) and c2.args[0].id == v.id:
                                handled = True
                    if handled:
                        problem = None
                        break
                    problem = f"`{src(c)[:70]}` is reached without `self.handle_empty_columns({v.id})` since `{v.id}` was last bound: with no column to select the statement is `SELECT FROM ...`, which no database accepts"
                inst = f"{f.qualname}:select:path{pi}"
                if problem:
                    run.fail(rule, inst, problem, fi=f, node=c, details=describe(p))
                else:
                    run.ok(rule, inst)
    if n_sites < 3:
        raise AnalysisError(f"only {n_sites} SELECT constructions from a starred list were found in sql.Engine (select_items, get_join_identity_payload, get_doomed_payload expected)")
    # ... and every SELECT that select_items builds names its FROM clause: a list of literals only (the placeholder)
    # refers to no table, and `SELECT 1` without FROM is one row whatever the table holds
    si = eng.methods.get("select_items")
    if si is None:
        raise AnalysisError("sql.Engine.select_items is missing")
    from_param = [q for q in si.params if q != "self"][1]
    for pi, p in enumerate(ctx.paths(si)):
        if p.outcome != "return":
            continue
        sl = backward_slice(p, [p.value])
        named = any(call_attr(c) == "select_from" and c.args and src(c.args[0]) == from_param for c in sl.calls)
        conditional = any(s.kind == "cond" for s in p.steps)
        inst = f"select_items:select_from:path{pi}"
        if named:
            run.ok(rule, inst)
        else:
            run.fail(
                rule,
                inst,
                f"a path of select_items returns a SELECT without `.select_from({from_param})`"
                + (" (the FROM clause is added under a condition)" if conditional else "")
                + ": a select list that mentions no column of the table - the zero-column placeholder - then has no FROM at all and yields one row instead of one per row of the relation",
                fi=si,
                node=p.node,
                details=describe(p),
            )
    h = eng.methods.get("handle_empty_columns")
    if h is None:
        raise AnalysisError("sql.Engine.handle_empty_columns is missing")
    lst = [q for q in h.params if q != "self"][0]
    for pi, p in enumerate(ctx.paths(h)):
        facts = path_facts(p, versioned=False)
        empty = any(fct.kind == "TRUTH" and fct.args == (lst,) and not fct.polarity for fct in facts) or not any(fct.kind == "TRUTH" and fct.args == (lst,) for fct in facts)
        if not empty:
            run.ok(rule, f"handle_empty_columns:nonempty:path{pi}")
            continue
        apps = [c for _j, c in path_calls(p) if call_attr(c) in ("append", "insert", "extend") and isinstance(c.func, ast.Attribute) and src(c.func.value) == lst]
        good = [c for c in apps if any(isinstance(x, ast.Call) and call_attr(x) == "label" for a in c.args for x in ast.walk(a))]
        if good and p.outcome != "raise":
            run.ok(rule, f"handle_empty_columns:empty:path{pi}")
        else:
            run.fail(rule, f"handle_empty_columns:empty:path{pi}", f"a path on which `{lst}` may be empty does not append a labelled placeholder column to it", fi=h, node=p.node, details=describe(p))


COLUMN_HOOKS = {
    "extract_mapping": "the hook that turns SQL columns back into logical columns",
    "select_items": "the hook that turns logical columns into SELECT-list entries",
    "get_doomed_payload": "labels its NULL placeholders, then maps them back with extract_mapping",
}


def r_logical_column_hooks(ctx: Ctx, rule: str) -> None:
    """A subclass with its own logical-column type overrides extract_mapping / select_items; code that pairs tags with
    SQL columns by hand bypasses the override."""
    run, m = ctx.run, ctx.m
    run.rule(
        rule,
        "tags are paired with SQL column names only inside the logical-column hooks (extract_mapping, select_items, and "
        "get_doomed_payload's labels): every other method of the SQL engine obtains its tag -> column mapping from "
        "self.extract_mapping(...) or a payload, never by calling get_identifier itself - an engine whose logical columns "
        "are not single SQL columns (the documented extension) overrides those hooks and nothing else",
        expected_min=4,
    )
    eng = ctx.cls(SQL_ENGINE, "Engine")
    n = 0
    for f in eng.methods.values():
        calls = [c for c in iter_calls(f.node) if call_attr(c) == "get_identifier"]
        refs = [x for x in ast.walk(f.node) if isinstance(x, ast.Attribute) and x.attr == "get_identifier" and not any(x is c.func for c in calls)]
        for c in calls + refs:
            n += 1
            inst = f"{f.qualname}:get_identifier"
            if f.name in COLUMN_HOOKS or f.name == "get_identifier":
                run.ok(rule, inst)
            else:
                run.fail(
                    rule,
                    inst,
                    f"{f.qualname} pairs tags with SQL column names itself (`{src(c)[:60]}`) instead of going through self.extract_mapping / self.select_items: "
                    "an engine subclass with a custom logical-column type, which overrides exactly those hooks, gets a KeyError (or the wrong columns) as soon as this code runs",
                    fi=f,
                    node=c,
                )
    if n < 3:
        raise AnalysisError("get_identifier is hardly used any more; the logical-column hooks changed shape")
    # and the two places that rebuild a mapping from a FROM clause do go through the hook
    for fname in ("to_payload", "_select_to_executable", "get_doomed_payload"):
        f = eng.methods.get(fname)
        if f is None:
            raise AnalysisError(f"sql.Engine.{fname} is missing")
        if any(call_attr(c) == "extract_mapping" and isinstance(c.func, ast.Attribute) and src(c.func.value) == "self" for c in iter_calls(f.node)):
            run.ok(rule, f"{fname}:extract_mapping")
        else:
            run.fail(rule, f"{fname}:extract_mapping", f"{fname} no longer rebuilds its column mapping with self.extract_mapping(...)", fi=f)
