"""R13.5: constant folding (`as_trivial`) and conjunction flattening are sound, decided over all small predicate trees.

``as_trivial`` and ``flatten_logical_and`` are pure recursive functions over the closed predicate hierarchy; their
result depends only on the *shape* of the tree and on which sub-predicates are literals.  Both are interpreted from
the source (the evaluator of `bounds.py`, extended here with loops, lists and module-level recursion - repository code
is not imported or run) on every predicate tree of depth <= 2 with up to three operands built from the literals, two
opaque column predicates, an opaque function predicate and an opaque membership test, and compared with the reference
semantics obtained by evaluating the same tree under every truth assignment of its opaque atoms:

* ``as_trivial() is True``  => the tree is true under every assignment;  ``is False`` => false under every one
  (``None`` is always allowed - the property promises soundness, not completeness);
* ``flatten_logical_and(p) is False`` => p is false under every assignment; otherwise the conjunction of the returned
  predicates has p's truth value under every assignment.

This replaces reasoning about how the fold loop is written (accumulator, early return, ``any``/``all``) by its result.
"""

from __future__ import annotations

import ast
import itertools

from ..astutil import AnalysisError, src
from ..props.common import Ctx
from .bounds import Crash, Interp, Obj, Oracle, _NeedChoice, _Return


class _Break(Exception):
    pass


class _Continue(Exception):
    pass


class PyInterp(Interp):
    """`Interp` plus: for loops, break/continue, lists and their methods, comprehensions, module-level functions."""

    def __init__(self, ctx, oracle, module, module_state: dict | None = None):
        super().__init__(ctx, oracle)
        self.module = module
        self.steps = 0
        # module-level objects live as long as the process: shared by every evaluation that is given the same dict,
        # so a function that hands out (and later mutates) a module-level list shows up as a wrong answer later on
        self.module_state = module_state if module_state is not None else {}

    def _global(self, name: str):
        if name in self.module_state:
            return self.module_state[name]
        for s in self.module.tree.body:
            tgt = val = None
            if isinstance(s, ast.Assign) and len(s.targets) == 1 and isinstance(s.targets[0], ast.Name):
                tgt, val = s.targets[0].id, s.value
            elif isinstance(s, ast.AnnAssign) and isinstance(s.target, ast.Name) and s.value is not None:
                tgt, val = s.target.id, s.value
            if tgt == name:
                v = self.eval(val, {})
                self.module_state[name] = v
                return v
        raise AnalysisError(f"bound evaluator: unknown name `{name}`")

    def block(self, stmts, env, f) -> None:
        for s in stmts:
            self.steps += 1
            if self.steps > 200_000:
                raise AnalysisError(f"{f.key}: evaluation does not terminate in the evaluator")
            if isinstance(s, ast.For):
                it = self.eval(s.iter, env)
                if not isinstance(it, (tuple, list, frozenset, range)):
                    raise AnalysisError(f"{f.key}: iteration over {it!r} is outside the fragment")
                broke = False
                for x in list(it):
                    self._bind(s.target, x, env, f)
                    try:
                        self.block(s.body, env, f)
                    except _Continue:
                        continue
                    except _Break:
                        broke = True
                        break
                if not broke:
                    self.block(s.orelse, env, f)
            elif isinstance(s, ast.Delete) and all(isinstance(t, ast.Subscript) for t in s.targets):
                for t in s.targets:
                    o = self.eval(t.value, env)
                    if not isinstance(o, list):
                        raise AnalysisError(f"{f.key}: `{src(s)}` is outside the fragment")
                    try:
                        if isinstance(t.slice, ast.Slice):
                            lo = self.eval(t.slice.lower, env) if t.slice.lower is not None else None
                            hi = self.eval(t.slice.upper, env) if t.slice.upper is not None else None
                            del o[lo:hi]
                        else:
                            del o[self.eval(t.slice, env)]
                    except (IndexError, TypeError) as e:
                        raise Crash(f"`{src(s)}`: {e}")
            elif isinstance(s, ast.Break):
                raise _Break()
            elif isinstance(s, ast.Continue):
                raise _Continue()
            elif isinstance(s, ast.AugAssign) and isinstance(s.target, ast.Name):
                cur = env.get(s.target.id)
                val = self.eval(s.value, env)
                if isinstance(cur, list) and isinstance(s.op, ast.Add) and isinstance(val, (list, tuple)):
                    cur.extend(val)
                else:
                    # the right-hand side has been evaluated (once: it may have side effects such as list.pop)
                    env2 = dict(env)
                    env2["__aug_rhs__"] = val
                    env[s.target.id] = self.eval(ast.BinOp(left=ast.Name(s.target.id, ast.Load()), op=s.op, right=ast.Name("__aug_rhs__", ast.Load())), env2)
            else:
                super().block([s], env, f)

    def _bind(self, target, value, env, f):
        if isinstance(target, ast.Name):
            env[target.id] = value
        elif isinstance(target, (ast.Tuple, ast.List)) and isinstance(value, (tuple, list)) and len(value) == len(target.elts):
            for t, v in zip(target.elts, value):
                self._bind(t, v, env, f)
        else:
            raise AnalysisError(f"{f.key}: cannot bind `{src(target)}`")

    def _apply_callable(self, fn, args: list):
        if isinstance(fn, tuple) and fn and fn[0] == "closure":
            _, node, cenv = fn
            params = [a.arg for a in node.args.args]
            if len(params) != len(args) or node.args.vararg or node.args.kwonlyargs:
                raise AnalysisError("evaluator: lambda signature outside the fragment")
            inner = dict(cenv)
            inner.update(zip(params, args))
            return self.eval(node.body, inner)
        if isinstance(fn, tuple) and fn and fn[0] == "bound-method":
            return self.call_function(fn[2], fn[1], args, {})
        raise AnalysisError(f"evaluator: cannot call {fn!r}")

    def _sort_key(self, keyfn, reverse, items: list, where: str) -> list:
        try:
            keyed = [(self._apply_callable(keyfn, [x]) if keyfn is not None else x, i, x) for i, x in enumerate(items)]
            keyed.sort(key=lambda t: t[0], reverse=bool(reverse))
        except TypeError as e:
            raise Crash(f"`{where}`: {e}")
        return [x for _k, _i, x in keyed]

    def eval(self, n: ast.expr, env: dict):
        if isinstance(n, ast.Lambda):
            return ("closure", n, env)
        if isinstance(n, ast.Attribute) and n.attr in ("start", "stop", "step"):
            o = self.eval(n.value, env)
            if isinstance(o, range):
                return getattr(o, n.attr)
            return self.getattr(o, n.attr, n)
        if isinstance(n, ast.Name) and n.id not in env and n.id not in ("True", "False", "None"):
            return self._global(n.id)
        if isinstance(n, ast.List):
            return [self.eval(e, env) for e in n.elts]
        if isinstance(n, ast.Tuple):
            out = []
            for e in n.elts:
                if isinstance(e, ast.Starred):
                    sv = self.eval(e.value, env)
                    if not isinstance(sv, (list, tuple, set, frozenset, range)):
                        raise Crash(f"`{src(n)[:50]}`: value after * must be an iterable, not {type(sv).__name__}")
                    out.extend(sv)
                else:
                    out.append(self.eval(e, env))
            return tuple(out)
        if isinstance(n, (ast.ListComp, ast.GeneratorExp, ast.SetComp)) and len(n.generators) == 1:
            g = n.generators[0]
            it = self.eval(g.iter, env)
            if not isinstance(it, (tuple, list, frozenset, range)):
                raise AnalysisError(f"comprehension over {it!r} is outside the fragment")
            out = []
            inner = dict(env)
            for x in list(it):
                self._bind(g.target, x, inner, None)
                if all(self.truth(self.eval(c, inner)) for c in g.ifs):
                    out.append(self.eval(n.elt, inner))
            return out if isinstance(n, ast.ListComp) else tuple(out)
        if isinstance(n, ast.BinOp) and isinstance(n.op, ast.Add):
            a, b = self.eval(n.left, env), self.eval(n.right, env)
            if isinstance(a, list) and isinstance(b, list):
                return a + b
            if isinstance(a, tuple) and isinstance(b, tuple):
                return a + b
        if isinstance(n, ast.Dict) and all(k is not None for k in n.keys):
            out = {}
            for k, v in zip(n.keys, n.values):
                kk = self.eval(k, env)
                try:
                    hash(kk)
                except TypeError:
                    raise Crash(f"unhashable dict key {kk!r}")
                out[kk] = self.eval(v, env)
            return out
        if isinstance(n, ast.Subscript) and not isinstance(n.slice, ast.Slice):
            v = self.eval(n.value, env)
            if isinstance(v, dict):
                i = self.eval(n.slice, env)
                try:
                    return v[i]
                except (KeyError, TypeError) as e:
                    raise Crash(f"`{src(n)}`: {type(e).__name__} {e}")
            if isinstance(v, (tuple, list)):
                i = self.eval(n.slice, env)
                try:
                    return v[i]
                except (IndexError, TypeError) as e:
                    raise Crash(f"`{src(n)}`: {e}")
        if isinstance(n, ast.Subscript) and isinstance(n.slice, ast.Slice):
            v = self.eval(n.value, env)
            if isinstance(v, (tuple, list)):
                lo = self.eval(n.slice.lower, env) if n.slice.lower is not None else None
                hi = self.eval(n.slice.upper, env) if n.slice.upper is not None else None
                return v[lo:hi]
        return super().eval(n, env)

    @staticmethod
    def truth(v) -> bool:  # lists/tuples by emptiness, objects true
        if isinstance(v, Obj):
            return True
        return bool(v)

    def call(self, n: ast.Call, env: dict):
        f = n.func
        if isinstance(f, ast.Name) and f.id in ("any", "all") and len(n.args) == 1:
            try:
                vals = self.eval(n.args[0], env)
                if isinstance(vals, (list, tuple)):
                    return (any if f.id == "any" else all)(self.truth(v) for v in vals)
            except AnalysisError:
                pass
            return super().call(n, env)
        if isinstance(f, ast.Name) and f.id == "enumerate" and 1 <= len(n.args) <= 2:
            v = self.eval(n.args[0], env)
            start = self.eval(n.args[1], env) if len(n.args) == 2 else 0
            if isinstance(v, (list, tuple, range)) and isinstance(start, int):
                return tuple(enumerate(list(v), start))
        if isinstance(f, ast.Name) and f.id in ("reversed", "sorted") and len(n.args) == 1 and not n.keywords:
            v = self.eval(n.args[0], env)
            if isinstance(v, (list, tuple, range)) and (f.id == "reversed" or all(isinstance(x, int) for x in v)):
                return list(reversed(list(v))) if f.id == "reversed" else sorted(v)
        if isinstance(f, ast.Name) and f.id == "range" and 1 <= len(n.args) <= 3:
            a = [self.eval(x, env) for x in n.args]
            if all(isinstance(x, int) and not isinstance(x, bool) for x in a):
                return range(*a)
        if isinstance(f, ast.Name) and f.id in ("list", "tuple") and len(n.args) <= 1:
            v = self.eval(n.args[0], env) if n.args else ()
            if isinstance(v, (list, tuple, frozenset, range)):
                return list(v) if f.id == "list" else tuple(v)
        if isinstance(f, ast.Name) and f.id == "len" and len(n.args) == 1:
            v = self.eval(n.args[0], env)
            if isinstance(v, (list, tuple, frozenset, set, range)):
                return len(v)
        if isinstance(f, ast.Name) and f.id == "isinstance" and len(n.args) == 2:
            v = self.eval(n.args[0], env)
            names = [src(e).split(".")[-1] for e in (n.args[1].elts if isinstance(n.args[1], ast.Tuple) else [n.args[1]])]
            if isinstance(v, Obj) and v.cls is not None:
                return any(k.name in names for k in self.m.mro(v.cls))
            if isinstance(v, bool):
                return "bool" in names or "int" in names
            return False
        if isinstance(f, ast.Name) and f.id == "cast" and len(n.args) == 2:
            return self.eval(n.args[1], env)
        if isinstance(f, ast.Name) and f.id == "sorted" and len(n.args) == 1 and n.keywords:
            v = self.eval(n.args[0], env)
            kws = {k.arg: self.eval(k.value, env) for k in n.keywords if k.arg}
            if isinstance(v, (list, tuple, set, frozenset)) and set(kws) <= {"key", "reverse"}:
                return self._sort_key(kws.get("key"), kws.get("reverse", False), list(v), src(n)[:50])
        if isinstance(f, ast.Name) and f.id in env and isinstance(env[f.id], tuple) and env[f.id] and env[f.id][0] == "closure":
            return self._apply_callable(env[f.id], [self.eval(a, env) for a in n.args])
        if isinstance(f, ast.Attribute):
            o = self.eval(f.value, env)
            if isinstance(o, list) and f.attr == "sort" and not n.args:
                kws = {k.arg: self.eval(k.value, env) for k in n.keywords if k.arg}
                if set(kws) <= {"key", "reverse"}:
                    o[:] = self._sort_key(kws.get("key"), kws.get("reverse", False), list(o), src(n)[:50])
                    return None
            if isinstance(o, list) and f.attr in ("append", "extend", "insert"):
                args = [self.eval(a, env) for a in n.args]
                if f.attr == "append":
                    o.append(args[0])
                elif f.attr == "extend":
                    if not isinstance(args[0], (list, tuple)):
                        raise Crash(f"`{src(n)}`: extend with {args[0]!r}")
                    o.extend(args[0])
                else:
                    o.insert(args[0], args[1])
                return None
            if isinstance(o, Obj) and o.cls is not None:
                meth = self.m.method(o.cls, f.attr)
                if meth is not None and not meth.is_abstract:
                    args = [self.eval(a, env) for a in n.args]
                    kwargs = {k.arg: self.eval(k.value, env) for k in n.keywords if k.arg}
                    return self.call_function(meth, o, args, kwargs)
        if isinstance(f, ast.Name):
            fn = self.m.resolve_function(self.module, f.id)
            if fn is not None:
                args = [self.eval(a, env) for a in n.args]
                kwargs = {k.arg: self.eval(k.value, env) for k in n.keywords if k.arg}
                return self.call_function(fn, None, args, kwargs)
            cls = self.m.resolve_class(self.module, f.id)
            if cls is not None:
                # constructing a predicate node: positional arguments follow the dataclass field order
                fields = [fl.name for fl in self.m.fields(cls)]
                args = [self.eval(a, env) for a in n.args]
                attrs = dict(zip(fields, args))
                attrs.update({k.arg: self.eval(k.value, env) for k in n.keywords if k.arg})
                return Obj(cls, **attrs)
        return super().call(n, env)


# ------------------------------------------------------------------ the universe of small predicate trees


def _universe(ctx: Ctx):
    m = ctx.m
    P = "_columns/_predicate.py"
    lit = ctx.cls(P, "PredicateLiteral")
    ref = ctx.cls(P, "PredicateReference")
    lnot, land, lor = ctx.cls(P, "LogicalNot"), ctx.cls(P, "LogicalAnd"), ctx.cls(P, "LogicalOr")
    fn = m.find_class("PredicateFunction")
    inc = m.find_class("ColumnInContainer")
    T, F = Obj(lit, value=True), Obj(lit, value=False)
    p, q = Obj(ref, tag="p"), Obj(ref, tag="q")
    # the opaque atoms are well-formed nodes (a function of column f, membership of column c in a range) so that
    # anything the folding code asks of them (required columns, engine support) can be answered
    cref = m.find_class("ColumnReference")
    crange = m.find_class("ColumnRangeLiteral")
    opaque_f = Obj(fn, name="f", args=(Obj(cref, tag="f", dtype=None),), supporting_engine_types=None)
    opaque_c = Obj(inc, item=Obj(cref, tag="c", dtype=None), container=Obj(crange, value=range(0, 3, 1), dtype=None))
    # the same test against a descending (non-empty) range and against an empty one: both are still functions of the row
    opaque_c_desc = Obj(inc, item=Obj(cref, tag="c", dtype=None), container=Obj(crange, value=range(5, 0, -1), dtype=None))
    # membership tests between literals have a definite value (by *value*: 4 is in [4, 5] whatever dtype the literals declare)
    clit = m.find_class("ColumnLiteral")
    cseq = m.find_class("ColumnExpressionSequence")
    lit4, lit4i, lit5, lit3 = Obj(clit, value=4, dtype=None), Obj(clit, value=4, dtype="int"), Obj(clit, value=5, dtype=None), Obj(clit, value=3, dtype=None)
    in_true = Obj(inc, item=lit4, container=Obj(cseq, items=(lit4i, lit5), dtype=None))
    in_true_same = Obj(inc, item=lit4, container=Obj(cseq, items=(lit5, lit4), dtype=None))
    in_false = Obj(inc, item=lit3, container=Obj(cseq, items=(lit4, lit5), dtype=None))
    # comparisons of a column with itself are still functions of the row (NaN != NaN, NULL = NULL is not true)
    a_ref = Obj(cref, tag="f", dtype=None)
    self_cmp = [Obj(fn, name=nm, args=(a_ref, a_ref), supporting_engine_types=None) for nm in ("__eq__", "__ne__", "__lt__", "__le__")]
    core = [T, F, p, q]
    d1 = list(core)
    for x in core:
        d1.append(Obj(lnot, operand=x))
    for cls in (land, lor):
        d1.append(Obj(cls, operands=()))
        for x in core:
            d1.append(Obj(cls, operands=(x,)))
        for x, y in itertools.product(core, repeat=2):
            d1.append(Obj(cls, operands=(x, y)))
    trees = list(d1) + self_cmp + [Obj(lnot, operand=self_cmp[0]), Obj(lor, operands=(self_cmp[0], p)), Obj(land, operands=(self_cmp[1], p))] + [opaque_f, opaque_c, opaque_c_desc, Obj(lnot, operand=opaque_c_desc), Obj(land, operands=(opaque_c_desc, p)), in_true, in_true_same, in_false]
    for x in (in_true, in_true_same, in_false):
        trees.append(Obj(lnot, operand=x))
        trees.append(Obj(land, operands=(x, p)))
        trees.append(Obj(lor, operands=(x, p)))
    for x in d1:
        trees.append(Obj(lnot, operand=x))
    for cls in (land, lor):
        for x, y in itertools.product(d1, repeat=2):
            trees.append(Obj(cls, operands=(x, y)))
        for x, y, z in itertools.product(core, repeat=3):
            trees.append(Obj(cls, operands=(x, y, z)))
        for x in (opaque_f, opaque_c):
            trees.append(Obj(cls, operands=(x, F)))
            trees.append(Obj(cls, operands=(T, x)))
            trees.append(Obj(cls, operands=(x, p)))
    return trees


ATOMS = ("p", "q", "f", "c")


def _value(t: Obj, asg: dict[str, bool]) -> bool:
    name = t.cls.name
    if name == "PredicateLiteral":
        return bool(t.attrs["value"])
    if name == "PredicateReference":
        return asg[t.attrs["tag"]]
    if name == "PredicateFunction":
        return asg["f"]
    if name == "ColumnInContainer":
        lv = _literal_membership(t)
        return asg["c"] if lv is None else lv
    if name == "LogicalNot":
        return not _value(t.attrs["operand"], asg)
    if name == "LogicalAnd":
        return all(_value(x, asg) for x in t.attrs["operands"])
    if name == "LogicalOr":
        return any(_value(x, asg) for x in t.attrs["operands"])
    raise AnalysisError(f"fold evaluator: a {name} node was produced, which the reference evaluator does not know")


def _literal_membership(t: Obj) -> bool | None:
    """The value of `<literal> in [<literals>]`, None when it is not a test between literals."""
    item, cont = t.attrs.get("item"), t.attrs.get("container")
    if isinstance(item, Obj) and item.cls.name == "ColumnLiteral" and isinstance(cont, Obj) and cont.cls.name == "ColumnExpressionSequence":
        items = cont.attrs.get("items", ())
        if all(isinstance(x, Obj) and x.cls.name == "ColumnLiteral" for x in items):
            return any(x.attrs["value"] == item.attrs["value"] for x in items)
    return None


def _show(t) -> str:
    if not isinstance(t, Obj):
        return repr(t)
    name = t.cls.name
    if name == "PredicateLiteral":
        return str(t.attrs["value"])
    if name == "PredicateReference":
        return t.attrs["tag"]
    if name == "PredicateFunction":
        return "f(..)"
    if name == "ColumnInContainer":
        if _literal_membership(t) is not None:
            return f"{t.attrs['item'].attrs['value']} in [" + ", ".join(str(x.attrs["value"]) + (":" + str(x.attrs["dtype"]) if x.attrs.get("dtype") else "") for x in t.attrs["container"].attrs["items"]) + "]"
        return "x in C"
    if name == "LogicalNot":
        return f"not ({_show(t.attrs['operand'])})"
    sep = " and " if name == "LogicalAnd" else " or "
    ops = t.attrs["operands"]
    return ("(" + sep.join(_show(x) for x in ops) + ")") if ops else ("And()" if name == "LogicalAnd" else "Or()")


_ASSIGNMENTS = [dict(zip(ATOMS, v)) for v in itertools.product((False, True), repeat=len(ATOMS))]


def r13_5_folding(ctx: Ctx, rule: str = "R13.5") -> None:
    run = ctx.run
    run.rule(
        rule,
        "as_trivial and flatten_logical_and are sound on every predicate tree of depth <= 2 (literals, two opaque "
        "columns, an opaque function and an opaque membership test; 0-3 operands): a folded constant is the tree's value "
        "under every truth assignment, a flattened conjunction is equivalent to the tree, False is reported only for "
        "unsatisfiable trees",
        expected_min=2,
    )
    fold_instances(ctx, rule)


def fold_instances(ctx: Ctx, rule: str) -> None:
    """Evaluate the two instances under an already declared rule."""
    run, m = ctx.run, ctx.m
    for inst, ok, msg, fi, extra in decided(ctx):
        if ok:
            run.ok(rule, inst, extra)
        else:
            run.fail(rule, inst, msg, fi=fi)


def decided(ctx: Ctx):
    cached = getattr(ctx, "_fold_cache", None)
    if cached is None:
        cached = _decide(ctx)
        ctx._fold_cache = cached  # type: ignore[attr-defined]
    return cached


def _decide(ctx: Ctx):
    m = ctx.m
    pmod = m.module("_columns/_predicate.py")
    trees = _universe(ctx)
    flat = m.resolve_function(pmod, "flatten_logical_and")
    if flat is None:
        raise AnalysisError("flatten_logical_and is missing")
    from .mergeeval import MergeInterp as _Interp  # dataclass equality, classes as values, *args

    bad_fold = bad_flat = None
    n_fold = n_flat = 0
    module_state: dict = {}
    for t in trees:
        values = [_value(t, a) for a in _ASSIGNMENTS]
        # ---- as_trivial
        interp = _Interp(ctx, Oracle([]), pmod, module_state)
        try:
            meth = m.method(t.cls, "as_trivial")
            got = interp.call_function(meth, t, [], {})
            n_fold += 1
            if got is True and not all(values):
                bad_fold = bad_fold or (t, f"folds to True but is false when {_cex(values, False)}")
            elif got is False and any(values):
                bad_fold = bad_fold or (t, f"folds to False but is true when {_cex(values, True)}")
            elif got not in (True, False, None):
                bad_fold = bad_fold or (t, f"folds to {got!r}, which is neither a bool nor None")
        except Crash as e:
            bad_fold = bad_fold or (t, f"as_trivial fails: {e}")
        except _NeedChoice:
            raise AnalysisError("as_trivial depends on a predicate the evaluator cannot decide")
        # ---- flatten_logical_and
        if bad_flat is not None:
            continue
        interp = _Interp(ctx, Oracle([]), pmod, module_state)
        before = {k: (len(v) if isinstance(v, (list, dict, set)) else None) for k, v in module_state.items()}
        try:
            res = interp.call_function(flat, None, [t], {})
            n_flat += 1
            if res is False:
                if any(values):
                    bad_flat = bad_flat or (t, f"is reported as trivially false but is true when {_cex(values, True)}")
            elif isinstance(res, (list, tuple)) and all(isinstance(x, Obj) for x in res):
                for a, want in zip(_ASSIGNMENTS, values):
                    if all(_value(x, a) for x in res) != want:
                        bad_flat = bad_flat or (
                            t,
                            f"flattens to [{', '.join(_show(x) for x in res)}], whose conjunction is {not want} but the predicate is {want} when "
                            + ", ".join(f"{k}={v}" for k, v in a.items() if k in _mentioned(t)),
                        )
                        break
            else:
                bad_flat = bad_flat or (t, f"flattens to {res!r}, neither False nor a list of predicates")
            for k, v in module_state.items():
                if isinstance(v, (list, dict, set)) and before.get(k) is not None and before[k] != len(v):
                    bad_flat = bad_flat or (t, f"changes the module-level object `{k}` (it had {before[k]} element(s), now {len(v)}): every later call sees the leftovers")
        except Crash as e:
            bad_flat = bad_flat or (t, f"flatten_logical_and fails: {e}")
        except _NeedChoice:
            raise AnalysisError("flatten_logical_and depends on a predicate the evaluator cannot decide")
    land = ctx.cls("_columns/_predicate.py", "LogicalAnd")
    out = []
    if bad_fold:
        t, why = bad_fold
        out.append(("as_trivial:sound", False, f"`{_show(t)}` {why}: selections on it are elided (True) or reported as doomed (False)", m.method(t.cls, "as_trivial") or m.method(land, "as_trivial"), None))
    else:
        out.append(("as_trivial:sound", True, "", None, {"trees": n_fold}))
    if bad_flat:
        t, why = bad_flat
        out.append(("flatten_logical_and:equivalent", False, f"`{_show(t)}` {why}", flat, None))
    else:
        out.append(("flatten_logical_and:equivalent", True, "", None, {"trees": n_flat}))
    return out


def _mentioned(t: Obj) -> set[str]:
    name = t.cls.name
    if name == "PredicateReference":
        return {t.attrs["tag"]}
    if name == "PredicateFunction":
        return {"f"}
    if name == "ColumnInContainer":
        return set() if _literal_membership(t) is not None else {"c"}
    if name == "LogicalNot":
        return _mentioned(t.attrs["operand"])
    if name in ("LogicalAnd", "LogicalOr"):
        out: set[str] = set()
        for x in t.attrs["operands"]:
            out |= _mentioned(x)
        return out
    return set()


def _cex(values: list[bool], want: bool) -> str:
    for a, v in zip(_ASSIGNMENTS, values):
        if v == want:
            return ", ".join(f"{k}={x}" for k, x in a.items()) or "always"
    return "?"
