"""R06.7: the row-bound formulas of every operation are sound for the bag semantics of that operation.

``applied_min_rows`` / ``applied_max_rows`` are closed arithmetic over a handful of integers (the operand's declared
bounds, a slice's start/stop) using only ``+ - * min max``, comparisons, None tests and conditionals.  The formulas are
read from the source and interpreted by the small evaluator below - repository code is not imported or run - over
*every* combination of small values of those integers (which realises every ordering of the quantities involved, and
every None/zero/one/many case), and compared with the reference semantics of the operation:

    pass-through (calculation, projection, sort, identity, reorderings)   r = n
    deduplication          r = min(n, 1) without columns,  min(n, 1) <= r <= n  with columns
    slice [start, stop)    r = max(min(stop, n) - start, 0)
    selection / row filter 0 <= r <= n   (r = n if count-invariant, r >= min(n, 1) if empty-invariant)
    join                   0 <= r <= n_lhs * n_rhs
    chain                  r = n_lhs + n_rhs

For every actual row count n within the operand's declared [min_rows, max_rows] the declared result bounds must
contain every r the reference allows.  A formula that leaves the evaluable fragment is an analysis error, never a pass.
Predicates over column tags inside ``any(...)``/``all(...)`` are unknown to the evaluator and explored both ways.
"""

from __future__ import annotations

import ast
import itertools

from ..astutil import AnalysisError, src
from ..model import ClassInfo, FunctionInfo
from ..props.common import Ctx

GRID = 4  # operand bounds, slice positions and row counts range over 0..GRID (+ None where allowed)


class Crash(Exception):
    """The formula itself would raise (e.g. arithmetic on None)."""


class Obj:
    def __init__(self, cls: ClassInfo | None, **attrs):
        self.cls = cls
        self.attrs = attrs

    def __repr__(self) -> str:
        return f"<{self.cls.name if self.cls else 'rel'} {self.attrs}>"


class _NeedChoice(Exception):
    pass


class Oracle:
    def __init__(self, choices: list[bool]):
        self.choices = choices
        self.i = 0

    def pick(self) -> bool:
        if self.i >= len(self.choices):
            raise _NeedChoice()
        v = self.choices[self.i]
        self.i += 1
        return v


class _Return(Exception):
    def __init__(self, value):
        self.value = value


class Interp:
    def __init__(self, ctx: Ctx, oracle: Oracle):
        self.ctx, self.m, self.oracle = ctx, ctx.m, oracle
        self.depth = 0

    # ------------------------------------------------------------------ functions
    def call_function(self, f: FunctionInfo, self_obj: Obj | None, args: list, kwargs: dict):
        self.depth += 1
        if self.depth > 12:
            raise AnalysisError(f"{f.key}: bound formulas recurse too deeply for the evaluator")
        try:
            params = list(f.params)
            env: dict[str, object] = {}
            if params and params[0] in ("self", "cls") and self_obj is not None:
                env[params[0]] = self_obj
                params = params[1:]
            for p, a in zip(params, args):
                env[p] = a
            for k, v in kwargs.items():
                env[k] = v
            a = f.node.args
            defaults = dict(zip([x.arg for x in a.args][len(a.args) - len(a.defaults) :], a.defaults))
            for p in params:
                if p not in env:
                    if p in defaults:
                        env[p] = self.eval(defaults[p], {})
                    else:
                        raise AnalysisError(f"{f.key}: parameter {p} is not bound in the evaluator")
            try:
                self.block(f.node.body, env, f)
            except _Return as r:
                return r.value
            return None
        finally:
            self.depth -= 1

    def block(self, stmts, env, f) -> None:
        for s in stmts:
            if isinstance(s, ast.Expr):
                if isinstance(s.value, ast.Constant):
                    continue
                self.eval(s.value, env)
            elif isinstance(s, ast.Return):
                raise _Return(self.eval(s.value, env) if s.value is not None else None)
            elif isinstance(s, ast.If):
                self.block(s.body if self.truth(self.eval(s.test, env)) else s.orelse, env, f)
            elif isinstance(s, ast.Assign) and len(s.targets) == 1 and isinstance(s.targets[0], ast.Name):
                env[s.targets[0].id] = self.eval(s.value, env)
            elif isinstance(s, ast.Assign) and len(s.targets) == 1 and isinstance(s.targets[0], (ast.Tuple, ast.List)) and all(isinstance(e, ast.Name) for e in s.targets[0].elts):
                v = self.eval(s.value, env)
                if not isinstance(v, tuple) or len(v) != len(s.targets[0].elts):
                    raise Crash(f"cannot unpack {v!r} in `{src(s)[:50]}`")
                for e, x in zip(s.targets[0].elts, v):
                    env[e.id] = x
            elif (
                isinstance(s, ast.Assign)
                and len(s.targets) == 1
                and isinstance(s.targets[0], (ast.Tuple, ast.List))
                and sum(isinstance(e, ast.Starred) for e in s.targets[0].elts) == 1
                and all(isinstance(e.value if isinstance(e, ast.Starred) else e, ast.Name) for e in s.targets[0].elts)
            ):
                v = self.eval(s.value, env)
                elts = s.targets[0].elts
                if not isinstance(v, (tuple, list)) or len(v) < len(elts) - 1:
                    raise Crash(f"cannot unpack {v!r} in `{src(s)[:50]}`")
                k = next(i for i, e in enumerate(elts) if isinstance(e, ast.Starred))
                tail = len(elts) - k - 1
                seq = list(v)
                for e, x in zip(elts[:k], seq[:k]):
                    env[e.id] = x
                env[elts[k].value.id] = seq[k : len(seq) - tail]  # a starred target always receives a list
                for e, x in zip(elts[k + 1 :], seq[len(seq) - tail :]):
                    env[e.id] = x
            elif isinstance(s, ast.AugAssign) and isinstance(s.target, ast.Name):
                env[s.target.id] = self.eval(ast.BinOp(left=ast.Name(s.target.id, ast.Load()), op=s.op, right=s.value), env)
            elif isinstance(s, ast.AnnAssign) and isinstance(s.target, ast.Name):
                if s.value is not None:
                    env[s.target.id] = self.eval(s.value, env)
            elif isinstance(s, ast.Raise):
                raise Crash(f"raises {src(s.exc)[:60] if s.exc else ''}")
            elif isinstance(s, ast.Pass):
                continue
            elif isinstance(s, ast.Assert):
                if not self.truth(self.eval(s.test, env)):
                    raise Crash(f"assertion {src(s.test)[:60]} fails")
            elif isinstance(s, (ast.Import, ast.ImportFrom)):
                continue
            elif isinstance(s, ast.Match):
                subj = self.eval(s.subject, env)
                for c in s.cases:
                    if self.matches(c.pattern, subj, env, f) and (c.guard is None or self.truth(self.eval(c.guard, env))):
                        self.block(c.body, env, f)
                        break
            else:
                raise AnalysisError(f"{f.key}: statement `{src(s)[:60]}` is outside the fragment the bound evaluator understands")

    def matches(self, pat: ast.pattern, v, env: dict, f) -> bool:
        if isinstance(pat, ast.MatchAs):
            if pat.pattern is not None and not self.matches(pat.pattern, v, env, f):
                return False
            if pat.name:
                env[pat.name] = v
            return True
        if isinstance(pat, ast.MatchSingleton):
            return v is pat.value
        if isinstance(pat, ast.MatchValue):
            return v == self.eval(pat.value, env)
        if isinstance(pat, ast.MatchOr):
            return any(self.matches(q, v, env, f) for q in pat.patterns)
        if isinstance(pat, ast.MatchSequence) and not any(isinstance(q, ast.MatchStar) for q in pat.patterns):
            if not isinstance(v, (tuple, list)) or len(v) != len(pat.patterns):
                return False
            return all(self.matches(q, x, env, f) for q, x in zip(pat.patterns, v))
        if isinstance(pat, ast.MatchClass) and not pat.patterns:
            name = src(pat.cls).split(".")[-1]
            if name in ("int", "bool") :
                ok = isinstance(v, bool) if name == "bool" else isinstance(v, int) and not isinstance(v, bool)
            elif isinstance(v, Obj) and v.cls is not None:
                ok = any(k.name == name for k in self.m.mro(v.cls))
            else:
                ok = False
            if not ok:
                return False
            for a, q in zip(pat.kwd_attrs, pat.kwd_patterns):
                if not self.matches(q, self.getattr(v, a, pat), env, f):
                    return False
            return True
        raise AnalysisError(f"{f.key}: pattern `{src(pat)[:40]}` is outside the fragment the bound evaluator understands")

    # ------------------------------------------------------------------ expressions
    @staticmethod
    def truth(v) -> bool:
        if isinstance(v, Obj):
            return True
        return bool(v)

    def eval(self, n: ast.expr, env: dict):
        if isinstance(n, ast.Constant):
            return n.value
        if isinstance(n, ast.Name):
            if n.id in env:
                return env[n.id]
            raise AnalysisError(f"bound evaluator: unknown name `{n.id}`")
        if isinstance(n, ast.NamedExpr):
            v = self.eval(n.value, env)
            env[n.target.id] = v
            return v
        if isinstance(n, ast.Attribute):
            o = self.eval(n.value, env)
            return self.getattr(o, n.attr, n)
        if isinstance(n, ast.UnaryOp):
            v = self.eval(n.operand, env)
            if isinstance(n.op, ast.Not):
                return not self.truth(v)
            if isinstance(n.op, ast.USub) and isinstance(v, int):
                return -v
            raise AnalysisError(f"bound evaluator: operator in `{src(n)}`")
        if isinstance(n, ast.BoolOp):
            v = None
            for x in n.values:
                v = self.eval(x, env)
                if isinstance(n.op, ast.And) and not self.truth(v):
                    return v
                if isinstance(n.op, ast.Or) and self.truth(v):
                    return v
            return v
        if isinstance(n, ast.IfExp):
            return self.eval(n.body if self.truth(self.eval(n.test, env)) else n.orelse, env)
        if isinstance(n, ast.BinOp):
            a, b = self.eval(n.left, env), self.eval(n.right, env)
            if isinstance(a, bool) or isinstance(b, bool) or not isinstance(a, int) or not isinstance(b, int):
                if isinstance(a, frozenset) and isinstance(b, frozenset):
                    if isinstance(n.op, ast.BitOr):
                        return a | b
                    if isinstance(n.op, ast.BitAnd):
                        return a & b
                    if isinstance(n.op, ast.Sub):
                        return a - b
                raise Crash(f"`{src(n)}` with operands {a!r}, {b!r}")
            if isinstance(n.op, ast.Add):
                return a + b
            if isinstance(n.op, ast.Sub):
                return a - b
            if isinstance(n.op, ast.Mult):
                return a * b
            raise AnalysisError(f"bound evaluator: operator in `{src(n)}`")
        if isinstance(n, ast.Compare):
            left = self.eval(n.left, env)
            for op, c in zip(n.ops, n.comparators):
                right = self.eval(c, env)
                if not self.compare(op, left, right, n):
                    return False
                left = right
            return True
        if isinstance(n, ast.Call):
            return self.call(n, env)
        if isinstance(n, (ast.Tuple, ast.List)):
            return tuple(self.eval(e, env) for e in n.elts)
        raise AnalysisError(f"bound evaluator: expression `{src(n)[:60]}` is outside the fragment")

    def compare(self, op, a, b, n) -> bool:
        if isinstance(op, ast.Is):
            return a is b or (isinstance(a, (int, bool)) and isinstance(b, (int, bool)) and type(a) is type(b) and a == b)
        if isinstance(op, ast.IsNot):
            return not self.compare(ast.Is(), a, b, n)
        if isinstance(op, ast.Eq):
            return a == b
        if isinstance(op, ast.NotEq):
            return a != b
        if a is None or b is None or isinstance(a, Obj) or isinstance(b, Obj):
            raise Crash(f"`{src(n)}` compares {a!r} with {b!r}")
        if isinstance(a, frozenset) != isinstance(b, frozenset):
            raise Crash(f"`{src(n)}` compares {a!r} with {b!r}")
        if isinstance(op, ast.Lt):
            return a < b
        if isinstance(op, ast.LtE):
            return a <= b
        if isinstance(op, ast.Gt):
            return a > b
        if isinstance(op, ast.GtE):
            return a >= b
        raise AnalysisError(f"bound evaluator: comparison in `{src(n)}`")

    def getattr(self, o, name: str, n: ast.AST):
        if isinstance(o, range) and name in ("start", "stop", "step"):
            return getattr(o, name)
        if isinstance(o, Obj):
            if name in o.attrs:
                return o.attrs[name]
            if o.cls is not None:
                f = self.m.method(o.cls, name)
                if f is not None and f.is_property:
                    if f.is_abstract:
                        return self.oracle.pick()
                    return self.call_function(f, o, [], {})
                if f is not None:
                    return ("bound-method", o, f)
        raise AnalysisError(f"bound evaluator: attribute `{src(n)}` of {o!r} is not modelled")

    def call(self, n: ast.Call, env: dict):
        f = n.func
        if isinstance(f, ast.Name) and f.id in ("min", "max"):
            vals = [self.eval(a, env) for a in n.args]
            if len(vals) == 1 and isinstance(vals[0], tuple):
                vals = list(vals[0])
            if any(v is None or isinstance(v, (Obj, frozenset)) for v in vals) or not vals:
                raise Crash(f"`{src(n)}` over {vals!r}")
            return min(vals) if f.id == "min" else max(vals)
        if isinstance(f, ast.Name) and f.id == "len" and len(n.args) == 1:
            v = self.eval(n.args[0], env)
            if isinstance(v, (frozenset, tuple)):
                return len(v)
            raise Crash(f"len of {v!r}")
        if isinstance(f, ast.Name) and f.id == "bool" and len(n.args) == 1:
            return self.truth(self.eval(n.args[0], env))
        if isinstance(f, ast.Name) and f.id == "int" and len(n.args) == 1 and not n.keywords and "int" not in env:
            v = self.eval(n.args[0], env)
            if isinstance(v, (bool, int)):
                return int(v)
            raise Crash(f"int() of {v!r}")
        if isinstance(f, ast.Name) and f.id in ("any", "all") and len(n.args) == 1 and isinstance(n.args[0], (ast.GeneratorExp, ast.ListComp)):
            g = n.args[0].generators[0]
            it = self.eval(g.iter, env)
            if not isinstance(it, (frozenset, tuple)):
                raise AnalysisError(f"bound evaluator: iteration in `{src(n)[:60]}`")
            if not it:
                return f.id == "all"
            # an unknown predicate over the elements: may hold for some, all or none of them
            return self.oracle.pick()
        if isinstance(f, ast.Name) and f.id in ("frozenset", "set") and not n.args:
            return frozenset()
        if isinstance(f, ast.Attribute):
            o = self.eval(f.value, env)
            if isinstance(o, Obj) and o.cls is not None:
                meth = self.m.method(o.cls, f.attr)
                if meth is not None and not meth.is_abstract:
                    args = [self.eval(a, env) for a in n.args]
                    kwargs = {k.arg: self.eval(k.value, env) for k in n.keywords if k.arg}
                    return self.call_function(meth, o, args, kwargs)
        raise AnalysisError(f"bound evaluator: call `{src(n)[:60]}` is outside the fragment")


def all_outcomes(ctx: Ctx, fn):
    """Run ``fn(interp)`` under every resolution of the unknown predicates; yields ('value', v) / ('crash', msg)."""
    pending: list[list[bool]] = [[]]
    while pending:
        choices = pending.pop()
        interp = Interp(ctx, Oracle(choices))
        try:
            yield "value", fn(interp)
        except _NeedChoice:
            if len(choices) > 6:
                raise AnalysisError("bound evaluator: too many unknown predicates")
            pending.append(choices + [False])
            pending.append(choices + [True])
        except Crash as e:
            yield "crash", str(e)


def _rel(lo: int, hi: int | None, cols: bool) -> Obj:
    return Obj(None, min_rows=lo, max_rows=hi, columns=frozenset({"c"}) if cols else frozenset())


def _bounds_grid():
    for lo in range(0, GRID):
        for hi in list(range(lo, GRID + 1)) + [None]:
            yield lo, hi


def _counts(lo: int, hi: int | None):
    return range(lo, (hi if hi is not None else lo + 3) + 1)


def _check(run, rule, inst, fi, label, lo_decl, hi_decl, r_min, r_max, where: str):
    """declared [lo_decl, hi_decl] must contain the reference range [r_min, r_max]."""
    if not isinstance(lo_decl, int) or isinstance(lo_decl, bool) or not (hi_decl is None or (isinstance(hi_decl, int) and not isinstance(hi_decl, bool))):
        return f"{label} declares bounds ({lo_decl!r}, {hi_decl!r}) that are not integers (or None for the upper bound) for {where}"
    if lo_decl > r_min:
        return f"{label}: applied_min_rows = {lo_decl} but the result can have as few as {r_min} row(s) for {where}"
    if hi_decl is not None and hi_decl < r_max:
        return f"{label}: applied_max_rows = {hi_decl} but the result can have {r_max} row(s) for {where}"
    return None


def r06_7_bound_formulas(ctx: Ctx, rule: str = "R06.7") -> None:
    run, m, k = ctx.run, ctx.m, ctx.k
    run.rule(
        rule,
        "row-bound formulas are sound for the operation's bag semantics: for every declared operand range (all small "
        "values incl. None), every actual count within it, every slice window and both column cases, the declared "
        "[applied_min_rows, applied_max_rows] contains every row count the reference semantics allows",
        expected_min=10,
    )

    def op(name: str) -> ClassInfo:
        return ctx.op_class(name)

    def declared(cls: ClassInfo, self_attrs: dict, operands: list[Obj]):
        """All (lo, hi) the two methods can declare for the operands, or a crash message."""
        fmin, fmax = m.method(cls, "applied_min_rows"), m.method(cls, "applied_max_rows")
        if fmin is None or fmax is None or fmin.is_abstract or fmax.is_abstract:
            raise AnalysisError(f"{cls.key} has no concrete applied_min_rows/applied_max_rows")

        def go(interp: Interp):
            me = Obj(cls, **self_attrs)
            return interp.call_function(fmin, me, list(operands), {}), interp.call_function(fmax, me, list(operands), {})

        return list(all_outcomes(ctx, go)), fmin, fmax

    def unary(name: str, self_grid, reference, n_checked=[0]):
        """reference(attrs, n, cols) -> (r_min, r_max)"""
        cls = op(name)
        problem = None
        fi = None
        cases = 0
        for attrs in self_grid:
            for lo, hi in _bounds_grid():
                for cols in (False, True):
                    outs, fmin, fmax = declared(cls, attrs, [_rel(lo, hi, cols)])
                    fi = fmax
                    for kind, v in outs:
                        where = f"a target with min_rows={lo}, max_rows={hi}, {'some' if cols else 'no'} columns" + (f", {', '.join(f'{a}={b!r}' for a, b in attrs.items() if not isinstance(b, Obj))}" if attrs else "")
                        if kind == "crash":
                            problem = problem or f"{name}: computing the bounds fails ({v}) for {where}"
                            continue
                        for n in _counts(lo, hi):
                            cases += 1
                            r_min, r_max = reference(attrs, n, cols)
                            problem = problem or _check(run, rule, name, fi, name, v[0], v[1], r_min, r_max, where + f" holding {n} row(s)")
        if problem:
            run.fail(rule, f"{name}:bounds", problem + ": consumers trust these bounds (join elision, empty short-circuits, chain pruning)", fi=fi)
        else:
            run.ok(rule, f"{name}:bounds", {"cases": cases})

    same = lambda a, n, c: (n, n)  # noqa: E731
    for name in ("Calculation", "Projection", "Sort", "Identity"):
        extra = [{}]
        if name == "Projection":
            # with and without columns: a projection onto nothing still has one (empty) row per row of its target
            extra = [{"columns": frozenset()}, {"columns": frozenset({"k"})}]
        unary(name, extra, same)
    unary("Deduplication", [{}], lambda a, n, c: (min(n, 1), n if c else min(n, 1)))
    unary("Selection", [{}], lambda a, n, c: (0, n))
    slice_grid = []
    for start in range(0, GRID):
        for stop in list(range(start, GRID + 2)) + [None]:
            slice_grid.append({"start": start, "stop": stop})

    def slice_ref(a, n, c):
        hi = n if a["stop"] is None else min(a["stop"], n)
        r = max(hi - a["start"], 0)
        return r, r

    unary("Slice", slice_grid, slice_ref)

    # extensible bases: flags are whatever a subclass says
    for base_name, ref in (("RowFilter", None), ("Reordering", same)):
        cls = ctx.cls("_unary_operation.py", base_name)
        problem = None
        fi = m.method(cls, "applied_min_rows")
        cases = 0
        for lo, hi in _bounds_grid():
            for cols in (False, True):
                for ci, ei in itertools.product((False, True), repeat=2):
                    attrs = {}
                    # flags fixed by the base class are read from it; open ones are enumerated
                    for flag, val in (("is_count_invariant", ci), ("is_empty_invariant", ei)):
                        f = m.method(cls, flag)
                        if f is None or f.is_abstract:
                            attrs[flag] = val
                    outs, fmin, fmax = declared(cls, attrs, [_rel(lo, hi, cols)])
                    for kind, v in outs:
                        where = f"a target with min_rows={lo}, max_rows={hi}" + "".join(f", {a}={b}" for a, b in attrs.items())
                        if kind == "crash":
                            problem = problem or f"{base_name}: computing the bounds fails ({v}) for {where}"
                            continue
                        me = Obj(cls, **attrs)
                        for n in _counts(lo, hi):
                            cases += 1
                            if ref is not None:
                                r_min, r_max = ref(attrs, n, cols)
                            else:
                                interp = Interp(ctx, Oracle([]))
                                civ = interp.getattr(me, "is_count_invariant", fi.node)
                                eiv = interp.getattr(me, "is_empty_invariant", fi.node)
                                r_min = n if civ else (min(n, 1) if eiv else 0)
                                r_max = n
                            problem = problem or _check(run, rule, base_name, fi, base_name, v[0], v[1], r_min, r_max, where + f" holding {n} row(s)")
        if problem:
            run.fail(rule, f"{base_name}:bounds", problem, fi=fi)
        else:
            run.ok(rule, f"{base_name}:bounds", {"cases": cases})

    # binary operations
    true_pred = Obj(m.find_class("PredicateLiteral"), value=True)
    # a join as it sits in a tree (common columns resolved to the operands' only column `c`), and an unresolved one
    JOIN_ATTRS = [
        {"predicate": true_pred, "min_columns": frozenset({"c"}), "max_columns": frozenset({"c"})},
        {"predicate": true_pred, "min_columns": frozenset(), "max_columns": frozenset()},
        {"predicate": true_pred, "min_columns": frozenset(), "max_columns": None},
    ]

    def binary(name: str, reference):
        cls = op(name)
        problem = None
        fi = m.method(cls, "applied_max_rows")
        cases = 0
        for (lo1, hi1), (lo2, hi2), self_attrs in itertools.product(list(_bounds_grid()), list(_bounds_grid()), JOIN_ATTRS if name == "Join" else [{}]):
            outs, fmin, fmax = declared(cls, self_attrs, [_rel(lo1, hi1, True), _rel(lo2, hi2, True)])
            for kind, v in outs:
                where = f"operands with bounds [{lo1}, {hi1}] and [{lo2}, {hi2}]" + (f" (each with the single column c; min_columns={set(self_attrs['min_columns'])}, max_columns={self_attrs['max_columns'] if self_attrs['max_columns'] is None else set(self_attrs['max_columns'])})" if self_attrs else "")
                if kind == "crash":
                    problem = problem or f"{name}: computing the bounds fails ({v}) for {where}"
                    continue
                for n1 in _counts(lo1, hi1):
                    for n2 in _counts(lo2, hi2):
                        cases += 1
                        r_min, r_max = reference(n1, n2)
                        problem = problem or _check(run, rule, name, fi, name, v[0], v[1], r_min, r_max, where + f" holding {n1} and {n2} row(s)")
        if problem:
            run.fail(rule, f"{name}:bounds", problem, fi=fi)
        else:
            run.ok(rule, f"{name}:bounds", {"cases": cases})

    binary("Chain", lambda a, b: (a + b, a + b))
    binary("Join", lambda a, b: (0, a * b))

    # PartialJoin: a join with one operand fixed, on either side
    pj = op("PartialJoin")
    join = op("Join")
    problem = None
    fi = m.method(pj, "applied_max_rows")
    cases = 0
    for (lo1, hi1), (lo2, hi2) in itertools.product(list(_bounds_grid()), repeat=2):
        for fixed_is_lhs in (False, True):
            attrs = {"binary": Obj(join, **JOIN_ATTRS[0]), "fixed": _rel(lo1, hi1, True), "fixed_is_lhs": fixed_is_lhs}
            outs, fmin, fmax = declared(pj, attrs, [_rel(lo2, hi2, True)])
            for kind, v in outs:
                where = f"a fixed operand with bounds [{lo1}, {hi1}] ({'lhs' if fixed_is_lhs else 'rhs'}) and a target with [{lo2}, {hi2}]"
                if kind == "crash":
                    problem = problem or f"PartialJoin: computing the bounds fails ({v}) for {where}"
                    continue
                for n1 in _counts(lo1, hi1):
                    for n2 in _counts(lo2, hi2):
                        cases += 1
                        problem = problem or _check(run, rule, "PartialJoin", fi, "PartialJoin", v[0], v[1], 0, n1 * n2, where + f" holding {n1} and {n2} row(s)")
    if problem:
        run.fail(rule, "PartialJoin:bounds", problem, fi=fi)
    else:
        run.ok(rule, "PartialJoin:bounds", {"cases": cases})

    # IgnoreOne: the kept operand's own bounds
    io = op("IgnoreOne")
    problem = None
    fi = m.method(io, "applied_max_rows")
    cases = 0
    for (lo1, hi1), (lo2, hi2) in itertools.product(list(_bounds_grid()), repeat=2):
        for ignore_lhs in (False, True):
            outs, fmin, fmax = declared(io, {"ignore_lhs": ignore_lhs}, [_rel(lo1, hi1, True), _rel(lo2, hi2, True)])
            for kind, v in outs:
                where = f"ignore_lhs={ignore_lhs}, operands [{lo1}, {hi1}] and [{lo2}, {hi2}]"
                if kind == "crash":
                    problem = problem or f"IgnoreOne: computing the bounds fails ({v}) for {where}"
                    continue
                kept = (lo2, hi2) if ignore_lhs else (lo1, hi1)
                for n in _counts(*kept):
                    cases += 1
                    problem = problem or _check(run, rule, "IgnoreOne", fi, "IgnoreOne", v[0], v[1], n, n, where + f", kept operand holding {n} row(s)")
    if problem:
        run.fail(rule, "IgnoreOne:bounds", problem, fi=fi)
    else:
        run.ok(rule, "IgnoreOne:bounds", {"cases": cases})

    # invariance flags must not promise more than the reference semantics gives
    REF_FLAGS = {
        "Calculation": (True, True),
        "Projection": (True, True),
        "Sort": (True, True),
        "Identity": (True, True),
        "Deduplication": (False, True),
        "Selection": (False, False),
        "Slice": (False, False),
        "PartialJoin": (False, False),
    }
    for name, (count_ok, empty_ok) in REF_FLAGS.items():
        cls = op(name)
        for flag, allowed in (("is_count_invariant", count_ok), ("is_empty_invariant", empty_ok)):
            val = m.const_property(cls, flag)
            inst = f"{name}.{flag}"
            if val is True and not allowed:
                run.fail(rule, inst, f"{name}.{flag} is True, but a {name.lower()} can {'change the number of rows' if flag == 'is_count_invariant' else 'remove every row'}: bounds and diagnostics derived from the flag are wrong", fi=m.method(cls, flag))
            elif val in (True, False):
                run.ok(rule, inst, {"value": val})
            else:
                run.fail(rule, inst, f"{name}.{flag} is not a constant; the reference allows at most {allowed}", fi=m.method(cls, flag))
