"""Column-expression rules: R13.* (folding, flattening, required columns) and R12.* (engines agree)."""

from __future__ import annotations

import ast

from ..astutil import AnalysisError, call_attr, dotted, iter_calls, kw, pattern_captures, src
from ..facts import has_fact, path_facts
from ..flow import backward_slice, case_index, path_calls
from ..model import NONCONST, ClassInfo, FunctionInfo
from ..paths import Path, env_at, resolve_name
from ..props.common import ENGINE, EXPRESSION, IT_ENGINE, OPS, PREDICATE, SQL_ENGINE, Ctx, describe

# connective -> (identity element, absorbing element, python combinator, sqlalchemy combinator)
CONNECTIVES = {
    "LogicalAnd": (True, False, "all", "and_"),
    "LogicalOr": (False, True, "any", "or_"),
}


def _const(node) -> object:
    return node.value if isinstance(node, ast.Constant) else NONCONST


# ------------------------------------------------------------------ R13.1


def _cargs(call: ast.Call) -> list[str]:
    """Argument texts of a constructor call in field order, whether passed positionally or by keyword."""
    from ..astutil import ctor_args

    a = ctor_args(call)
    return [src(x) for x in (a if a is not None else call.args)]


def r13_1_as_trivial(ctx: Ctx, rule: str = "R13.1") -> None:
    run, m = ctx.run, ctx.m
    run.rule(
        rule,
        "as_trivial connective table: And/Or start from the identity element, return the absorbing element only when an "
        "operand folded to it, degrade to None only for an unknown operand; Not keeps None and negates otherwise; only "
        "literal/not/and/or may fold to a constant",
        expected_min=14,
    )
    # the result of folding/flattening is decided exactly on all small trees (sa/rules/foldeval.py); the shape rules
    # below additionally pin the Kleene table path by path where the fold is written as a loop over the operands
    from . import foldeval

    foldeval.fold_instances(ctx, rule)
    # a fold that is sound on every small tree but written (or completed) differently is not a violation: the shape
    # rules localise a failure of the exact decision, they do not condemn a rewrite
    exact_ok = all(ok for inst_, ok, *_ in foldeval.decided(ctx) if inst_.startswith("as_trivial"))

    def shape_fail(inst, msg, **kw):
        if exact_ok:
            run.ok(rule, inst, {"shape_deviation": msg})
        else:
            run.fail(rule, inst, msg, **kw)

    for cname, (ident, absorb, _py, _sql) in CONNECTIVES.items():
        c = ctx.cls(PREDICATE, cname)
        f = c.methods.get("as_trivial")
        if f is None:
            raise AnalysisError(f"{cname}.as_trivial is missing")
        paths = ctx.paths(f)
        if not any(s.kind == "loop" for p in paths for s in p.steps):
            run.note(f"{rule}: {cname}.as_trivial is not written as a loop over the operands; decided by evaluation only")
            continue
        # the loop ranges over all operands
        loops = {src(s.node.iter) for p in paths for s in p.steps if s.kind == "loop" and isinstance(s.node, ast.For)}
        if loops == {"self.operands"}:
            run.ok(rule, f"{cname}:all-operands")
        else:
            run.fail(rule, f"{cname}:all-operands", f"{cname}.as_trivial folds over {sorted(loops)} instead of every operand", fi=f)
        for i, p in enumerate(paths):
            inst = f"{cname}:path{i}"
            if p.outcome != "return":
                run.fail(rule, inst, "as_trivial has a non-returning path", fi=f, node=p.node or f.node)
                continue
            v = p.value
            facts = path_facts(p)
            entered = any(s.kind == "loop" and s.value for s in p.steps)
            problem = None
            if isinstance(v, ast.Constant):
                # early constant
                if v.value is not absorb:
                    problem = f"returns the constant {v.value!r} directly; only the absorbing element {absorb!r} may be returned early"
                elif not any(fct.kind == "IS" and fct.polarity and repr(absorb) in fct.args for fct in facts):
                    problem = f"returns {absorb!r} without an operand having folded to {absorb!r}"
            elif isinstance(v, ast.Name):
                # value of the accumulator: initial constant unless re-assigned on the path
                assigns = [s.node for s in p.steps if s.kind == "stmt" and isinstance(s.node, (ast.Assign, ast.AnnAssign)) and v.id in [src(t) for t in (s.node.targets if isinstance(s.node, ast.Assign) else [s.node.target])]]
                if not assigns:
                    raise AnalysisError(f"{cname}.as_trivial returns `{v.id}` which is never assigned")
                init = assigns[0].value
                if _const(init) is not ident:
                    problem = f"the fold starts from {src(init)} instead of the identity element {ident!r} (an empty {cname} must fold to {ident!r})"
                for a in assigns[1:]:
                    if _const(a.value) is not None:
                        problem = problem or f"the accumulator is overwritten with {src(a.value)}"
                    else:
                        idx = p.index_of(a)
                        if not any(fct.kind == "IS" and fct.polarity and "None" in fct.args for fct in path_facts(p, idx)):
                            problem = problem or "the result is degraded to None without an operand being unknown (None)"
                if entered and len(assigns) == 1:
                    # operand neither absorbing nor None on this path: must have been tested
                    if not any(fct.kind == "IS" and not fct.polarity and repr(absorb) in fct.args for fct in facts):
                        problem = problem or f"an operand is skipped without testing whether it folded to {absorb!r}"
                    if not any(fct.kind == "IS" and not fct.polarity and "None" in fct.args for fct in facts):
                        problem = problem or "an operand is skipped without testing whether it is unknown (None)"
            else:
                problem = f"returns `{src(v)[:50]}`"
            if problem:
                shape_fail(inst, f"{cname}.as_trivial {problem}", fi=f, node=p.node, details=describe(p))
            else:
                run.ok(rule, inst, {"path": p.describe()})
    # LogicalNot
    c = ctx.cls(PREDICATE, "LogicalNot")
    f = c.methods["as_trivial"]
    for i, p in enumerate(ctx.paths(f)):
        inst = f"LogicalNot:path{i}"
        v = p.value
        facts = path_facts(p)
        if isinstance(v, ast.Constant) and v.value is None:
            if any(fct.kind == "IS" and fct.polarity and "None" in fct.args and "self.operand.as_trivial()" in fct.args for fct in facts):
                run.ok(rule, inst)
            else:
                shape_fail(inst, "LogicalNot.as_trivial returns None although the operand's folding was not None", fi=f, node=p.node)
        elif isinstance(v, ast.UnaryOp) and isinstance(v.op, ast.Not):
            b = resolve_name(p, v.operand.id) if isinstance(v.operand, ast.Name) else v.operand
            if isinstance(b, ast.Call) and src(b) == "self.operand.as_trivial()" and any(fct.kind == "IS" and not fct.polarity and "None" in fct.args for fct in facts):
                run.ok(rule, inst)
            else:
                shape_fail(inst, "LogicalNot.as_trivial negates something other than a known operand value", fi=f, node=p.node)
        else:
            shape_fail(inst, f"LogicalNot.as_trivial returns `{src(v)}` (must be None for unknown, else the negation)", fi=f, node=p.node)
    # who may fold to a constant
    for c in ctx.k.concrete(ctx.k.predicates):
        f = m.method(c, "as_trivial")
        inst = f"{c.name}.as_trivial:may-fold"
        if c.name in ("LogicalAnd", "LogicalOr", "LogicalNot"):
            run.ok(rule, inst)
        elif c.name == "PredicateLiteral":
            rets = {src(p.value) for p in ctx.paths(f)}
            if rets == {"self.value"}:
                run.ok(rule, inst)
            else:
                shape_fail(inst, f"PredicateLiteral.as_trivial returns {sorted(rets)} instead of its value", fi=f)
        else:
            rets = [p.value for p in ctx.paths(f)]
            if all(isinstance(r, ast.Constant) and r.value is None for r in rets):
                run.ok(rule, inst)
            else:
                shape_fail(inst, f"{c.name}.as_trivial folds to a constant although its truth depends on the row", fi=f)
    # zero/one/many-operand factories: evaluated (the checker's interpreter, nothing is run) on 0..3 operands
    pred = ctx.cls(PREDICATE, "Predicate")
    from .bounds import Crash, Obj, Oracle, _NeedChoice
    from .mergeeval import MergeInterp

    refc = ctx.cls(PREDICATE, "PredicateReference")
    xs = [Obj(refc, tag=t) for t in ("x", "y", "z")]
    for fname, (ident, _a, _p, _s) in (("logical_and", CONNECTIVES["LogicalAnd"]), ("logical_or", CONNECTIVES["LogicalOr"])):
        f = pred.methods.get(fname)
        if f is None:
            raise AnalysisError(f"Predicate.{fname} is missing")
        ctor = "LogicalAnd" if fname == "logical_and" else "LogicalOr"
        land_c, lor_c = ctx.cls(PREDICATE, "LogicalAnd"), ctx.cls(PREDICATE, "LogicalOr")
        cases = [(f"{n}-operands", xs[:n]) for n in range(0, 4)]
        # operands that are themselves connectives stay what they are: p or (q and r) is not p or q or r
        cases.append(("nested-and", [xs[0], Obj(land_c, operands=(xs[1], xs[2]))]))
        cases.append(("nested-or", [Obj(lor_c, operands=(xs[0], xs[1])), xs[2]]))
        cases.append(("single-nested", [Obj(land_c if fname == "logical_or" else lor_c, operands=(xs[0], xs[1]))]))
        same_c = land_c if fname == "logical_and" else lor_c
        cases.append(("same-first", [Obj(same_c, operands=(xs[0], xs[1])), xs[2]]))
        cases.append(("same-last", [xs[0], Obj(same_c, operands=(xs[1], xs[2]))]))
        for label, ops in cases:
            n = len(ops)
            inst = f"Predicate.{fname}:{label}"
            interp = MergeInterp(ctx, Oracle([]), pred.module, {})

            def _tags(o):
                if o.cls.name == "PredicateReference":
                    return {o.attrs["tag"]}
                if o.cls.name == "LogicalNot":
                    return _tags(o.attrs["operand"])
                return {t for x in o.attrs.get("operands", ()) for t in _tags(x)}

            try:
                # the operands have been looked at before (any caller that validated them did): cached answers exist
                for o in ops:
                    interp.getattr(o, "columns_required", f.node)
                got = interp.call_function(f, None, list(ops), {})
                if n >= 2 and isinstance(got, Obj) and got.cls is not None and interp.m.method(got.cls, "columns_required") is not None:
                    req = interp.getattr(got, "columns_required", f.node)
                    want_req = {t for o in ops for t in _tags(o)}
                    if set(req) != want_req:
                        run.fail(
                            rule,
                            inst,
                            f"Predicate.{fname}({', '.join('<' + o.cls.name + '>' for o in ops)}) returns an object whose columns_required is {sorted(req)} instead of {sorted(want_req)} "
                            "when the operands' own columns_required had been read before: an answer cached on an operand was carried over into the result",
                            fi=f,
                        )
                        continue
                    stale = [o for o in ops if set(interp.getattr(o, "columns_required", f.node)) != _tags(o)]
                    if stale:
                        run.fail(rule, inst, f"Predicate.{fname} changes an operand: its columns_required no longer matches its operands", fi=f)
                        continue
            except Crash as e:
                run.fail(rule, inst, f"Predicate.{fname} with {n} operand(s) fails: {e}", fi=f)
                continue
            except _NeedChoice:
                raise AnalysisError(f"Predicate.{fname} depends on a predicate the evaluator cannot decide")
            if n == 0:
                ok = isinstance(got, Obj) and got.cls.name == "PredicateLiteral" and got.attrs.get("value") is ident
                msg = f"Predicate.{fname}() with no operands does not return the literal {ident!r}"
            elif n == 1:
                ok = got is ops[0]
                msg = f"Predicate.{fname}(x) does not return x itself"
            else:
                import itertools as _it

                def _val(o, asg):
                    nm = o.cls.name
                    if nm == "PredicateReference":
                        return asg[o.attrs["tag"]]
                    if nm == "PredicateLiteral":
                        return bool(o.attrs["value"])
                    if nm == "LogicalNot":
                        return not _val(o.attrs["operand"], asg)
                    vals = [_val(x, asg) for x in o.attrs["operands"]]
                    return all(vals) if nm == "LogicalAnd" else any(vals)

                def _leaves(o):
                    if o.cls.name == "PredicateReference":
                        return [o.attrs["tag"]]
                    if o.cls.name == "LogicalNot":
                        return _leaves(o.attrs["operand"])
                    return [t for x in o.attrs.get("operands", ()) for t in _leaves(x)]

                want = Obj(land_c if fname == "logical_and" else lor_c, operands=tuple(ops))
                ok = isinstance(got, Obj) and got.cls is not None and got.cls.name in ("LogicalAnd", "LogicalOr", "LogicalNot", "PredicateReference", "PredicateLiteral")
                if ok:
                    asgs = [dict(zip("xyz", v)) for v in _it.product((False, True), repeat=3)]
                    ok = all(_val(got, a) == _val(want, a) for a in asgs) and _leaves(got) == _leaves(want)
                msg = f"Predicate.{fname}({', '.join('<' + o.cls.name + '>' for o in ops)}) is not equivalent to the {'conjunction' if fname == 'logical_and' else 'disjunction'} of its operands in the given order"
            if ok:
                run.ok(rule, inst)
            else:
                run.fail(rule, inst, msg + f" (got {got!r:.80})", fi=f)
    notf = pred.methods.get("logical_not")
    if notf and all(isinstance(p.value, ast.Call) and (dotted(p.value.func) or "") == "LogicalNot" and _cargs(p.value) == ["self"] for p in ctx.paths(notf)):
        run.ok(rule, "Predicate.logical_not")
    else:
        run.fail(rule, "Predicate.logical_not", "Predicate.logical_not does not return LogicalNot(self)", fi=notf or f)


# ------------------------------------------------------------------ R13.2 / R13.3


def r13_2_flatten(ctx: Ctx, rule: str = "R13.2") -> None:
    run, m = ctx.run, ctx.m
    run.rule(
        rule,
        "flatten_logical_and: False only for a falsy literal or a nested False; [] only for a truthy literal; the And arm "
        "concatenates the flattening of every operand; anything else is [predicate]",
        expected_min=6,
    )
    f = m.func(PREDICATE, "flatten_logical_and")
    pr = f.params[0]
    # the result is decided exactly by evaluation (foldeval); the path shapes below localise a failure, they do not
    # condemn an equivalent rewrite
    from . import foldeval

    exact_ok = all(ok for inst_, ok, *_ in foldeval.decided(ctx) if inst_.startswith("flatten"))
    for i, p in enumerate(ctx.paths(f)):
        inst = f"flatten:path{i}"
        v = p.value
        facts = path_facts(p)
        ia = case_index(p, "LogicalAnd", pr)
        il = case_index(p, "PredicateLiteral", pr)
        problem = None
        from ..astutil import pattern_class_names

        if ia >= 0 and pattern_class_names(p.steps[ia].node.pattern) != ["LogicalAnd"]:  # type: ignore[union-attr]
            problem = f"the conjunction arm also matches {pattern_class_names(p.steps[ia].node.pattern)}: only a LogicalAnd may be split into conjuncts"  # type: ignore[union-attr]
        if il >= 0 and pattern_class_names(p.steps[il].node.pattern) != ["PredicateLiteral"]:  # type: ignore[union-attr]
            problem = "the literal arm matches more than PredicateLiteral"
        if problem:
            pass
        elif p.outcome != "return":
            problem = "non-returning path"
        elif isinstance(v, ast.Constant) and v.value is False:
            if il >= 0:
                caps = pattern_captures(p.steps[il].node.pattern)  # type: ignore[union-attr]
                val = [n for n, a in caps.items() if a == ("value",)] + [f"{pr}.value"]
                if not any(fct.kind == "TRUTH" and not fct.polarity and fct.args[0] in val for fct in facts):
                    problem = "returns False for a literal that was not tested falsy"
            elif ia >= 0:
                if not any(fct.kind == "IS" and fct.polarity and "False" in fct.args and any("flatten_logical_and" in a or a.isidentifier() for a in fct.args) for fct in facts):
                    problem = "returns False inside the And arm without a nested flattening having returned False"
            else:
                problem = "returns False for a predicate that is neither a falsy literal nor a conjunction containing one"
        elif isinstance(v, ast.List) and not v.elts:
            if il < 0 or not any(fct.kind == "TRUTH" and fct.polarity for fct in facts):
                problem = "returns [] (always true) for something other than a truthy literal"
        elif isinstance(v, ast.List) and len(v.elts) == 1 and src(v.elts[0]) == pr:
            if ia >= 0 or il >= 0:
                problem = "returns [predicate] inside the And/literal arm"
        elif isinstance(v, ast.Name) and ia >= 0:
            # accumulated list: every operand's flattening extends it
            loops = [s for s in p.steps if s.kind == "loop" and isinstance(s.node, ast.For)]
            caps = pattern_captures(p.steps[ia].node.pattern)  # type: ignore[union-attr]
            ops = [n for n, a in caps.items() if a == ("operands",)] + [f"{pr}.operands"]
            if not loops or src(loops[0].node.iter) not in ops:  # type: ignore[union-attr]
                problem = "the And arm does not iterate over every operand"
            elif loops[0].value:
                ext = [c for _, c in path_calls(p, ia) if call_attr(c) in ("extend",) and isinstance(c.func, ast.Attribute) and src(c.func.value) == v.id]
                okx = False
                for c in ext:
                    a = c.args[0] if c.args else None
                    b = resolve_name(p, a.id) if isinstance(a, ast.Name) else a
                    if isinstance(b, ast.Call) and call_attr(b) == "flatten_logical_and" and b.args and src(b.args[0]) == src(loops[0].node.target):  # type: ignore[union-attr]
                        okx = True
                if not okx:
                    problem = "an operand's flattening is not appended to the result"
            init = [s.node for s in p.steps if s.kind == "stmt" and isinstance(s.node, (ast.Assign, ast.AnnAssign)) and src(s.node.targets[0] if isinstance(s.node, ast.Assign) else s.node.target) == v.id]
            if init and not (isinstance(init[0].value, ast.List) and not init[0].value.elts):
                problem = problem or "the accumulated conjunct list does not start empty"
        else:
            problem = f"returns `{src(v)[:40]}`"
        if problem and not exact_ok:
            run.fail(rule, inst, f"flatten_logical_and {problem}", fi=f, node=p.node or f.node, details=describe(p))
        elif problem:
            # written differently from the pinned implementation, but equivalent on every small tree (R13.5)
            run.ok(rule, inst, {"path": p.describe(), "shape_deviation": problem})
        else:
            run.ok(rule, inst, {"path": p.describe()})


def r13_3_selection_normalisation(ctx: Ctx, rule: str = "R13.3") -> None:
    run = ctx.run
    run.rule(rule, "Selection.__post_init__ replaces the predicate only by Predicate.logical_and(*flatten(old predicate)), and only when the flattening is not False", expected_min=2)
    f = ctx.op_class("Selection").methods.get("__post_init__")
    if f is None:
        run.ok(rule, "Selection:no-normalisation", {"note": "predicate stored as given"})
        run.ok(rule, "Selection:no-normalisation:2")
        return
    stores = 0
    for i, p in enumerate(ctx.paths(f)):
        inst = f"Selection.__post_init__:path{i}"
        sets = [c for _, c in path_calls(p) if call_attr(c) in ("__setattr__", "setattr") and len(c.args) >= 3 and _const(c.args[1]) == "predicate"]
        if not sets:
            run.ok(rule, inst)
            continue
        stores += 1
        val = sets[0].args[2]
        facts = path_facts(p)
        ok = isinstance(val, ast.Call) and call_attr(val) == "logical_and" and len(val.args) == 1 and isinstance(val.args[0], ast.Starred)
        seq = val.args[0].value if ok else None
        b = resolve_name(p, seq.id) if isinstance(seq, ast.Name) else seq
        ok = ok and isinstance(b, ast.Call) and call_attr(b) == "flatten_logical_and" and b.args and src(b.args[0]) == "self.predicate"
        ok = ok and any(fct.kind == "IS" and not fct.polarity and "False" in fct.args for fct in facts)
        if ok:
            run.ok(rule, inst, {"store": src(sets[0])})
        else:
            run.fail(rule, inst, f"Selection stores `{src(val)[:60]}`: not the conjunction of the flattened original predicate under `is not False`", fi=f, node=sets[0], details=describe(p))


# ------------------------------------------------------------------ R13.4


EXPR_TYPE_NAMES = {"ColumnExpression", "Predicate", "ColumnContainer"}


def _child_fields(ctx: Ctx, c: ClassInfo) -> list[str]:
    out = []
    for f in ctx.m.fields(c):
        names = {n.id for n in ast.walk(f.annotation) if isinstance(n, ast.Name)} if f.annotation is not None else set()
        if isinstance(f.annotation, ast.Constant) and isinstance(f.annotation.value, str):
            names = set(__import__("re").findall(r"\w+", f.annotation.value))
        if names & EXPR_TYPE_NAMES:
            out.append(f.name)
    return out


def r13_4_required_columns(ctx: Ctx, rule: str = "R13.4") -> None:
    run, m, k = ctx.run, ctx.m, ctx.k
    run.rule(
        rule,
        "required columns / engine support: every child-expression field of every expression class contributes to "
        "columns_required and to is_supported_by; references require exactly their tag; literals nothing",
        expected_min=20,
    )
    classes = k.concrete(k.column_exprs) + k.concrete(k.predicates) + k.concrete(k.containers)
    for c in sorted(classes, key=lambda c: c.name):
        children = _child_fields(ctx, c)
        for meth in ("columns_required", "is_supported_by"):
            f = m.method(c, meth)
            if f is None or f.is_abstract:
                run.fail(rule, f"{c.name}.{meth}", f"{c.name} has no concrete {meth}", file=c.module.path, line=c.node.lineno, func=c.name)
                continue
            if not children:
                inst = f"{c.name}.{meth}:leaf"
                rets = [p.value for p in ctx.paths(f) if p.outcome == "return"]
                if meth == "columns_required":
                    tag_fields = [fl.name for fl in m.fields(c) if fl.name == "tag"]
                    if tag_fields:
                        ok = all(isinstance(r, (ast.Set, ast.Call)) and src(r) in ("{self.tag}", "frozenset({self.tag})", "frozenset((self.tag,))", "frozenset([self.tag])") for r in rets)
                        msg = "a reference must require exactly its own tag"
                    else:
                        ok = all(src(r) in ("frozenset()", "set()") for r in rets)
                        msg = "a literal requires no columns"
                    if ok:
                        run.ok(rule, inst)
                    else:
                        run.fail(rule, inst, f"{c.name}.columns_required returns {[src(r) for r in rets]}: {msg}", fi=f)
                else:
                    run.ok(rule, inst)
                continue
            for fld in children:
                inst = f"{c.name}.{meth}:{fld}"
                covered = True
                checked = 0
                for p in ctx.paths(f):
                    if p.outcome != "return":
                        continue
                    # paths that skip the loop over a tuple field are the zero-operand case
                    if any(s.kind == "loop" and not s.value and isinstance(s.node, ast.For) and src(s.node.iter) == f"self.{fld}" for s in p.steps):
                        continue
                    # answering "not supported" early is the conservative answer: only acceptance must consult children
                    if meth == "is_supported_by" and isinstance(p.value, ast.Constant) and p.value.value is False:
                        continue
                    sl = backward_slice(p, [p.value], control=True)
                    reads = sl.reads("self", fld)
                    checked += 1
                    uses_child = any(ch[-1] == meth or (meth == "is_supported_by" and "is_supported_by" in ch) for ch in sl.chains) or any(call_attr(cc) == meth for cc in sl.calls)
                    if not (reads and uses_child):
                        covered = False
                # acceptance must *imply* that the child is supported: `A or B and child_ok` consults the child without
                # depending on it (operator precedence, a dropped parenthesis)
                weak = None
                if covered and checked and meth == "is_supported_by":
                    from .. import boolfn as B

                    truth = B.function_truth(ctx.paths(f))
                    if truth is not None:
                        atoms = [a for a in B.atoms_of(truth) if f"self.{fld}" in a and "is_supported_by" in a]
                        if atoms and len(B.atoms_of(truth)) <= B.MAX_ATOMS:
                            if not any(B.implies(truth, ("atom", a))[0] for a in atoms):
                                weak = atoms[0]
                if weak is not None:
                    run.fail(
                        rule,
                        inst,
                        f"{c.name}.is_supported_by can be True although `{weak}` is False (the test of `{fld}` is consulted but the answer "
                        "does not depend on it - check the grouping of and/or): an engine-restricted sub-expression is accepted by the wrong engine",
                        fi=f,
                    )
                elif covered and checked:
                    run.ok(rule, inst)
                else:
                    run.fail(
                        rule,
                        inst,
                        f"{c.name}.{meth} does not take its child field `{fld}` into account"
                        + (": a column used only there would be missing from the declared requirements" if meth == "columns_required" else ": an engine-restricted sub-expression would be accepted by the wrong engine"),
                        fi=f,
                    )
        # engine-restricted functions consult supporting_engine_types
        if any(fl.name == "supporting_engine_types" for fl in m.fields(c)):
            f = m.method(c, "is_supported_by")
            inst = f"{c.name}.is_supported_by:supporting_engine_types"
            txt = src(f.node)
            if "self.supporting_engine_types" in txt and "isinstance(engine, self.supporting_engine_types)" in txt.replace("\n", " "):
                run.ok(rule, inst)
            else:
                run.fail(rule, inst, f"{c.name}.is_supported_by ignores supporting_engine_types", fi=f)
    # operations forward to their expressions
    for opname, field, attr in (("Calculation", "expression", None), ("Selection", "predicate", None), ("Sort", "terms", "expression")):
        c = ctx.op_class(opname)
        for meth in ("columns_required", "is_supported_by"):
            f = c.methods.get(meth)
            inst = f"{opname}.{meth}:{field}"
            if f is None:
                run.fail(rule, inst, f"{opname} does not define {meth}", file=c.module.path, line=c.node.lineno, func=opname)
                continue
            txt = src(f.node)
            if f"self.{field}" in txt and meth in txt.split("def ", 1)[1].split(":", 1)[1]:
                run.ok(rule, inst)
            else:
                run.fail(rule, inst, f"{opname}.{meth} does not derive from its {field}", fi=f)


# ------------------------------------------------------------------ R12


def _arm_paths(ctx: Ctx, f: FunctionInfo, subject: str, cname: str) -> list[tuple[int, Path]]:
    out = []
    for p in ctx.paths(f):
        i = case_index(p, cname, subject)
        if i >= 0:
            out.append((i, p))
    return out


def r12_1_field_coverage(ctx: Ctx, rule: str = "R12.1") -> None:
    run, m, k = ctx.run, ctx.m, ctx.k
    run.rule(rule, "both engines' converters read every semantic field of each expression node they translate", expected_min=30)
    table = [
        (IT_ENGINE, "Engine.convert_column_expression", k.concrete(k.column_exprs)),
        (IT_ENGINE, "Engine.convert_column_container", k.concrete(k.containers)),
        (IT_ENGINE, "Engine.convert_predicate", k.concrete(k.predicates)),
        (SQL_ENGINE, "Engine.convert_column_expression", k.concrete(k.column_exprs)),
        (SQL_ENGINE, "Engine.convert_predicate", k.concrete(k.predicates)),
    ]
    for rel, fn, classes in table:
        f = m.func(rel, fn)
        subj = [p for p in f.params if p != "self"][0]
        for c in classes:
            fields = [fl.name for fl in m.fields(c) if fl.compare and fl.name != "dtype"]
            arms = [(i, p) for i, p in _arm_paths(ctx, f, subj, c.name) if p.outcome == "return"]
            if not arms:
                continue  # totality is R08.1's business
            for fld in fields:
                inst = f"{rel}:{fn}:{c.name}.{fld}"
                ok_all = True
                used = 0
                for i, p in arms:
                    v = p.value
                    # a degenerate constant answer (`literal(False)` for an empty container) needs no field; that the
                    # constant is the right one is decided by the exact rules (R12.7)
                    if isinstance(v, ast.Constant) or (isinstance(v, ast.Call) and call_attr(v) == "literal" and len(v.args) == 1 and isinstance(v.args[0], ast.Constant)):
                        if any(s.kind == "cond" for s in p.steps[i:]):
                            continue
                    sl = backward_slice(p, [p.value], control=True, start=i)
                    if not (sl.reads(subj, fld)):
                        ok_all = False
                    else:
                        used += 1
                if ok_all and used:
                    run.ok(rule, inst)
                else:
                    run.fail(rule, inst, f"{fn} ({rel.split('/')[0]}) does not use field `{fld}` of {c.name}: two different expressions would be translated alike", fi=f, node=arms[0][1].node)
    # the SQL range translation reads start, stop and step
    f = m.func(SQL_ENGINE, "Engine.convert_predicate")
    txt = src(f.node)
    for part in ("start", "stop", "step"):
        inst = f"sql:range.{part}"
        if f"{part}=" in txt or f".{part}" in txt:
            run.ok(rule, inst)
        else:
            run.fail(rule, inst, f"the SQL translation of a range container ignores its {part}", fi=f)


def r12_2_function_lookup(ctx: Ctx, rule: str = "R12.2") -> None:
    run, m = ctx.run, ctx.m
    run.rule(
        rule,
        "one function lookup protocol in both engines: get_function(name) if not None, else the method `name` of the first "
        "argument applied to the rest, arguments in order; get_function is shared and consults `operator` first",
        expected_min=10,
    )
    for rel in (IT_ENGINE, SQL_ENGINE):
        for fn, cname in (("Engine.convert_column_expression", "ColumnFunction"), ("Engine.convert_predicate", "PredicateFunction")):
            f = m.func(rel, fn)
            subj = [p for p in f.params if p != "self"][0]
            arms = [(i, p) for i, p in _arm_paths(ctx, f, subj, cname) if p.outcome == "return"]
            if not arms:
                raise AnalysisError(f"{rel}:{fn} has no {cname} arm")
            for i, p in arms:
                caps = pattern_captures(p.steps[i].node.pattern)  # type: ignore[union-attr]
                name_v = next((n for n, a in caps.items() if a == ("name",)), f"{subj}.name")
                args_v = next((n for n, a in caps.items() if a == ("args",)), f"{subj}.args")
                facts = path_facts(p)
                calls = [c for _, c in path_calls(p, i)]
                gf = [c for c in calls if call_attr(c) == "get_function"]
                # names bound to the looked-up function on this path
                fnames = {"<none>"}
                for s_ in p.steps[i:]:
                    for n_ in ast.walk(s_.node) if not isinstance(s_.node, ast.match_case) else []:
                        if isinstance(n_, ast.Assign) and isinstance(n_.value, ast.Call) and call_attr(n_.value) == "get_function":
                            fnames |= {src(t) for t in n_.targets}
                        if isinstance(n_, ast.NamedExpr) and isinstance(n_.value, ast.Call) and call_attr(n_.value) == "get_function":
                            fnames.add(src(n_.target))

                def about_lookup(fct):
                    return fct.kind == "IS" and "None" in fct.args and any("get_function" in a or a in fnames for a in fct.args)

                found = any(about_lookup(fct) and not fct.polarity for fct in facts)
                missing = any(about_lookup(fct) and fct.polarity for fct in facts)
                inst = f"{rel}:{fn}:{cname}:{'found' if found else 'fallback'}"
                problem = None
                if not gf or src(gf[0].func) != "self.get_function" or [src(a) for a in gf[0].args] != [name_v]:
                    problem = f"the function is not looked up with self.get_function({name_v})"
                sl = backward_slice(p, [p.value], start=i)
                txt = " ".join(src(e) for e in sl.exprs)
                if found and not missing:
                    # result is <looked-up function>(*converted args in order)
                    applied = [c for e in sl.exprs for c in ast.walk(e) if isinstance(c, ast.Call) and isinstance(c.func, ast.Name) and c.func.id in fnames and any(isinstance(a, ast.Starred) for a in c.args)]
                    if not applied:
                        problem = problem or "the looked-up function is not applied to the converted arguments"
                    if args_v not in txt:
                        problem = problem or "the arguments of the function node are not used"
                    if "reversed(" in txt or "[::-1]" in txt:
                        problem = problem or "the arguments are reordered"
                else:
                    ga = [c for c in ast.walk(ast.Module(body=[ast.Expr(e) for e in sl.exprs if isinstance(e, ast.expr)], type_ignores=[])) if isinstance(c, ast.Call) and call_attr(c) == "getattr"]
                    if not ga or len(ga[0].args) < 2 or src(ga[0].args[1]) != name_v:
                        problem = problem or f"the fallback does not call the method `{name_v}` of the first argument"
                    else:
                        recv = ga[0].args[0]
                        base = recv.func if isinstance(recv, ast.Call) else recv  # first(row) in the iteration engine
                        first_ok = (isinstance(base, ast.Subscript) and src(base.slice) == "0") or (
                            isinstance(base, ast.Name) and isinstance(env_at(p).get(base.id), tuple) and env_at(p)[base.id][0] == "unpack" and env_at(p)[base.id][2] == 0
                        )
                        if not first_ok:
                            problem = problem or f"the fallback method is looked up on `{src(recv)}`, not on the first argument"
                    if "reversed(" in txt or "[::-1]" in txt:
                        problem = problem or "the arguments are reordered"
                    if "getattr(operator" in txt:
                        problem = problem or "the fallback goes back to the operator module"
                # every argument goes through the engine's own converter, unconditionally
                comps = [
                    c
                    for e in sl.exprs
                    for c in ast.walk(e)
                    if isinstance(c, (ast.ListComp, ast.GeneratorExp)) and len(c.generators) == 1 and src(c.generators[0].iter) == args_v
                ]
                conv_ok = False
                for c in comps:
                    g = c.generators[0]
                    e_ = c.elt
                    if (
                        not g.ifs
                        and isinstance(g.target, ast.Name)
                        and isinstance(e_, ast.Call)
                        and src(e_.func) == "self.convert_column_expression"
                        and e_.args
                        and isinstance(e_.args[0], ast.Name)
                        and e_.args[0].id == g.target.id
                    ):
                        conv_ok = True
                    else:
                        problem = problem or f"`{src(c)[:90]}` does not hand every argument to self.convert_column_expression: an argument that reaches the function unconverted (a raw Python value, a node) means something else there than in the other engine"
                if not conv_ok and not problem:
                    mp = [c for e in sl.exprs for c in ast.walk(e) if isinstance(c, ast.Call) and isinstance(c.func, ast.Name) and c.func.id == "map" and len(c.args) == 2 and src(c.args[0]) == "self.convert_column_expression" and src(c.args[1]) == args_v]
                    if not mp:
                        problem = f"no conversion of every element of `{args_v}` with self.convert_column_expression feeds the call"
                if problem:
                    run.fail(rule, inst, problem, fi=f, node=p.node, details=describe(p))
                else:
                    run.ok(rule, inst)
    # nobody overrides get_function; the shared one consults operator first
    root = ctx.cls(ENGINE, "Engine")
    owners = [c for c in m.subclasses(root) if "get_function" in c.methods]
    if [c.name for c in owners] == ["GenericConcreteEngine"]:
        run.ok(rule, "get_function:single-definition")
    else:
        run.fail(rule, "get_function:single-definition", f"get_function is (re)defined in {[c.key for c in owners]}: the engines may resolve the same name differently", file=owners[-1].module.path if owners else root.module.path, line=1, func="get_function")
    gf = owners[0].methods["get_function"] if owners else None
    if gf is not None:
        from ..flow import expanded_value

        rets = [src(expanded_value(p)) for p in ctx.paths(gf) if p.outcome == "return"]
        nm = [p for p in gf.params if p != "self"][0]
        if rets == [f"getattr(operator, {nm}, self.functions.get({nm}))"]:
            run.ok(rule, "get_function:operator-first")
        else:
            run.fail(rule, "get_function:operator-first", f"get_function returns {rets}: the standard operator must win over engine-specific functions in every engine", fi=gf)


def r12_3_connectives(ctx: Ctx, rule: str = "R12.3") -> None:
    run, m = ctx.run, ctx.m
    run.rule(
        rule,
        "connective table across engines: And -> all / and_ (empty: True), Or -> any / or_ (empty: False), Not -> not / not_; "
        "every operand is converted",
        expected_min=10,
    )
    fi = m.func(IT_ENGINE, "Engine.convert_predicate")
    fs = m.func(SQL_ENGINE, "Engine.convert_predicate")
    si = [p for p in fi.params if p != "self"][0]
    ss = [p for p in fs.params if p != "self"][0]
    for cname, (ident, _absorb, py, sql) in CONNECTIVES.items():
        other_py = "any" if py == "all" else "all"
        other_sql = "or_" if sql == "and_" else "and_"
        for i, p in _arm_paths(ctx, fi, si, cname):
            if p.outcome != "return":
                continue
            inst = f"iteration:{cname}"
            sl = backward_slice(p, [p.value], start=i)
            names = {call_attr(c) for c in sl.calls}
            caps = pattern_captures(p.steps[i].node.pattern)  # type: ignore[union-attr]
            opsv = next((n for n, a in caps.items() if a == ("operands",)), f"{si}.operands")
            txt = " ".join(src(e) for e in sl.exprs)
            lazy = any(
                isinstance(c, ast.Call) and call_attr(c) == py and c.args and isinstance(c.args[0], ast.GeneratorExp)
                for e in sl.exprs for c in ast.walk(e)
            )
            if py in names and other_py not in names and "convert_predicate" in names and f"in {opsv}" in txt and not lazy:
                run.fail(rule, inst + ":short-circuit", f"the iteration engine evaluates every operand of {cname} before combining them (`{py}` over a list): operands after a deciding one must not be evaluated, as in SQL and in sequentially applied selections", fi=fi, node=p.node)
            elif py in names and other_py not in names and "convert_predicate" in names and f"in {opsv}" in txt:
                run.ok(rule, inst)
            else:
                run.fail(rule, inst, f"the iteration engine evaluates {cname} with {sorted(n for n in names if n in ('all', 'any'))} over `{opsv}`; expected `{py}` of every converted operand", fi=fi, node=p.node)
        for i, p in _arm_paths(ctx, fs, ss, cname):
            if p.outcome != "return":
                continue
            caps = pattern_captures(p.steps[i].node.pattern)  # type: ignore[union-attr]
            opsv = next((n for n, a in caps.items() if a == ("operands",)), f"{ss}.operands")
            facts = path_facts(p)
            v = p.value
            if has_fact(facts, "TRUTH", (opsv,), False):
                inst = f"sql:{cname}:empty"
                ok = isinstance(v, ast.Call) and call_attr(v) == "literal" and v.args and _const(v.args[0]) is ident
                if ok:
                    run.ok(rule, inst)
                else:
                    run.fail(rule, inst, f"SQL translation of an empty {cname} is `{src(v)}` instead of literal({ident!r})", fi=fs, node=p.node)
            elif any(fct.kind == "EQ" and fct.polarity and set(fct.args) == {"1", f"len({opsv})"} for fct in facts):
                inst = f"sql:{cname}:single"
                ok = isinstance(v, ast.Call) and call_attr(v) == "convert_predicate" and v.args and src(v.args[0]) == f"{opsv}[0]"
                if ok:
                    run.ok(rule, inst)
                else:
                    run.fail(rule, inst, f"SQL translation of a one-operand {cname} is `{src(v)[:50]}`", fi=fs, node=p.node)
            else:
                inst = f"sql:{cname}:many"
                names = [dotted(c.func) or "" for c in ast.walk(v) if isinstance(c, ast.Call)]
                ok = any(n.endswith(sql) for n in names) and not any(n.endswith(other_sql) for n in names) and f"in {opsv}" in src(v) and "convert_predicate" in src(v)
                if ok:
                    run.ok(rule, inst)
                else:
                    run.fail(rule, inst, f"SQL translation of {cname} is `{src(v)[:70]}`; expected {sql}(*converted operands)", fi=fs, node=p.node)
    for f, s, eng, tok in ((fi, si, "iteration", "not "), (fs, ss, "sql", "not_(")):
        for i, p in _arm_paths(ctx, f, s, "LogicalNot"):
            if p.outcome != "return":
                continue
            sl = backward_slice(p, [p.value], start=i)
            txt = " ".join(src(e) for e in sl.exprs)
            inst = f"{eng}:LogicalNot"
            if tok in txt and "convert_predicate" in txt:
                run.ok(rule, inst)
            else:
                run.fail(rule, inst, f"{eng} translation of LogicalNot does not negate its converted operand", fi=f, node=p.node)
        for cname, want in (("PredicateLiteral", "value"), ("PredicateReference", "tag")):
            for i, p in _arm_paths(ctx, f, s, cname):
                if p.outcome == "return":
                    run.ok(rule, f"{eng}:{cname}")


def r12_4_operand_roles(ctx: Ctx, rule: str = "R12.4") -> None:
    _r12_4(ctx, rule)
    st = ctx.run.rules[rule]
    fs = ctx.m.func(SQL_ENGINE, "Engine.convert_predicate")
    for inst, what in (("sql:range-item", "a test of the converted item for ranges"), ("sql:sequence", "IN (...) for sequences")):
        if inst not in st.nontrivial:
            ctx.run.fail(rule, inst, f"no path of the SQL membership translation produces {what}", fi=fs)


def _r12_4(ctx: Ctx, rule: str) -> None:
    run, m = ctx.run, ctx.m
    run.rule(
        rule,
        "membership: both engines test `item in container`; a sequence container evaluates every item; the SQL range "
        "translation uses start and stop-1 as inclusive bounds and start % step as the residue",
        expected_min=6,
    )
    fi = m.func(IT_ENGINE, "Engine.convert_predicate")
    si = [p for p in fi.params if p != "self"][0]
    for i, p in _arm_paths(ctx, fi, si, "ColumnInContainer"):
        if p.outcome != "return":
            continue
        caps = pattern_captures(p.steps[i].node.pattern)  # type: ignore[union-attr]
        item_v = next((n for n, a in caps.items() if a == ("item",)), None)
        cont_v = next((n for n, a in caps.items() if a == ("container",)), None)
        v = p.value
        ok = False
        if isinstance(v, ast.Lambda) and isinstance(v.body, ast.Compare) and len(v.body.ops) == 1 and isinstance(v.body.ops[0], ast.In):
            left, right = v.body.left, v.body.comparators[0]
            lb = resolve_name(p, left.func.id) if isinstance(left, ast.Call) and isinstance(left.func, ast.Name) else None
            rb = resolve_name(p, right.func.id) if isinstance(right, ast.Call) and isinstance(right.func, ast.Name) else None
            ok = isinstance(lb, ast.Call) and call_attr(lb) == "convert_column_expression" and src(lb.args[0]) == item_v
            ok = ok and isinstance(rb, ast.Call) and call_attr(rb) == "convert_column_container" and src(rb.args[0]) == cont_v
        if ok:
            run.ok(rule, "iteration:item-in-container")
        else:
            run.fail(rule, "iteration:item-in-container", f"the iteration engine evaluates membership as `{src(v)[:70]}`: expected <item>(row) in <container>(row)", fi=fi, node=p.node)
    fc = m.func(IT_ENGINE, "Engine.convert_column_container")
    sc = [p for p in fc.params if p != "self"][0]
    for i, p in _arm_paths(ctx, fc, sc, "ColumnExpressionSequence"):
        if p.outcome != "return":
            continue
        caps = pattern_captures(p.steps[i].node.pattern)  # type: ignore[union-attr]
        items_v = next((n for n, a in caps.items() if a == ("items",)), f"{sc}.items")
        sl = backward_slice(p, [p.value], start=i)
        comps = [n for e in sl.exprs for n in ast.walk(e) if isinstance(n, ast.comprehension)]
        if any(src(n.iter) == items_v and not n.ifs for n in comps):
            run.ok(rule, "iteration:sequence-every-item")
        else:
            run.fail(rule, "iteration:sequence-every-item", "the iteration engine does not evaluate every item of a sequence container", fi=fc, node=p.node)
    for i, p in _arm_paths(ctx, fc, sc, "ColumnRangeLiteral"):
        if p.outcome == "return":
            v = p.value
            caps = pattern_captures(p.steps[i].node.pattern)  # type: ignore[union-attr]
            val_v = next((n for n, a in caps.items() if a == ("value",)), f"{sc}.value")
            if isinstance(v, ast.Lambda) and src(v.body) == val_v:
                run.ok(rule, "iteration:range-as-is")
            else:
                run.fail(rule, "iteration:range-as-is", f"the iteration engine turns a range literal into `{src(v)[:50]}` instead of the range itself", fi=fc, node=p.node)
    fs = m.func(SQL_ENGINE, "Engine.convert_predicate")
    ss = [p for p in fs.params if p != "self"][0]
    seen = set()
    for i, p in _arm_paths(ctx, fs, ss, "ColumnInContainer"):
        if p.outcome != "return":
            continue
        caps = pattern_captures(p.steps[i].node.pattern)  # type: ignore[union-attr]
        item_v = next((n for n, a in caps.items() if a == ("item",)), None)
        ir = case_index(p, "ColumnRangeLiteral")
        iseq = case_index(p, "ColumnExpressionSequence")
        v = p.value
        sl = backward_slice(p, [v], start=i)
        txt = " ".join(src(e) for e in sl.exprs)
        item_ok = f"convert_column_expression({item_v}" in txt
        if iseq >= 0:
            caps2 = pattern_captures(p.steps[iseq].node.pattern)  # type: ignore[union-attr]
            items_v = next((n for n, a in caps2.items() if a == ("items",)), "items")
            inst = "sql:sequence"
            ok = isinstance(v, ast.Call) and call_attr(v) == "in_" and f"in {items_v}" in src(v) and "convert_column_expression" in src(v) and item_ok
            recv = resolve_name(p, v.func.value.id) if ok and isinstance(v.func.value, ast.Name) else None  # type: ignore[union-attr]
            ok = ok and recv is not None and item_v in src(recv)
            if ok:
                run.ok(rule, inst)
            elif inst not in seen:
                seen.add(inst)
                run.fail(rule, inst, f"SQL membership in a sequence is `{src(v)[:70]}`: expected <item>.in_([every converted item])", fi=fs, node=p.node)
        elif ir >= 0:
            # the range translation is decided exactly (R12.7, sa/rules/rangesql.py); here only: it is about the item
            inst = "sql:range-item"
            if item_ok or isinstance(v, ast.Call) and call_attr(v) == "literal":
                run.ok(rule, inst)
            elif inst not in seen:
                seen.add(inst)
                run.fail(rule, inst, f"the SQL range test `{src(v)[:70]}` does not involve the converted item", fi=fs, node=p.node)


def r12_6_factories(ctx: Ctx, rule: str = "R12.6") -> None:
    """Expression factories build the node they are documented to build (operator name, operand order)."""
    run, m = ctx.run, ctx.m
    run.rule(
        rule,
        "expression factories: eq/ne/lt/gt/le/ge map to __eq__/__ne__/__lt__/__gt__/__le__/__ge__ with (self, other) in "
        "that order; method/predicate_method pass self first and the arguments in order; contains() builds item-in-container",
        expected_min=10,
    )
    ce = ctx.cls(EXPRESSION, "ColumnExpression")
    for short in ("eq", "ne", "lt", "gt", "le", "ge"):
        f = ce.methods.get(short)
        inst = f"ColumnExpression.{short}"
        if f is None:
            run.fail(rule, inst, f"ColumnExpression.{short} is missing", file=ce.module.path, line=ce.node.lineno, func="ColumnExpression")
            continue
        other = [q for q in f.params if q != "self"][0]
        rets = [p.value for p in ctx.paths(f) if p.outcome == "return"]
        ok = len(rets) == 1 and isinstance(rets[0], ast.Call) and src(rets[0].func) == "self.predicate_method" and len(rets[0].args) == 2 and _const(rets[0].args[0]) == f"__{short}__" and src(rets[0].args[1]) == other
        if ok:
            run.ok(rule, inst)
        else:
            run.fail(rule, inst, f"ColumnExpression.{short}(other) returns `{src(rets[0]) if rets else None}` instead of self.predicate_method('__{short}__', other)", fi=f)
    for meth, target in (("method", "function"), ("predicate_method", "predicate_function")):
        f = ce.methods.get(meth)
        inst = f"ColumnExpression.{meth}"
        rets = [p.value for p in ctx.paths(f) if p.outcome == "return"] if f else []
        ok = len(rets) == 1 and isinstance(rets[0], ast.Call) and call_attr(rets[0]) == target and [src(a) for a in rets[0].args[:3]] == ["name", "self", "*args"]
        if ok:
            run.ok(rule, inst)
        else:
            run.fail(rule, inst, f"ColumnExpression.{meth} must build {target}(name, self, *args): the receiver is the first operand", fi=f or ce.methods.get("eq"))
    for fn, ctor in (("function", "ColumnFunction"), ("predicate_function", "PredicateFunction")):
        f = ce.methods.get(fn)
        rets = [p.value for p in ctx.paths(f) if p.outcome == "return"] if f else []
        ok = len(rets) == 1 and isinstance(rets[0], ast.Call) and (dotted(rets[0].func) or "") == ctor and _cargs(rets[0])[:2] == ["name", "args"]
        if ok:
            run.ok(rule, f"ColumnExpression.{fn}")
        else:
            run.fail(rule, f"ColumnExpression.{fn}", f"ColumnExpression.{fn} must build {ctor}(name, args, ...)", fi=f or ce.methods.get("eq"))
    cc = ctx.cls("_columns/_container.py", "ColumnContainer")
    f = cc.methods.get("contains")
    rets = [p.value for p in ctx.paths(f) if p.outcome == "return"] if f else []
    item = [q for q in f.params if q != "self"][0] if f else "item"
    ok = len(rets) == 1 and isinstance(rets[0], ast.Call) and (dotted(rets[0].func) or "") == "ColumnInContainer" and _cargs(rets[0]) == [item, "self"]
    if ok:
        run.ok(rule, "ColumnContainer.contains")
    else:
        run.fail(rule, "ColumnContainer.contains", "ColumnContainer.contains(item) must build ColumnInContainer(item, self)", fi=f or cc.methods.get("range_literal"))
    pr = ctx.cls(PREDICATE, "Predicate")
    for fn, ctor, arg in (("literal", "PredicateLiteral", "value"), ("reference", "PredicateReference", "tag")):
        f = pr.methods.get(fn)
        rets = [p.value for p in ctx.paths(f) if p.outcome == "return"] if f else []
        ok = len(rets) == 1 and isinstance(rets[0], ast.Call) and (dotted(rets[0].func) or "") == ctor and _cargs(rets[0]) == [arg]
        if ok:
            run.ok(rule, f"Predicate.{fn}")
        else:
            run.fail(rule, f"Predicate.{fn}", f"Predicate.{fn} must build {ctor}({arg})", fi=f or pr.methods.get("logical_not"))
