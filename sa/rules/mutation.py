"""R09.*: relations, operations and expressions are persistent hashable values.

R09.1 frozen value classes          R09.2 hashed fields hashable by type
R09.3 no attribute writes           R09.4 no in-place mutation of shared values
"""

from __future__ import annotations

import ast

from ..astutil import AnalysisError, attr_chain, call_attr, dotted, iter_calls, kw, src, target_names
from ..flow import MUTATING_METHODS, is_fresh_expr, step_exprs
from ..model import ClassInfo, FieldInfo, FunctionInfo
from ..paths import Path, env_at
from ..props.common import MARKER, RELATION, SQL_PAYLOAD, Ctx
from .stores import attribute_stores, describe_store

HASHABLE_ATOMS = {
    "tuple", "frozenset", "int", "str", "bool", "float", "bytes", "None", "range", "type", "Any", "Hashable",
    "ColumnTag", "Literal", "complex",
}
UNHASHABLE_ATOMS = {"list", "dict", "set", "bytearray", "List", "Dict"}
ABSTRACT_COLLECTIONS = {"Sequence", "Set", "Iterable", "Mapping", "Collection", "Container", "MutableSequence", "MutableSet", "MutableMapping", "AbstractSet"}
IMMUTABLE_TYPES = {"frozenset", "tuple", "int", "str", "bool", "float", "bytes", "range"}


# ------------------------------------------------------------------ value classes


def value_classes(ctx: Ctx) -> dict[ClassInfo, str]:
    """Classes whose instances are (part of) relation values, with the reason they are in the set."""
    m, k = ctx.m, ctx.k
    out: dict[ClassInfo, str] = {}
    for c in [k.relation_root] + k.relation_kinds:
        out[c] = "relation kind"
    proto = m.module(RELATION).classes.get("Relation")
    if proto is not None:
        out[proto] = "the Relation protocol (static type of every relation-valued name)"
    for c in k.node_unary_ops + k.node_binary_ops:
        out[c] = "operation class that can be held by a tree node"
    # PartialJoin is a placeholder but is user-visible and declared a frozen dataclass; it holds a relation
    for c in k.concrete(k.column_exprs) + k.concrete(k.predicates) + k.concrete(k.containers):
        out[c] = "column expression class"
    # closure over the annotations of compared fields
    work = list(out)
    while work:
        c = work.pop()
        for f in m.fields(c):
            if not f.compare:
                continue
            for name in _annotation_names(f.annotation):
                t = m.resolve_class(f.owner.module, name)
                if t is None:
                    continue
                targets = [t] + [s for s in m.subclasses(t, strict=True)]
                for t2 in targets:
                    if t2 in k.placeholders:
                        continue  # never stored in a node (computed, see Kinds.placeholders)
                    if t2 not in out and not m.is_abstract(t2) and t2.is_dataclass and t2.eq:
                        out[t2] = f"type of compared field {f.owner.name}.{f.name}"
                        work.append(t2)
    return out


def _annotation_names(ann: ast.expr | None) -> list[str]:
    if ann is None:
        return []
    if isinstance(ann, ast.Constant) and isinstance(ann.value, str):
        try:
            ann = ast.parse(ann.value, mode="eval").body
        except SyntaxError:
            return []
    out = []
    for n in ast.walk(ann):
        if isinstance(n, ast.Name):
            out.append(n.id)
        elif isinstance(n, ast.Attribute):
            out.append(n.attr)
        elif isinstance(n, ast.Constant) and n.value is None:
            out.append("None")
    return out


def r09_1_frozen(ctx: Ctx) -> None:
    run, m = ctx.run, ctx.m
    run.rule(
        "R09.1",
        "every relation / node-operation / expression class, and every dataclass reachable through their compared "
        "fields, is a frozen dataclass (or has identity equality and hash)",
        expected_min=25,
    )
    for c, why in sorted(value_classes(ctx).items(), key=lambda kv: kv[0].key):
        inst = f"class:{c.name}"
        if c.is_dataclass and c.eq:
            if c.frozen:
                # a frozen dataclass must not switch hashing off
                if "__hash__" in c.class_assigns and isinstance(c.class_assigns["__hash__"], ast.Constant):
                    run.fail("R09.1", inst, f"{c.name} sets __hash__ = None", file=c.module.path, line=c.node.lineno, func=c.name)
                elif any(("__hash__" in k.methods) != ("__eq__" in k.methods) for k in m.mro(c) if k.is_dataclass or k is c):
                    # the generated pair compares and hashes the same fields; a hand-written half of the pair (dataclass
                    # keeps an explicit __hash__) lets equal values hash differently
                    k = next(k for k in m.mro(c) if ("__hash__" in k.methods) != ("__eq__" in k.methods))
                    which = "__hash__" if "__hash__" in k.methods else "__eq__"
                    fi = k.methods[which]
                    run.fail("R09.1", inst, f"{k.name} defines its own {which} next to the generated field-wise {'__eq__' if which == '__hash__' else '__hash__'}: equal values may hash differently, so sets and dicts treat equal relations as distinct", fi=fi)
                else:
                    run.ok("R09.1", inst, {"class": c.key, "why": why, "frozen": True})
            else:
                run.fail(
                    "R09.1",
                    inst,
                    f"{c.name} ({why}) is a dataclass with value equality but not frozen: it is mutable and "
                    "unhashable, so every relation containing one cannot be hashed",
                    file=c.module.path,
                    line=c.node.lineno,
                    func=c.name,
                )
        else:
            # identity semantics: must not define __eq__ without __hash__
            if "__eq__" in c.methods and "__hash__" not in c.methods:
                run.fail("R09.1", inst, f"{c.name} defines __eq__ without __hash__", file=c.module.path, line=c.node.lineno, func=c.name)
            elif m.is_abstract(c) or not c.is_dataclass or not c.eq:
                run.ok("R09.1", inst, {"class": c.key, "why": why, "identity_semantics": True})


# ------------------------------------------------------------------ hashable fields


def _hashable_shape(ctx: Ctx, expr: ast.expr, fi: FunctionInfo | None, narrowed: dict[str, ClassInfo] | None = None) -> bool:
    """Is ``expr`` hashable-shaped: tuple/frozenset constructor, literal tuple, *args parameter,
    a name or field annotated tuple/frozenset, a set operator whose left operand is frozenset-typed."""
    narrowed = narrowed or {}
    if isinstance(expr, ast.Tuple):
        return True
    if isinstance(expr, ast.Constant):
        return True
    if isinstance(expr, ast.Call):
        name = call_attr(expr)
        if name in ("tuple", "frozenset"):
            return True
        return False
    if isinstance(expr, ast.IfExp):
        nar = dict(narrowed)
        t = expr.test
        if isinstance(t, ast.Call) and isinstance(t.func, ast.Name) and t.func.id == "isinstance" and len(t.args) == 2 and fi:
            c = ctx.m.resolve_class(fi.module, dotted(t.args[1]) or "")
            if c is not None:
                nar[src(t.args[0])] = c
        return _hashable_shape(ctx, expr.body, fi, nar) and _hashable_shape(ctx, expr.orelse, fi, narrowed)
    if isinstance(expr, ast.BinOp) and isinstance(expr.op, (ast.BitOr, ast.BitAnd, ast.Sub, ast.BitXor)):
        return _hashable_shape(ctx, expr.left, fi, narrowed)
    if isinstance(expr, ast.Name) and fi is not None:
        a = fi.node.args
        if a.vararg is not None and a.vararg.arg == expr.id:
            return True
        ann = fi.param_annotation(expr.id)
        if ann is None:
            for n in ast.walk(fi.node):
                if isinstance(n, ast.AnnAssign) and isinstance(n.target, ast.Name) and n.target.id == expr.id:
                    ann = n.annotation
        if ann is not None:
            names = _annotation_names(ann)
            return bool(names) and names[0] in ("tuple", "frozenset")
        # a local bound once to a hashable-shaped value
        defs = [n.value for n in ast.walk(fi.node) if isinstance(n, ast.Assign) and any(isinstance(t, ast.Name) and t.id == expr.id for t in n.targets)]
        return bool(defs) and all(_hashable_shape(ctx, d, fi, narrowed) for d in defs)
    if isinstance(expr, ast.Attribute) and fi is not None:
        base = src(expr.value)
        owner: ClassInfo | None = None
        if base in narrowed:
            owner = narrowed[base]
        elif base == "self":
            owner = fi.cls
        if owner is not None:
            for f in ctx.m.fields(owner):
                if f.name == expr.attr:
                    names = _annotation_names(f.annotation)
                    return bool(names) and names[0] in ("tuple", "frozenset")
    return False


def _enclosing_narrowing(ctx: Ctx, fi: FunctionInfo, node: ast.AST) -> dict[str, ClassInfo]:
    """isinstance / class-pattern facts that hold where ``node`` is evaluated."""
    out: dict[str, ClassInfo] = {}

    def note_test(t: ast.expr) -> None:
        for sub in ([t] if not (isinstance(t, ast.BoolOp) and isinstance(t.op, ast.And)) else t.values):
            if isinstance(sub, ast.Call) and isinstance(sub.func, ast.Name) and sub.func.id == "isinstance" and len(sub.args) == 2:
                c = ctx.m.resolve_class(fi.module, dotted(sub.args[1]) or "")
                if c is not None:
                    out[src(sub.args[0])] = c

    def inside(container: ast.AST | list) -> bool:
        nodes = container if isinstance(container, list) else [container]
        return any(n is node for c in nodes for n in ast.walk(c))

    for n in ast.walk(fi.node):
        if isinstance(n, ast.IfExp) and inside(n.body):
            note_test(n.test)
        elif isinstance(n, ast.If) and inside(n.body):
            note_test(n.test)
        elif isinstance(n, ast.Match):
            for case in n.cases:
                if inside(case.body):
                    from ..astutil import pattern_class_names

                    names = pattern_class_names(case.pattern)
                    if len(names) == 1:
                        c = ctx.m.resolve_class(fi.module, names[0])
                        if c is not None:
                            out[src(n.subject)] = c
    return out


def _constructor_calls(ctx: Ctx, cls: ClassInfo) -> list[tuple[FunctionInfo, ast.Call]]:
    out = []
    for fi in ctx.m.all_functions():
        for call in iter_calls(fi.node):
            name = dotted(call.func)
            if not name:
                continue
            if name == "cls" and fi.cls is not None and fi.is_classmethod and ctx.m.is_subclass(cls, fi.cls) and fi.cls is cls:
                out.append((fi, call))
                continue
            t = ctx.m.resolve_class(fi.module, name)
            if t is cls:
                out.append((fi, call))
    return out


def _ctor_arg(ctx: Ctx, cls: ClassInfo, call: ast.Call, field: FieldInfo) -> ast.expr | None:
    v = kw(call, field.name)
    if v is not None:
        return v
    init_fields = [f for f in ctx.m.fields(cls) if not f.flag("init", True) is False]
    kw_only = bool(cls.dataclass_kwargs and cls.dataclass_kwargs.get("kw_only"))
    if kw_only:
        return None
    names = [f.name for f in init_fields]
    if field.name in names:
        i = names.index(field.name)
        if i < len(call.args) and not any(isinstance(a, ast.Starred) for a in call.args[: i + 1]):
            return call.args[i]
    return None


def r09_2_hashable_fields(ctx: Ctx) -> None:
    run, m = ctx.run, ctx.m
    run.rule(
        "R09.2",
        "each compared field of a value class is hashable by type; collection-typed fields are tuple/frozenset or are "
        "coerced with tuple()/frozenset() in __post_init__ or at every in-package constructor call",
        expected_min=30,
    )
    vcs = value_classes(ctx)
    for c in sorted(vcs, key=lambda c: c.key):
        if not c.is_dataclass:
            continue
        for f in m.fields(c):
            if not f.compare or f.owner is not c and f.owner in vcs:
                continue
            inst = f"field:{c.name}.{f.name}"
            names = _annotation_names(f.annotation)
            bad = [n for n in names if n in UNHASHABLE_ATOMS]
            loose = [n for n in names if n in ABSTRACT_COLLECTIONS]
            strict = [n for n in names if n in ("tuple", "frozenset")]
            if bad:
                run.fail("R09.2", inst, f"compared field annotated with an unhashable type ({f.annotation_src})", file=c.module.path, line=f.node.lineno, func=c.name)
                continue
            if not loose and not strict:
                run.ok("R09.2", inst, {"annotation": f.annotation_src})
                continue
            # collection-typed: look at how it is populated
            post = c.methods.get("__post_init__")
            coerced_in_post = False
            if post is not None:
                for call in iter_calls(post.node):
                    if call_attr(call) in ("__setattr__", "setattr") and len(call.args) >= 3 and isinstance(call.args[1], ast.Constant) and call.args[1].value == f.name:
                        coerced_in_post = _hashable_shape(ctx, call.args[2], post)
            if coerced_in_post:
                run.ok("R09.2", inst, {"annotation": f.annotation_src, "coerced": "__post_init__"})
                continue
            sites = _constructor_calls(ctx, c)
            problems = []
            for fi, call in sites:
                arg = _ctor_arg(ctx, c, call, f)
                if arg is None:
                    continue
                if not _hashable_shape(ctx, arg, fi, _enclosing_narrowing(ctx, fi, call)):
                    problems.append((fi, call, arg))
            if problems:
                fi, call, arg = problems[0]
                run.fail(
                    "R09.2",
                    inst,
                    f"compared field {c.name}.{f.name}: {f.annotation_src} receives `{src(arg)}` in {fi.qualname} without "
                    "tuple()/frozenset() coercion; a list or set given by the caller makes the value unhashable",
                    fi=fi,
                    node=call,
                )
            else:
                run.ok("R09.2", inst, {"annotation": f.annotation_src, "constructor_sites": len(sites)})
    # the user-facing factories coerce user collections
    base = m.cls(RELATION, "BaseRelation")
    for name, ctor, coerce in (("with_only_columns", "Projection", "frozenset"), ("sorted", "Sort", "tuple")):
        f = base.methods.get(name)
        if f is None:
            raise AnalysisError(f"BaseRelation.{name} is missing")
        calls = [c for c in iter_calls(f.node) if (dotted(c.func) or "").split(".")[-1] == ctor]
        inst = f"factory:{name}"
        if not calls:
            raise AnalysisError(f"BaseRelation.{name} no longer constructs {ctor}")
        arg = calls[0].args[0] if calls[0].args else (calls[0].keywords[0].value if calls[0].keywords else None)
        if arg is not None and _hashable_shape(ctx, arg, f):
            run.ok("R09.2", inst, {"call": src(calls[0])})
        else:
            run.fail("R09.2", inst, f"BaseRelation.{name} passes the caller's collection to {ctor} without {coerce}()", fi=f, node=calls[0])


# ------------------------------------------------------------------ attribute writes


def _value_field_names(ctx: Ctx) -> set[str]:
    names: set[str] = set()
    for c in value_classes(ctx):
        for f in ctx.m.fields(c):
            names.add(f.name)
    return names


def _local_class(ctx: Ctx, fi: FunctionInfo, name: str) -> ClassInfo | None:
    """Best-effort class of a local/parameter: annotation, constructor call, classmethod self-call."""
    m = ctx.m
    ann = fi.param_annotation(name)
    if ann is not None:
        for n in _annotation_names(ann):
            c = m.resolve_class(fi.module, n)
            if c is not None:
                return c
    for n in ast.walk(fi.node):
        value = None
        if isinstance(n, ast.Assign) and any(isinstance(t, ast.Name) and t.id == name for t in n.targets):
            value = n.value
        elif isinstance(n, ast.NamedExpr) and isinstance(n.target, ast.Name) and n.target.id == name:
            value = n.value
        elif isinstance(n, ast.AnnAssign) and isinstance(n.target, ast.Name) and n.target.id == name:
            for a in _annotation_names(n.annotation):
                c = m.resolve_class(fi.module, a)
                if c is not None:
                    return c
            value = n.value
        if value is not None:
            c = _expr_class(ctx, fi, value)
            if c is not None:
                return c
    return None


def _expr_class(ctx: Ctx, fi: FunctionInfo, value: ast.expr, depth: int = 4) -> ClassInfo | None:
    """Class of the object an expression evaluates to (constructors, annotated in-package callees, .copy())."""
    m = ctx.m
    if depth <= 0:
        return None
    if isinstance(value, ast.Name):
        if value.id in ("self", "cls"):
            return fi.cls
        return _local_class(ctx, fi, value.id) if value.id not in ("<unpacked>",) else None
    if isinstance(value, ast.Call):
        f = value.func
        callee = dotted(f) or ""
        if callee == "cls" and fi.cls is not None:
            return fi.cls
        if isinstance(f, ast.Attribute):
            if f.attr == "copy":
                return _expr_class(ctx, fi, f.value, depth - 1)
            recv = _expr_class(ctx, fi, f.value, depth - 1) if not isinstance(f.value, ast.Name) or f.value.id in ("self", "cls") else None
            if recv is None and isinstance(f.value, ast.Name) and f.value.id not in ("self", "cls"):
                recv = None
            if recv is not None:
                meth = m.method(recv, f.attr)
                if meth is not None and meth.node.returns is not None:
                    for a in _annotation_names(meth.node.returns):
                        c = m.resolve_class(meth.module, a)
                        if c is not None:
                            return c
        if isinstance(f, ast.Subscript):
            callee = dotted(f.value) or ""
        c = m.resolve_class(fi.module, callee) if callee else None
        if c is not None:
            return c
    return None


def r09_3_attribute_writes(ctx: Ctx) -> None:
    run, m = ctx.run, ctx.m
    run.rule(
        "R09.3",
        "attribute stores on value classes occur only in a class's own __post_init__ (normalising its own field) and in "
        "MarkerRelation.attach_payload",
        expected_min=10,
    )
    vcs = value_classes(ctx)
    vfields = _value_field_names(ctx)
    attach = m.func(MARKER, "MarkerRelation.attach_payload")
    for s in attribute_stores(m):
        inst = f"{s.module.rel}:{s.where}:{src(s.obj)}.{s.attr or '<dynamic>'}"
        fi = s.fi
        owner: ClassInfo | None = None
        obj_text = src(s.obj)
        if fi is not None:
            ch = attr_chain(s.obj) if s.obj is not None else None
            if ch and ch[0] in ("self", "cls") and len(ch) == 1:
                owner = fi.cls
            elif ch and len(ch) == 1:
                owner = _local_class(ctx, fi, ch[0])
        if fi is attach and s.attr == "payload":
            run.ok("R09.3", inst, {"allowed": "the single payload writer (R10.1)"})
            continue
        if owner is not None:
            if owner not in vcs and not any(m.is_subclass(owner, v) for v in vcs):
                run.ok("R09.3", inst, {"store": describe_store(s), "object_class": owner.name})
                continue
            # store on a value class: only own __post_init__ on self with a constant own-field name
            if fi is not None and fi.name == "__post_init__" and obj_text == "self" and s.attr is not None and any(f.name == s.attr for f in m.fields(owner)):
                run.ok("R09.3", inst, {"allowed": "construction-time normalisation in __post_init__"})
                continue
            run.fail(
                "R09.3",
                inst,
                f"attribute store on an instance of value class {owner.name} outside its __post_init__ ({describe_store(s)})",
                fi=fi,
                node=s.node,
                file=s.module.path,
                func=s.where,
            )
            continue
        # unresolved object: fail closed on attribute names that value classes own
        if s.attr is None or s.attr in vfields or s.how in ("setattr", "dict"):
            run.fail(
                "R09.3",
                inst,
                f"attribute store on an object of unknown type with a name value classes use ({describe_store(s)})",
                fi=fi,
                node=s.node,
                file=s.module.path,
                func=s.where,
                line=getattr(s.node, "lineno", 0),
            )
        else:
            run.ok("R09.3", inst, {"store": describe_store(s)})


# ------------------------------------------------------------------ in-place mutation


class _Site:
    def __init__(self, idx: int, node: ast.AST, receiver: ast.expr, how: str):
        self.idx, self.node, self.receiver, self.how = idx, node, receiver, how


def _mutation_sites(path: Path) -> list[_Site]:
    out: list[_Site] = []
    for i, s in enumerate(path.steps):
        for e in step_exprs(s):
            if e is None:
                continue
            for n in ast.walk(e):
                if isinstance(n, ast.Call) and isinstance(n.func, ast.Attribute) and n.func.attr in MUTATING_METHODS:
                    out.append(_Site(i, n, n.func.value, f".{n.func.attr}()"))
                elif isinstance(n, ast.AugAssign):
                    t = n.target
                    if isinstance(t, ast.Name):
                        out.append(_Site(i, n, t, "augassign-name"))
                    elif isinstance(t, ast.Subscript):
                        out.append(_Site(i, n, t.value, "augassign-item"))
                    # attribute targets are attribute stores (R09.3)
                elif isinstance(n, ast.Assign):
                    for t in n.targets:
                        for tt in (t.elts if isinstance(t, (ast.Tuple, ast.List)) else [t]):
                            if isinstance(tt, ast.Subscript):
                                out.append(_Site(i, n, tt.value, "item-store"))
                elif isinstance(n, ast.Delete):
                    for t in n.targets:
                        if isinstance(t, ast.Subscript):
                            out.append(_Site(i, n, t.value, "item-delete"))
    return out


def _root_and_chain(expr: ast.expr) -> tuple[ast.expr, list[str]]:
    chain: list[str] = []
    while isinstance(expr, (ast.Attribute, ast.Subscript)):
        chain.append(expr.attr if isinstance(expr, ast.Attribute) else "[]")
        expr = expr.value
    return expr, list(reversed(chain))


class Freshness:
    """Which in-package functions return an object nobody else holds (fixpoint)."""

    def __init__(self, ctx: Ctx):
        self.ctx = ctx
        self.fresh_funcs: set[str] = set()
        self._compute()

    def _compute(self) -> None:
        m = self.ctx.m
        funcs = [f for f in m.all_functions() if not f.is_abstract]
        # optimistic start for recursion, then remove until stable
        names = {f.name for f in funcs}
        by_name: dict[str, list[FunctionInfo]] = {}
        for f in funcs:
            by_name.setdefault(f.name, []).append(f)
        fresh = set(names)
        changed = True
        while changed:
            changed = False
            for name in sorted(fresh):
                ok = True
                for f in by_name[name]:
                    if not self._returns_fresh(f, fresh):
                        ok = False
                        break
                if not ok:
                    fresh.discard(name)
                    changed = True
        # generic names that exist outside the package with other meanings stay conservative
        self.fresh_funcs = {n for n in fresh if n not in ("__init__", "get", "copy")}

    def _returns_fresh(self, f: FunctionInfo, fresh: set[str]) -> bool:
        if f.is_cached:
            return False
        rets = [n for n in ast.walk(f.node) if isinstance(n, ast.Return)]
        if not rets:
            return False
        for r in rets:
            if r.value is None:
                return False
            if not self._fresh_value(f, r.value, fresh, set()):
                return False
        return True

    def _fresh_value(self, f: FunctionInfo, v: ast.expr, fresh: set[str], seen: set[str]) -> bool:
        if isinstance(v, ast.Name):
            if v.id in seen:
                return True
            seen = seen | {v.id}
            if v.id in f.params:
                # a parameter that is re-bound to something fresh before being returned is
                # decided flow-sensitively by the caller of this summary; be conservative
                return False
            defs = _local_defs(f, v.id)
            return bool(defs) and all(self._fresh_value(f, d, fresh, seen) for d in defs)
        if isinstance(v, ast.Call):
            name = call_attr(v)
            callee = dotted(v.func) or ""
            if callee == "cls" or callee.startswith("cls.") and callee.split(".")[-1] in fresh:
                return True
        return is_fresh_expr(v, set(), fresh)


def _local_defs(f: FunctionInfo, name: str) -> list[ast.expr]:
    out: list[ast.expr] = []
    for n in ast.walk(f.node):
        if isinstance(n, ast.Assign):
            for t in n.targets:
                if isinstance(t, ast.Name) and t.id == name:
                    out.append(n.value)
                elif isinstance(t, (ast.Tuple, ast.List)) and any(isinstance(e, ast.Name) and e.id == name for e in t.elts):
                    out.append(ast.Name("<unpacked>", ast.Load()))
        elif isinstance(n, ast.AnnAssign) and isinstance(n.target, ast.Name) and n.target.id == name and n.value is not None:
            out.append(n.value)
        elif isinstance(n, ast.NamedExpr) and isinstance(n.target, ast.Name) and n.target.id == name:
            out.append(n.value)
        elif isinstance(n, (ast.For, ast.comprehension)) and name in target_names(n.target):
            out.append(ast.Name("<loopvar>", ast.Load()))
        elif isinstance(n, ast.match_case):
            from ..astutil import pattern_captures

            if name in pattern_captures(n.pattern):
                out.append(ast.Name("<capture>", ast.Load()))
    return out


def _immutable_annotation(fi: FunctionInfo, name: str) -> bool:
    ann = fi.param_annotation(name)
    for n in ast.walk(fi.node):
        if isinstance(n, ast.AnnAssign) and isinstance(n.target, ast.Name) and n.target.id == name:
            ann = n.annotation
    if ann is None:
        return False
    names = _annotation_names(ann)
    return bool(names) and all(a in IMMUTABLE_TYPES or a in ("None", "ColumnTag", "Literal") for a in names)


def _immutable_attribute(ctx: Ctx, v) -> bool:
    """``x.attr`` where every field/property called ``attr`` in the package is annotated with immutable scalar types
    (``max_rows: int | None``): augmented assignment to a local holding it re-binds, it cannot mutate."""
    if not isinstance(v, ast.Attribute):
        return False
    anns = []
    for mod in ctx.m.modules.values():
        for c in mod.classes.values():
            f = c.methods.get(v.attr)
            if f is not None and f.is_property:
                anns.append(f.node.returns)
            for fl in ctx.m.fields(c):
                if fl.name == v.attr and fl.owner is c:
                    anns.append(fl.annotation)
    if not anns or any(a is None for a in anns):
        return False
    for a in anns:
        names = _annotation_names(a)
        if not names or not all(n in IMMUTABLE_TYPES or n in ("None", "Literal", "Optional", "Union") for n in names):
            return False
    return True


def _fresh_at(ctx: Ctx, fr: Freshness, fi: FunctionInfo, path: Path, idx: int, name: str, depth: int = 6) -> tuple[bool, str]:
    """Is local ``name`` bound to a fresh object just before step idx on this path?"""
    env = env_at(path, idx)
    v = env.get(name)
    if v is None:
        return False, "parameter / global (never bound on this path)"
    if isinstance(v, tuple):
        return False, f"bound by {v[0]}"
    if isinstance(v, ast.Name) and depth > 0:
        # alias: find the step that bound it to recurse with the right index
        for j in range(idx - 1, -1, -1):
            s = path.steps[j]
            if name in _step_binds(s):
                return _fresh_at(ctx, fr, fi, path, j, v.id, depth - 1)
        return False, f"alias of {v.id}"
    if isinstance(v, ast.IfExp):
        ok = all(is_fresh_expr(b, set(), fr.fresh_funcs) for b in (v.body, v.orelse))
        return ok, src(v)
    if isinstance(v, ast.BinOp) and isinstance(v.left, ast.Name) and v.left.id == name:
        return True, src(v)
    return is_fresh_expr(v, set(), fr.fresh_funcs), src(v)


def _step_binds(s) -> set[str]:
    from ..paths import _binds

    return _binds(s)


def r09_4_no_shared_mutation(ctx: Ctx, whole_package: bool = True) -> None:
    run, m = ctx.run, ctx.m
    run.rule(
        "R09.4",
        "no mutating method / augmented assignment / item store / del on a value that is shared (parameter, attribute, "
        "pattern capture, non-fresh call result); only fresh locals and an object's own non-value state are mutated",
        expected_min=20,
    )
    run.rule(
        "R09.4e",
        "escape clause: a mutable struct field that is mutated anywhere (Diagnostics.messages, Payload.where, "
        "Payload.columns_available) receives only fresh containers at every constructor call; Payload.copy re-wraps them",
        expected_min=4,
    )
    fr = Freshness(ctx)
    vcs = value_classes(ctx)
    mutated_struct_fields: dict[tuple[ClassInfo, str], list] = {}
    param_mutators: dict[str, set[int]] = {}

    def is_value_class(c: ClassInfo | None) -> bool:
        return c is not None and (c in vcs or any(m.is_subclass(c, v) for v in vcs))

    row_iterable = m.cls("iteration/_row_iterable.py", "RowIterable")
    sql_payload = m.cls(SQL_PAYLOAD, "Payload")

    def is_payload_class(c: ClassInfo | None) -> bool:
        return c is not None and (m.is_subclass(c, row_iterable) or m.is_subclass(c, sql_payload))

    funcs = list(m.all_functions())
    for fi in funcs:
        if fi.is_abstract:
            continue
        try:
            paths = ctx.paths(fi)
        except AnalysisError:
            if fi.module.rel == "tests.py":
                continue
            raise
        seen_sites: set[tuple[int, str]] = set()
        for p in paths:
            for site in _mutation_sites(p):
                root, chain = _root_and_chain(site.receiver)
                key = (id(site.node), src(site.receiver))
                inst = f"{fi.module.rel}:{fi.qualname}:{src(site.receiver)}{site.how}"
                verdict_ok = False
                why = ""
                if isinstance(root, ast.Name) and root.id not in ("self", "cls"):
                    name = root.id
                    if not chain or chain == ["[]"] * len(chain):
                        if site.how == "augassign-name" and (_immutable_annotation(fi, name) or _const_or_arith(env_at(p, site.idx).get(name)) or _immutable_attribute(ctx, env_at(p, site.idx).get(name))):
                            verdict_ok, why = True, "rebinding of an immutable-typed local"
                        else:
                            verdict_ok, why = _fresh_at(ctx, fr, fi, p, site.idx, name)
                            if not verdict_ok and name in fi.params and env_at(p, site.idx).get(name) is None:
                                # mutates its own parameter: summarised and checked at call sites
                                idxp = [q for q in fi.params if q not in ("self", "cls")].index(name) if name in fi.params else -1
                                param_mutators.setdefault(fi.name, set()).add(idxp)
                                verdict_ok, why = True, "mutates its parameter (checked at call sites)"
                    else:
                        # x.field.mutate(): x must be a fresh-owned mutable struct
                        owner = _local_class(ctx, fi, name)
                        fresh_owner, d = _fresh_at(ctx, fr, fi, p, site.idx, name)
                        if owner is not None and not is_value_class(owner) and fresh_owner:
                            verdict_ok, why = True, f"field of a fresh {owner.name} ({d})"
                            mutated_struct_fields.setdefault((owner, chain[0]), []).append((fi, site))
                        else:
                            why = f"`{name}` is {d}"
                elif isinstance(root, ast.Name) and root.id == "self":
                    owner = fi.cls
                    if owner is not None and not is_value_class(owner) and not is_payload_class(owner):
                        verdict_ok, why = True, f"own state of non-value class {owner.name}"
                    elif owner is not None and is_payload_class(owner) and fi.name == "__init__":
                        verdict_ok, why = True, "payload object under construction"
                    else:
                        why = f"state reachable from a value object ({owner.name if owner else '?'})"
                else:
                    if isinstance(root, ast.Call) and is_fresh_expr(root, set(), fr.fresh_funcs) and not chain:
                        verdict_ok, why = True, "fresh temporary"
                    else:
                        why = f"receiver rooted at `{src(root)}`"
                if (key[0], inst) in seen_sites and verdict_ok:
                    continue
                seen_sites.add((key[0], inst))
                if verdict_ok:
                    run.ok("R09.4", inst, {"site": src(site.node)[:100], "why": why})
                else:
                    run.fail(
                        "R09.4",
                        inst,
                        f"in-place mutation `{src(site.node)[:90]}` of a shared value: {why}",
                        fi=fi,
                        node=site.node,
                    )
    # parameter-mutating helpers: arguments must be fresh at every call site
    for fname, idxs in sorted(param_mutators.items()):
        for fi in funcs:
            if fi.is_abstract:
                continue
            for p in ctx.paths(fi):
                for i, s in enumerate(p.steps):
                    for e in step_exprs(s):
                        for call in iter_calls(e) if e is not None else []:
                            if call_attr(call) != fname:
                                continue
                            for ai in idxs:
                                if ai < 0 or ai >= len(call.args):
                                    continue
                                arg = call.args[ai]
                                inst = f"{fi.module.rel}:{fi.qualname}:{fname}({src(arg)})"
                                if isinstance(arg, ast.Name):
                                    ok, why = _fresh_at(ctx, fr, fi, p, i, arg.id)
                                else:
                                    ok, why = is_fresh_expr(arg, set(), fr.fresh_funcs), src(arg)
                                if ok:
                                    run.ok("R09.4", inst, {"call": src(call), "argument": why})
                                else:
                                    run.fail("R09.4", inst, f"`{fname}` mutates its argument, but `{src(arg)}` is shared here ({why})", fi=fi, node=call)
    # escape clause
    for (owner, field), sites in sorted(mutated_struct_fields.items(), key=lambda kv: (kv[0][0].key, kv[0][1])):
        f = next((x for x in m.fields(owner) if x.name == field), None)
        if f is None:
            continue
        for fi, call in _constructor_calls(ctx, owner):
            arg = _ctor_arg(ctx, owner, call, f)
            inst = f"{fi.module.rel}:{fi.qualname}:{owner.name}({field}=)"
            if arg is None:
                run.ok("R09.4e", inst + ":default")
                continue
            ok = False
            why = src(arg)
            if isinstance(arg, ast.Name):
                oks = []
                for p in ctx.paths(fi):
                    for i, s in enumerate(p.steps):
                        if any(n is call for e in step_exprs(s) if e is not None for n in ast.walk(e)):
                            r, why = _fresh_at(ctx, fr, fi, p, i, arg.id)
                            oks.append(r)
                ok = bool(oks) and all(oks)
            elif isinstance(arg, ast.Attribute) and arg.attr == field and isinstance(arg.value, ast.Name):
                # ownership transfer from another struct of the same class obtained from a fresh-returning call
                src_owner = _local_class(ctx, fi, arg.value.id)
                ok = src_owner is owner
                why = f"taken over from {arg.value.id} ({owner.name})"
            else:
                ok = is_fresh_expr(arg, set(), fr.fresh_funcs)
            if ok:
                run.ok("R09.4e", inst, {"argument": why})
            else:
                run.fail(
                    "R09.4e",
                    inst,
                    f"{owner.name}.{field} is mutated in place elsewhere ({sites[0][0].qualname}) but is constructed here from the "
                    f"shared container `{src(arg)}`; the mutation would write through to the caller's object",
                    fi=fi,
                    node=call,
                )
    # Payload.copy re-wraps every mutable-typed field
    payload = m.cls(SQL_PAYLOAD, "Payload")
    copy = payload.methods.get("copy")
    if copy is None:
        raise AnalysisError("sql Payload.copy is missing")
    rep = [c for c in iter_calls(copy.node) if (dotted(c.func) or "").endswith("replace") or (dotted(c.func) or "").split("[")[0].split(".")[-1] in ("Payload", "cls", "type")]
    if not rep:
        raise AnalysisError("Payload.copy does not build a new Payload in a recognised way")
    for f in m.fields(payload):
        names = _annotation_names(f.annotation)
        if not (set(names) & (UNHASHABLE_ATOMS | {"MutableSequence", "MutableMapping", "MutableSet"})):
            continue
        inst = f"Payload.copy:{f.name}"
        arg = kw(rep[0], f.name)
        if arg is not None and is_fresh_expr(arg, set(), fr.fresh_funcs):
            run.ok("R09.4e", inst, {"rewrap": src(arg)})
        else:
            run.fail("R09.4e", inst, f"Payload.copy does not re-wrap the mutable field `{f.name}`; the copy would share it with the leaf's payload", fi=copy, node=rep[0])


def _const_or_arith(v) -> bool:
    return isinstance(v, ast.Constant) or (isinstance(v, ast.BinOp) and isinstance(v.op, (ast.Add, ast.Sub, ast.Mult)) and not isinstance(v.left, (ast.List, ast.Set, ast.Dict)))
