"""Rules about Processor._process_recursive that more than one property relies on."""

from __future__ import annotations

import ast

from ..astutil import AnalysisError, call_attr, pattern_captures, src
from ..facts import has_fact, path_facts
from ..flow import case_index, denotes, path_calls
from ..paths import env_at
from ..props.common import PROCESSOR, Ctx, describe

ARMS = ("Transfer", "Materialization", "MarkerRelation", "UnaryOperationRelation", "BinaryOperationRelation")


def _setup(ctx: Ctx):
    f = ctx.m.func(PROCESSOR, "Processor._process_recursive")
    orig = [p for p in f.params if p != "self"][0]
    return f, orig, ctx.paths(f)


def r07_8_materialize_as(ctx: Ctx, rule: str = "R07.8") -> None:
    run, m = ctx.run, ctx.m
    f, orig, paths = _setup(ctx)
    # ---- R07.8 the pending materialization name reaches only an immediately upstream transfer
    run.rule(
        rule,
        "materialize_as is handed down only from a Materialization (its own name) and through generic markers; Transfer, "
        "unary and binary arms recurse with None and report persisted = False (a Transfer reports `materialize_as is not None`)",
        5,
    )
    mat_param = [q for q in f.params if q != "self"][1]
    for i, p in enumerate(paths):
        arm = None
        ia = -1
        for name in ("Transfer", "Materialization", "MarkerRelation", "UnaryOperationRelation", "BinaryOperationRelation"):
            j = case_index(p, name, orig)
            if j >= 0:
                arm, ia = name, j
                break
        if arm is None:
            continue
        caps = pattern_captures(p.steps[ia].node.pattern)  # type: ignore[union-attr]
        name_v = next((n for n, a in caps.items() if a == ("name",)), f"{orig}.name")
        for j, c in path_calls(p, ia):
            if call_attr(c) != "_process_recursive":
                continue
            a = c.args[1] if len(c.args) > 1 else next((k.value for k in c.keywords if k.arg == mat_param), None)
            at = src(a) if a is not None else "<missing>"
            want = {"Transfer": {"None"}, "UnaryOperationRelation": {"None"}, "BinaryOperationRelation": {"None"}, "Materialization": {name_v, f"{orig}.name"}, "MarkerRelation": {mat_param}}[arm]
            inst = f"{arm}:recurse({mat_param}={at})"
            if at in want:
                run.ok(rule, inst)
            else:
                run.fail(
                    rule,
                    inst,
                    f"the {arm} arm recurses with {mat_param}={at}; expected {sorted(want)}: the name of a pending materialization may only reach a "
                    "transfer that is immediately upstream of it, otherwise the transfer hook persists the wrong relation under that name",
                    fi=f,
                    node=c,
                )
        if p.outcome == "return" and isinstance(p.value, ast.Tuple) and len(p.value.elts) == 2:
            flag = src(p.value.elts[1])
            inst = f"{arm}:persisted:path{i}"
            if arm == "Transfer":
                okf = flag in (f"{mat_param} is not None",)
            elif arm in ("UnaryOperationRelation",):
                okf = flag == "False"
            elif arm == "BinaryOperationRelation":
                b = env_at(p).get(flag)
                okf = flag == "False" or (isinstance(b, tuple) and b[0] == "unpack" and isinstance(b[1], ast.Call) and call_attr(b[1]) == "_process_recursive" and b[2] == 1)
            elif arm == "Materialization":
                okf = flag == "True"
            else:
                b = env_at(p).get(flag)
                okf = isinstance(b, tuple) and b[0] == "unpack" and b[2] == 1
            if okf:
                run.ok(rule, inst)
            else:
                run.fail(rule, inst, f"the {arm} arm reports persisted = `{flag}`", fi=f, node=p.node)
            # a flag taken from a recursive result describes *that* result: the relation handed back with it must be (built from) it
            b = env_at(p).get(flag)
            if isinstance(b, tuple) and b[0] == "unpack" and isinstance(b[1], ast.Call) and call_attr(b[1]) == "_process_recursive":
                partners = {n for n, bb in env_at(p).items() if isinstance(bb, tuple) and bb[0] == "unpack" and bb[1] is b[1] and bb[2] == 0}
                others = {n for n, bb in env_at(p).items() if isinstance(bb, tuple) and bb[0] == "unpack" and bb[1] is not b[1] and bb[2] == 0 and isinstance(bb[1], ast.Call) and call_attr(bb[1]) == "_process_recursive"}
                used = {n.id for n in ast.walk(p.value.elts[0]) if isinstance(n, ast.Name)}
                inst = f"{arm}:flag-partner:path{i}"
                if used & partners and not used & others:
                    run.ok(rule, inst)
                else:
                    run.fail(
                        rule,
                        inst,
                        f"the {arm} arm returns `{src(p.value.elts[0])[:50]}` together with `{flag}`, the persisted flag of a different processed operand ({sorted(partners)}): "
                        "an enclosing Materialization then takes a payload from (or skips the materialize hook for) the wrong relation",
                        fi=f,
                        node=p.node,
                    )


def r07_11_operands_processed(ctx: Ctx, rule: str = "R07.11") -> None:
    """Must-pass-through: no arm hands a node back before every operand of that node went through the recursion."""
    run, m = ctx.run, ctx.m
    f, orig, paths = _setup(ctx)
    run.rule(
        rule,
        "every returning path through an arm of _process_recursive has recursed into every operand of the node (a "
        "Transfer arm may skip its target only when it invents the payload of a statically trivial node): a node handed "
        "back with an unprocessed operand still contains transfers without payloads, which the final engine cannot execute",
        5,
    )
    want = {
        "Transfer": [("target",)],
        "Materialization": [("target",)],
        "MarkerRelation": [("target",)],
        "UnaryOperationRelation": [("target",)],
        "BinaryOperationRelation": [("lhs",), ("rhs",)],
    }
    seen = 0
    for i, p in enumerate(paths):
        arm, ia = None, -1
        for name in ARMS:
            j = case_index(p, name, orig)
            if j >= 0:
                arm, ia = name, j
                break
        if arm is None or p.outcome != "return":
            continue
        seen += 1
        rec = [c for _, c in path_calls(p, ia) if call_attr(c) == "_process_recursive"]
        missing = []
        for access in want[arm]:
            if not any(c.args and denotes(p, c.args[0], orig, access) for c in rec):
                missing.append(".".join(access))
        inst = f"{arm}:path{i}"
        if not missing:
            run.ok(rule, inst)
            continue
        if arm == "Transfer":
            facts = path_facts(p)
            trivial = has_fact(facts, "TRUTH", (f"{orig}.is_join_identity",), True) or has_fact(facts, "EQ", tuple(sorted(("0", f"{orig}.max_rows"))), True)
            if trivial:
                run.ok(rule, inst, {"why": "payload of a statically trivial transfer is invented in the destination"})
                continue
        run.fail(
            rule,
            inst,
            f"the {arm} arm can return `{src(p.value)[:50]}` without processing {orig}.{', '.join(missing)}: transfers and "
            "materializations upstream of it would never be evaluated, and the tree handed back is not executable in its final engine",
            fi=f,
            node=p.node,
            details=describe(p),
        )
    if seen < 5:
        raise AnalysisError("Processor._process_recursive: fewer returning arm paths than arms")
