"""Who writes attributes: a scanner for every attribute store in the package."""

from __future__ import annotations

import ast
import dataclasses

from ..astutil import attr_chain, dotted, src
from ..model import FunctionInfo, Model


@dataclasses.dataclass
class Store:
    fi: FunctionInfo | None  # None for module/class level code
    module: object
    node: ast.AST
    obj: ast.expr | None  # object written to
    attr: str | None  # constant attribute name, None when dynamic
    how: str  # 'assign' | 'augassign' | 'setattr' | 'dict' | 'del'

    @property
    def where(self) -> str:
        return self.fi.qualname if self.fi else "<module>"


def _scan(node: ast.AST, fi, module, out: list[Store]) -> None:
    for n in ast.walk(node):
        if isinstance(n, (ast.FunctionDef, ast.AsyncFunctionDef)) and n is not node:
            # nested defs are scanned as part of the enclosing function
            pass
        if isinstance(n, ast.Assign):
            for t in n.targets:
                _target(t, n, fi, module, out, "assign")
        elif isinstance(n, ast.AugAssign):
            _target(n.target, n, fi, module, out, "augassign")
        elif isinstance(n, ast.AnnAssign) and n.value is not None:
            _target(n.target, n, fi, module, out, "assign")
        elif isinstance(n, ast.Delete):
            for t in n.targets:
                _target(t, n, fi, module, out, "del")
        elif isinstance(n, ast.Call):
            name = dotted(n.func) or ""
            last = name.split(".")[-1]
            if last in ("__setattr__", "setattr", "__delattr__", "delattr"):
                args = list(n.args)
                if name in ("object.__setattr__", "setattr", "object.__delattr__", "delattr") or name.startswith("super()"):
                    if name.startswith("super()"):
                        obj = ast.Name("self", ast.Load())
                        name_arg = args[0] if args else None
                    else:
                        obj = args[0] if args else None
                        name_arg = args[1] if len(args) > 1 else None
                else:
                    obj = n.func.value if isinstance(n.func, ast.Attribute) else None
                    name_arg = args[0] if args else None
                attr = name_arg.value if isinstance(name_arg, ast.Constant) and isinstance(name_arg.value, str) else None
                out.append(Store(fi, module, n, obj, attr, "setattr"))
            elif isinstance(n.func, ast.Attribute) and n.func.attr in ("update", "setdefault", "pop", "clear", "__setitem__"):
                base = n.func.value
                if (isinstance(base, ast.Attribute) and base.attr == "__dict__") or (
                    isinstance(base, ast.Call) and dotted(base.func) == "vars"
                ):
                    obj = base.value if isinstance(base, ast.Attribute) else (base.args[0] if base.args else None)
                    out.append(Store(fi, module, n, obj, None, "dict"))


def _target(t: ast.expr, stmt: ast.AST, fi, module, out: list[Store], how: str) -> None:
    if isinstance(t, (ast.Tuple, ast.List)):
        for e in t.elts:
            _target(e, stmt, fi, module, out, how)
    elif isinstance(t, ast.Starred):
        _target(t.value, stmt, fi, module, out, how)
    elif isinstance(t, ast.Attribute):
        out.append(Store(fi, module, stmt, t.value, t.attr, how))
    elif isinstance(t, ast.Subscript):
        base = t.value
        if (isinstance(base, ast.Attribute) and base.attr == "__dict__") or (
            isinstance(base, ast.Call) and dotted(base.func) == "vars"
        ):
            obj = base.value if isinstance(base, ast.Attribute) else (base.args[0] if base.args else None)
            key = t.slice
            attr = key.value if isinstance(key, ast.Constant) and isinstance(key.value, str) else None
            out.append(Store(fi, module, stmt, obj, attr, "dict"))


def attribute_stores(model: Model) -> list[Store]:
    out: list[Store] = []
    for m in model.modules.values():
        seen_funcs = set()
        for fi in list(m.functions.values()) + [f for c in m.classes.values() for f in c.methods.values()]:
            seen_funcs.add(id(fi.node))
            _scan(fi.node, fi, m, out)
        # module- and class-level statements outside any function
        for stmt in m.tree.body:
            if isinstance(stmt, (ast.FunctionDef, ast.ClassDef)):
                if isinstance(stmt, ast.ClassDef):
                    for s in stmt.body:
                        if not isinstance(s, (ast.FunctionDef, ast.ClassDef)):
                            _scan(s, None, m, out)
                continue
            _scan(stmt, None, m, out)
    # de-duplicate (nested defs are reached twice)
    uniq: dict[int, Store] = {}
    for s in out:
        uniq.setdefault(id(s.node) * 31 + hash(s.attr), s)
    return list(uniq.values())


def describe_store(s: Store) -> str:
    return f"{s.how} {src(s.obj)}.{s.attr if s.attr else '<dynamic>'} in {s.where}"
