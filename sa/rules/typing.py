"""R08.5: a method that slices `self.<attr>` is only inherited by classes where that attribute is a sequence."""

from __future__ import annotations

import ast

from ..astutil import AnalysisError, src
from ..props.common import IT_ROWS, Ctx

SEQUENCE_NAMES = {"Sequence", "list", "tuple", "List", "Tuple", "MutableSequence", "str"}


def _outer_names(ann: ast.expr) -> set[str]:
    """Outermost type constructor(s) of an annotation: Sequence[Mapping[..]] -> {Sequence}; A | B -> both."""
    if isinstance(ann, ast.Constant) and isinstance(ann.value, str):
        try:
            ann = ast.parse(ann.value, mode="eval").body
        except SyntaxError:
            return set()
    if isinstance(ann, ast.BinOp) and isinstance(ann.op, ast.BitOr):
        return _outer_names(ann.left) | _outer_names(ann.right)
    if isinstance(ann, ast.Subscript):
        return _outer_names(ann.value)
    if isinstance(ann, ast.Name):
        return {ann.id}
    if isinstance(ann, ast.Attribute):
        return {ann.attr}
    return set()


def r08_5_slice_subscripts(ctx: Ctx, rule: str = "R08.5") -> None:
    run, m = ctx.run, ctx.m
    run.rule(
        rule,
        "every RowIterable class that inherits a method slicing `self.<attr>[a:b]` stores a sequence in that attribute "
        "(by the annotation of the constructor parameter it is assigned from)",
        expected_min=1,
    )
    base = ctx.cls(IT_ROWS, "RowIterable")
    classes = m.subclasses(base)

    def attr_annotation(c, attr):
        for k in m.mro(c):
            init = k.methods.get("__init__")
            if init is None:
                continue
            for n in ast.walk(init.node):
                if isinstance(n, ast.Assign) and any(src(t) == f"self.{attr}" for t in n.targets) and isinstance(n.value, ast.Name):
                    return init.param_annotation(n.value.id)
            return None
        return None

    seen = 0
    for c in classes:
        for f in c.methods.values():
            for n in ast.walk(f.node):
                if not (isinstance(n, ast.Subscript) and isinstance(n.slice, ast.Slice)):
                    continue
                basev = n.value
                # list(self.x)[a:b] / tuple(self.x)[a:b] window the *iteration* of x: rows for a sequence, keys for a mapping
                if isinstance(basev, ast.Call) and isinstance(basev.func, ast.Name) and basev.func.id in ("list", "tuple") and len(basev.args) == 1 and not basev.keywords:
                    basev = basev.args[0]
                if isinstance(basev, ast.Attribute) and src(basev.value) == "self":
                    attr = basev.attr
                    for d in classes:
                        if not m.is_subclass(d, c) or m.is_abstract(d):
                            continue
                        if m.method(d, f.name) is not f:
                            continue
                        seen += 1
                        ann = attr_annotation(d, attr)
                        names = _outer_names(ann) if ann is not None else set()
                        inst = f"{d.name}.{f.name}:self.{attr}[:]"
                        if names & SEQUENCE_NAMES and not names & {"Mapping", "dict", "Dict", "Set", "set", "frozenset"}:
                            run.ok(rule, inst, {"annotation": src(ann)})
                        else:
                            run.fail(
                                rule,
                                inst,
                                f"{d.name} inherits {c.name}.{f.name}, which slices self.{attr}, but stores `{src(ann) if ann is not None else 'nothing'}` there: "
                                "slicing a row window out of it fails at execute time",
                                fi=f,
                                node=n,
                            )
    if seen == 0:
        raise AnalysisError("no RowIterable method slices a stored attribute any more (RowSequence.sliced changed shape)")
