"""R05.*: merging and eliding adjacent operations."""

from __future__ import annotations

import ast
from collections import Counter

from ..astutil import AnalysisError, arg_or_kw, call_attr, dotted, iter_calls, kw, pattern_captures, pattern_class_names, src
from ..facts import has_fact, path_facts
from ..flow import case_index, path_calls
from ..paths import Path, env_at, resolve_name
from ..props.common import SQL_ENGINE, UNARY, Ctx, describe


def r05_1_simplify_discipline(ctx: Ctx, rule: str = "R05.1") -> None:
    run, m, k = ctx.run, ctx.m, ctx.k
    run.rule(
        rule,
        "simplify() returns only None, the upstream operation (do-nothing case), self when the upstream is superseded "
        "(projection over projection / over a calculation whose tag it drops), or a composition of both "
        "(<upstream>.then(self), Selection(<upstream predicate> AND self.predicate)); _finish_apply uses it correctly",
        expected_min=12,
    )
    for c in k.concrete(k.unary_ops):
        f = c.methods.get("simplify")
        if f is None:
            continue
        up = [p for p in f.params if p != "self"][0]
        for i, p in enumerate(ctx.paths(f)):
            inst = f"{c.name}.simplify:path{i}"
            if p.outcome != "return":
                run.fail(rule, inst, "simplify has a non-returning path", fi=f, node=p.node or f.node)
                continue
            v = p.value
            facts = path_facts(p)
            matched = [(s, pattern_class_names(s.node.pattern)) for s in p.steps if s.kind == "case" and s.value and src(s.subject) == up]  # type: ignore[union-attr]
            problem = None
            if isinstance(v, ast.Constant) and v.value is None:
                pass
            elif isinstance(v, ast.Name) and v.id == up:
                if c.name not in ("Slice", "Sort", "Identity"):
                    problem = f"returns the upstream operation unchanged, i.e. drops itself, but {c.name} has no do-nothing form here"
                # equivalence of the guard with the do-nothing condition is R05.2's business
            elif isinstance(v, ast.Name) and v.id == "self":
                if c.name != "Projection":
                    problem = f"{c.name} claims to supersede the upstream operation (returns self)"
                elif not matched:
                    problem = "returns self without having matched the upstream operation's class"
                else:
                    names = matched[-1][1]
                    if names == ["Projection"]:
                        pass
                    elif names == ["Calculation"]:
                        caps = pattern_captures(matched[-1][0].node.pattern)  # type: ignore[union-attr]
                        tagv = next((n for n, a in caps.items() if a == ("tag",)), f"{up}.tag")
                        if not any(fct.kind == "IN" and not fct.polarity and fct.args == (tagv, "self.columns") for fct in facts):
                            problem = "a projection supersedes an upstream calculation without having checked that it drops the calculated column"
                    else:
                        problem = f"a projection supersedes an upstream {names} (only a Projection, or a Calculation whose tag is dropped, may be elided)"
            elif isinstance(v, ast.Call) and call_attr(v) == "then":
                recv = src(v.func.value) if isinstance(v.func, ast.Attribute) else ""
                args = [src(a) for a in v.args]
                same_cls = matched and matched[-1][1] == [c.name]
                if recv != up or args != ["self"]:
                    problem = f"composition must be <upstream>.then(self) (existing first, new second); got `{src(v)}`"
                elif not same_cls:
                    problem = f"`{src(v)}` is used although the upstream operation was not matched as a {c.name}"
            elif isinstance(v, ast.Call) and (dotted(v.func) or "").split(".")[-1] == "Selection" and c.name == "Selection":
                a = arg_or_kw(v, 0, "predicate")
                caps = pattern_captures(matched[-1][0].node.pattern) if matched else {}  # type: ignore[union-attr]
                other = next((n for n, acc in caps.items() if acc == ("predicate",)), f"{up}.predicate")
                ok = isinstance(a, ast.Call) and call_attr(a) == "logical_and" and {src(a.func.value) if isinstance(a.func, ast.Attribute) else ""} | {src(x) for x in a.args} == {other, "self.predicate"}
                if not ok or not (matched and matched[-1][1] == ["Selection"]):
                    problem = f"merged selection must be the AND of the upstream predicate and self.predicate; got `{src(a)}`"
            else:
                problem = f"returns `{src(v)[:60]}`"
            if problem:
                run.fail(rule, inst, f"{c.name}.simplify {problem}", fi=f, node=p.node, details=describe(p))
            else:
                run.ok(rule, inst, {"returns": src(v)[:60]})
    # UnaryOperation._finish_apply's use of simplify
    f = m.func(UNARY, "UnaryOperation._finish_apply")
    tgt = [p for p in f.params if p != "self"][0]
    sim = [c for c in iter_calls(f.node) if call_attr(c) == "simplify"]
    if not sim or src(sim[0].func) != "self.simplify" or [src(a) for a in sim[0].args] != [f"{tgt}.operation"]:
        run.fail(rule, "_finish_apply:simplify-call", f"_finish_apply does not try self.simplify({tgt}.operation)", fi=f)
    else:
        run.ok(rule, "_finish_apply:simplify-call")
    seen_same = seen_rec = False
    for i, p in enumerate(ctx.paths(f)):
        if p.outcome != "return":
            continue
        v = p.value
        facts = path_facts(p)
        if isinstance(v, ast.Name) and v.id == tgt:
            seen_same = True
            if any(fct.kind == "IS" and fct.polarity and f"{tgt}.operation" in fct.args for fct in facts) and case_index(p, "UnaryOperationRelation", tgt) >= 0:
                run.ok(rule, f"_finish_apply:elided:path{i}")
            else:
                run.fail(rule, f"_finish_apply:elided:path{i}", "the target is returned unchanged without the simplification being identical to its operation", fi=f, node=p.node, details=describe(p))
        elif isinstance(v, ast.Call) and call_attr(v) == "_finish_apply":
            seen_rec = True
            recv = v.func.value if isinstance(v.func, ast.Attribute) else None
            b = resolve_name(p, recv.id) if isinstance(recv, ast.Name) else recv
            ok = isinstance(b, ast.Call) and call_attr(b) == "simplify" and [src(a) for a in v.args] == [f"{tgt}.target"]
            ok = ok and any(fct.kind == "TRUTH" and fct.polarity for fct in facts)
            if ok:
                run.ok(rule, f"_finish_apply:merged:path{i}")
            else:
                run.fail(rule, f"_finish_apply:merged:path{i}", f"a merged operation must replace the upstream node: expected <simplified>._finish_apply({tgt}.target), got `{src(v)}`", fi=f, node=p.node, details=describe(p))
    if not (seen_same and seen_rec):
        run.fail(rule, "_finish_apply:shape", "_finish_apply lost the elide/merge handling of simplify()", fi=f)
    # Identity
    ident = ctx.op_class("Identity")
    fa = ident.methods.get("_finish_apply")
    if fa and all(src(p.value) == [q for q in fa.params if q != "self"][0] for p in ctx.paths(fa)):
        run.ok(rule, "Identity._finish_apply")
    else:
        run.fail(rule, "Identity._finish_apply", "Identity._finish_apply does not return its argument", fi=fa or f)


# ------------------------------------------------------------------ R05.3 clamp


def r05_3_merged_constructors(ctx: Ctx, rule: str = "R05.3") -> None:
    run, m = ctx.run, ctx.m
    run.rule(
        rule,
        "merged constructors cannot raise: every internal Slice(...) built from computed bounds has stop None, or start "
        "clamped to stop / stop clamped to start; Join replacements set min_columns and max_columns to the same value",
        expected_min=3,
    )
    sl = ctx.op_class("Slice")
    post = sl.methods.get("__post_init__")
    if post is None or not any(p.outcome == "raise" for p in ctx.paths(post)):
        run.ok(rule, "Slice:no-invariant", {"note": "Slice.__post_init__ no longer rejects anything"})
        return
    sites = 0
    for fi in m.all_functions():
        if fi.module.rel in ("tests.py",):
            continue
        for i, p in enumerate(ctx.paths(fi)) if any((dotted(c.func) or "").split(".")[-1] == "Slice" for c in iter_calls(fi.node)) else []:
            for j, c in path_calls(p):
                if (dotted(c.func) or "").split(".")[-1] != "Slice":
                    continue
                a_start = arg_or_kw(c, 0, "start")
                a_stop = arg_or_kw(c, 1, "stop")
                if a_start is None and a_stop is None:
                    continue  # defaults: start=0, stop=None
                if fi.cls is not None and fi.cls.name == "BaseRelation":
                    continue  # user-supplied bounds: rejecting them is the documented behaviour (C20)
                sites += 1
                inst = f"{fi.module.rel}:{fi.qualname}:Slice:path{i}"

                def resolved(e):
                    if isinstance(e, ast.Name):
                        b = env_at(p, j + 1).get(e.id)
                        return b if isinstance(b, ast.expr) else e
                    return e

                r_stop = resolved(a_stop) if a_stop is not None else ast.Constant(None)
                r_start = resolved(a_start) if a_start is not None else ast.Constant(0)
                ok = False
                why = ""
                if isinstance(r_stop, ast.Constant) and r_stop.value is None:
                    ok, why = True, "stop is None"
                elif isinstance(r_start, ast.Constant) and r_start.value == 0:
                    ok, why = True, "start is 0"
                else:
                    nf = _nf_env(p, j, fi)
                    n_start = _nf_of(a_start, nf) if a_start is not None else frozenset({((), 0)})
                    n_stop = _nf_of(a_stop, nf) if a_stop is not None else "None"
                    if n_stop == "None":
                        ok, why = True, "stop is None"
                    elif n_start is not None and n_stop is not None and n_start != "None" and _provably_le(n_start, n_stop):
                        ok, why = True, "start <= stop follows from the operands' own invariants (min-plus normal forms)"
                    else:
                        facts = path_facts(p, j)
                        if a_start is not None and a_stop is not None and (
                            has_fact(facts, "LE", (src(a_start), src(a_stop)), True) or has_fact(facts, "LT", (src(a_stop), src(a_start)), False)
                        ):
                            ok, why = True, "guarded by a comparison"
                if ok:
                    run.ok(rule, inst, {"call": src(c), "why": why})
                else:
                    run.fail(
                        rule,
                        inst,
                        f"`{src(c)}` is built from computed bounds (start = {src(r_start)[:40]}, stop = {src(r_stop)[:50]}) with nothing establishing "
                        "stop >= start; Slice.__post_init__ raises ValueError for a pair of slices that are each valid "
                        "(e.g. a second window lying beyond the first)",
                        fi=fi,
                        node=c,
                        details=describe(p),
                    )
    if sites == 0:
        raise AnalysisError("no internal Slice(...) construction with computed bounds found (Slice.then changed shape)")
    for fi in m.all_functions():
        for c in iter_calls(fi.node):
            if (dotted(c.func) or "").endswith("replace") and kw(c, "min_columns") is not None:
                a, b = kw(c, "min_columns"), kw(c, "max_columns")
                inst = f"{fi.module.rel}:{fi.qualname}:replace(min,max)"
                if b is not None and src(a) == src(b):
                    run.ok(rule, inst)
                else:
                    run.fail(rule, inst, f"Join is rebuilt with min_columns={src(a)} and max_columns={src(b)}: Join.__post_init__ may raise", fi=fi, node=c)


# ------------------------------------------------------------------ R05.4 / R05.5 then()


ATOMS = ("self.start", "self.stop", "next.start", "next.stop")


def _nf_env(p: Path, upto: int, fi) -> dict[str, object]:
    """Normal forms of the integer locals bound on the path before step ``upto`` (sequential substitution)."""
    other = [q for q in fi.params if q != "self"]
    nx = other[0] if other else "next"
    env: dict[str, object] = {}

    class R(ast.NodeTransformer):
        def visit_Name(self, n):  # noqa: N802
            return ast.Name("next", n.ctx) if n.id == nx else n

    import copy

    for s in p.steps[: upto + 1]:
        if s.kind == "stmt" and isinstance(s.node, ast.Assign) and len(s.node.targets) == 1 and isinstance(s.node.targets[0], ast.Name):
            e = R().visit(copy.deepcopy(s.node.value))
            env[s.node.targets[0].id] = _lin_nf(e, env)
    env["__rename__"] = R
    return env


def _nf_of(e: ast.expr, env: dict[str, object]):
    import copy

    return _lin_nf(env["__rename__"]().visit(copy.deepcopy(e)), env)  # type: ignore[operator]


def _lin_nf(node: ast.expr, env: dict[str, object]):
    """Like _lin but locals are looked up as already-normalised forms."""
    if isinstance(node, ast.Name) and node.id in env:
        return env[node.id]
    if isinstance(node, ast.Constant) and node.value is None:
        return "None"
    if isinstance(node, ast.Constant) and isinstance(node.value, int):
        return frozenset({((), node.value)})
    t = src(node)
    if t in ATOMS:
        return frozenset({(((t, 1),), 0)})
    if isinstance(node, ast.BinOp) and isinstance(node.op, (ast.Add, ast.Sub)):
        a, b = _lin_nf(node.left, env), _lin_nf(node.right, env)
        if a is None or b is None or a == "None" or b == "None":
            return None
        if isinstance(node.op, ast.Sub):
            if len(b) != 1:
                return None
            ((tb, cb),) = b
            b = frozenset({(tuple((k, -v) for k, v in tb), -cb)})
        out = set()
        for ta, ca in a:
            for tb, cb in b:
                cnt = Counter(dict(ta))
                for k, v in tb:
                    cnt[k] += v
                out.add((tuple(sorted((k, v) for k, v in cnt.items() if v)), ca + cb))
        return frozenset(out)
    if isinstance(node, ast.Call) and isinstance(node.func, ast.Name) and node.func.id == "min" and not node.keywords:
        out = set()
        for a in node.args:
            x = _lin_nf(a, env)
            if x is None or x == "None":
                return None
            out |= x
        return frozenset(out)
    return None


def _nonneg(terms: tuple, const: int) -> bool:
    """Is sum(coeff * atom) + const >= 0 for all 0 <= start <= stop (per operand)?"""
    c = Counter(dict(terms))
    for who in ("self", "next"):
        lo, hi = c.get(f"{who}.start", 0), c.get(f"{who}.stop", 0)
        # lo*start + hi*stop >= 0 for all 0 <= start <= stop  <=>  hi >= 0 and lo + hi >= 0
        if hi < 0 or lo + hi < 0:
            return False
    return const >= 0


def _provably_le(start_nf: frozenset, stop_nf: frozenset) -> bool:
    """min(start alternatives) <= every stop alternative, using only 0 <= x.start <= x.stop."""
    for ts, cs in stop_nf:
        ok = False
        for tt, ct in start_nf:
            cnt = Counter(dict(ts))
            for k, v in tt:
                cnt[k] -= v
            if _nonneg(tuple(cnt.items()), cs - ct):
                ok = True
                break
        if not ok:
            return False
    return True


def _lin(node: ast.expr, names: dict[str, ast.expr], depth: int = 6):
    """Normal form of a min-plus expression: frozenset of (Counter-as-tuple, const) alternatives (their min)."""
    if depth <= 0:
        return None
    if isinstance(node, ast.Constant) and isinstance(node.value, int):
        return frozenset({((), node.value)})
    if isinstance(node, ast.Constant) and node.value is None:
        return "None"
    t = src(node)
    if t in ATOMS:
        return frozenset({(((t, 1),), 0)})
    if isinstance(node, ast.Name) and node.id in names:
        return _lin(names[node.id], names, depth - 1)
    if isinstance(node, ast.BinOp) and isinstance(node.op, (ast.Add, ast.Sub)):
        a, b = _lin(node.left, names, depth - 1), _lin(node.right, names, depth - 1)
        if a is None or b is None or a == "None" or b == "None":
            return None
        if isinstance(node.op, ast.Sub):
            if len(b) != 1:
                return None
            (tb, cb), = b
            b = frozenset({(tuple((k, -v) for k, v in tb), -cb)})
        out = set()
        for ta, ca in a:
            for tb, cb in b:
                cnt = Counter(dict(ta))
                for k, v in tb:
                    cnt[k] += v
                out.add((tuple(sorted((k, v) for k, v in cnt.items() if v)), ca + cb))
        return frozenset(out)
    if isinstance(node, ast.Call) and isinstance(node.func, ast.Name) and node.func.id == "min" and not node.keywords:
        out = set()
        for a in node.args:
            x = _lin(a, names, depth - 1)
            if x is None or x == "None":
                return None
            out |= x
        return frozenset(out)
    return None


def r05_4_then(ctx: Ctx, rule: str = "R05.4") -> None:
    run, m = ctx.run, ctx.m
    run.rule(
        rule,
        "then() composes existing-then-new: every call site is <existing>.then(<new>); Sort.then puts the later sort's "
        "terms first and appends only earlier terms not already present; Slice.then's bounds equal the reference "
        "min-plus normal forms (start = self.start + next.start, stop = min(self.stop, next.stop + self.start))",
        expected_min=8,
    )
    # call sites
    for fi in m.all_functions():
        for c in iter_calls(fi.node):
            if call_attr(c) != "then" or not isinstance(c.func, ast.Attribute) or len(c.args) != 1:
                continue
            recv, arg = src(c.func.value), src(c.args[0])
            inst = f"{fi.module.rel}:{fi.qualname}:{recv}.then({arg})"
            ps = [q for q in fi.params if q not in ("self", "cls")]
            new_names = {"self"} if fi.name == "simplify" else {ps[0]} if ps else set()
            if fi.name == "simplify":
                ok = recv == ps[0] and arg == "self"
            else:
                ok = arg in new_names and recv != arg and (recv.endswith(".slice") or recv.endswith(".sort"))
            if ok:
                run.ok(rule, inst)
            else:
                run.fail(rule, inst, f"`{src(c)}`: then() must be called on the existing operation with the new one as argument", fi=fi, node=c)
    # Sort.then
    so = ctx.op_class("Sort")
    st = so.methods.get("then")
    if st is None:
        raise AnalysisError("Sort.then is missing")
    nxt = [q for q in st.params if q != "self"][0]
    for i, p in enumerate(ctx.paths(st)):
        if p.outcome != "return":
            continue
        inst = f"Sort.then:path{i}"
        v = p.value
        a = arg_or_kw(v, 0, "terms") if isinstance(v, ast.Call) else None
        lst = a.args[0] if isinstance(a, ast.Call) and call_attr(a) == "tuple" and a.args else a
        name = lst.id if isinstance(lst, ast.Name) else None
        init = None
        for s in p.steps:
            if s.kind == "stmt" and isinstance(s.node, ast.Assign) and name and src(s.node.targets[0]) == name:
                init = s.node.value
                break
        problem = None
        if not (isinstance(v, ast.Call) and (dotted(v.func) or "") == "Sort") or name is None or init is None:
            problem = f"returns `{src(v)[:50]}`"
        elif src(init) not in (f"list({nxt}.terms)", f"[*{nxt}.terms]"):
            problem = f"the merged term list starts from `{src(init)}` instead of the later sort's terms ({nxt}.terms): the later sort must be the primary ordering"
        else:
            loops = [s for s in p.steps if s.kind == "loop"]
            if not loops or src(loops[0].node.iter) != "self.terms":  # type: ignore[union-attr]
                problem = "the earlier sort's terms (self.terms) are not appended as tie-breakers"
            elif loops[0].value:
                tv = src(loops[0].node.target)  # type: ignore[union-attr]
                appended = [c for _, c in path_calls(p) if call_attr(c) == "append" and isinstance(c.func, ast.Attribute) and src(c.func.value) == name]
                facts = path_facts(p)
                present = has_fact(facts, "IN", (tv, name), True)
                absent = has_fact(facts, "IN", (tv, name), False)
                if absent and not (appended and src(appended[0].args[0]) == tv):
                    problem = "an earlier term that is not yet present is not appended"
                if present and appended:
                    problem = "a term already present is appended again"
                if not (present or absent):
                    problem = "terms are appended without testing whether they are already present"
        if problem:
            run.fail(rule, inst, f"Sort.then {problem}", fi=st, node=p.node, details=describe(p))
        else:
            run.ok(rule, inst)
    # Slice.then normal forms
    sl = ctx.op_class("Slice")
    th = sl.methods.get("then")
    if th is None:
        raise AnalysisError("Slice.then is missing")
    nx = [q for q in th.params if q != "self"][0]

    def ren(e: ast.expr) -> ast.expr:
        class R(ast.NodeTransformer):
            def visit_Name(self, n):  # noqa: N802
                return ast.Name("next", n.ctx) if n.id == nx else n

        import copy

        return R().visit(copy.deepcopy(e))

    ref_start = frozenset({((("next.start", 1), ("self.start", 1)), 0)})
    decided = 0
    for i, p in enumerate(ctx.paths(th)):
        if p.outcome != "return":
            continue
        v = p.value
        if not (isinstance(v, ast.Call) and (dotted(v.func) or "") == "Slice"):
            run.note("Slice.then returns something other than Slice(...); bounds arithmetic undecided")
            continue
        facts = path_facts(p, versioned=False)
        self_none = has_fact(facts, "IS", ("None", "self.stop"), True)
        next_none = has_fact(facts, "IS", ("None", f"{nx}.stop"), True)
        self_some = has_fact(facts, "IS", ("None", "self.stop"), False)
        next_some = has_fact(facts, "IS", ("None", f"{nx}.stop"), False)
        if not ((self_none or self_some) and (next_none or next_some)):
            run.note("Slice.then no longer branches on self.stop/next.stop being None; bounds arithmetic undecided")
            continue
        # last binding of each local on this path (the clamp re-binds start from itself)
        chain: dict[str, list[ast.expr]] = {}
        for s in p.steps:
            if s.kind == "stmt" and isinstance(s.node, ast.Assign) and isinstance(s.node.targets[0], ast.Name):
                chain.setdefault(s.node.targets[0].id, []).append(s.node.value)
        a_start, a_stop = arg_or_kw(v, 0, "start"), arg_or_kw(v, 1, "stop")

        def final(e: ast.expr | None, clamp_ok: bool):
            """Normal form of e with locals expanded (first definitions), ignoring a final min(.., stop) clamp."""
            if e is None:
                return None
            names = {k: ren(vs[0]) for k, vs in chain.items()}
            if isinstance(e, ast.Name) and e.id in chain and len(chain[e.id]) > 1 and clamp_ok:
                last = chain[e.id][-1]
                if isinstance(last, ast.Call) and call_attr(last) == "min":
                    return _lin(ast.Name(e.id, ast.Load()), names)
            return _lin(ren(e), names)

        n_start = final(a_start, True)
        n_stop = final(a_stop, False)
        if self_none and next_none:
            ref_stop = "None"
        elif self_none:
            ref_stop = frozenset({((("next.stop", 1), ("self.start", 1)), 0)})
        elif next_none:
            ref_stop = frozenset({((("self.stop", 1),), 0)})
        else:
            ref_stop = frozenset({((("self.stop", 1),), 0), ((("next.stop", 1), ("self.start", 1)), 0)})
        inst = f"Slice.then:{'self.stop=None' if self_none else 'self.stop'}:{'next.stop=None' if next_none else 'next.stop'}"
        if n_start is None or n_stop is None:
            run.note(f"{inst}: bounds are computed in a form the min-plus normaliser does not cover; arithmetic undecided")
            continue
        decided += 1
        if n_start != ref_start:
            run.fail(rule, inst + ":start", f"composed slice starts at `{src(a_start)}` = {sorted(n_start)}; reference is self.start + next.start", fi=th, node=p.node, details=describe(p))
        elif n_stop != ref_stop:
            run.fail(rule, inst + ":stop", f"composed slice stops at `{src(resolve_name(p, a_stop.id) if isinstance(a_stop, ast.Name) else a_stop)}`; reference is {'None' if ref_stop == 'None' else sorted(ref_stop)} (min over alternatives)", fi=th, node=p.node, details=describe(p))
        else:
            run.ok(rule, inst, {"start": src(a_start), "stop": src(a_stop)})
    if decided:
        run.extra["slice_then_paths_decided"] = decided


# ------------------------------------------------------------------ R05.5 / R05.6


def r05_5_operations_stored_as_given(ctx: Ctx, rule: str = "R05.5") -> None:
    """Operation constructors validate but do not rewrite their fields (except Selection's documented normalisation)."""
    run, m, k = ctx.run, ctx.m, ctx.k
    run.rule(
        rule,
        "operation classes store their fields as given: __post_init__ may validate (raise) but assigns no field, except "
        "Selection.predicate (R13.3); a constructor that rewrites sort terms / bounds / columns changes what merging composes",
        expected_min=8,
    )
    allowed = {("Selection", "predicate")}
    sort_term = None
    try:
        sort_term = m.find_class("SortTerm")
    except AnalysisError:
        pass
    for c in k.concrete(k.unary_ops) + k.concrete(k.binary_ops) + ([sort_term] if sort_term else []):
        f = c.methods.get("__post_init__")
        inst = f"{c.name}.__post_init__"
        if f is None:
            run.ok(rule, inst, {"note": "no __post_init__"})
            continue
        writes = []
        for call in iter_calls(f.node):
            if call_attr(call) in ("__setattr__", "setattr") and len(call.args) >= 2:
                nm = call.args[1].value if isinstance(call.args[1], ast.Constant) else None
                writes.append((nm, call))
        for n in ast.walk(f.node):
            if isinstance(n, (ast.Assign, ast.AugAssign)):
                for t in (n.targets if isinstance(n, ast.Assign) else [n.target]):
                    if isinstance(t, ast.Attribute) and src(t.value) == "self":
                        writes.append((t.attr, n))
        bad = [(nm, node) for nm, node in writes if (c.name, nm) not in allowed]
        if bad:
            run.fail(rule, inst, f"{c.name}.__post_init__ rewrites field `{bad[0][0]}`: the operation no longer stores what it was given", fi=f, node=bad[0][1])
        else:
            run.ok(rule, inst)


def r05_6_who_may_elide(ctx: Ctx, rule: str = "R05.6") -> None:
    """Identity is constructed, and a target handed back unchanged, only at the documented do-nothing sites."""
    run, m, k = ctx.run, ctx.m, ctx.k
    run.rule(
        rule,
        "an operation is elided only at the documented do-nothing sites: Identity() is constructed only in the _begin_apply "
        "of Projection/Selection/Slice/Sort and as the superseded operation in Projection.commute; only those classes (and "
        "the placeholders / Join's identity operand) return their target unchanged from _finish_apply",
        expected_min=6,
    )
    ok_sites = {("Projection", "_begin_apply"), ("Selection", "_begin_apply"), ("Slice", "_begin_apply"), ("Sort", "_begin_apply"), ("Projection", "commute")}
    for fi in m.all_functions():
        if fi.module.rel == "tests.py":
            continue
        for call in iter_calls(fi.node):
            nm = (dotted(call.func) or "").split(".")[-1]
            if nm != "Identity" or m.resolve_class(fi.module, "Identity") is None:
                continue
            inst = f"{fi.module.rel}:{fi.qualname}:Identity()"
            site = (fi.cls.name if fi.cls else None, fi.name)
            if site in ok_sites:
                run.ok(rule, inst)
            else:
                run.fail(
                    rule,
                    inst,
                    f"{fi.qualname} constructs Identity(): an operation is dropped at a site that is not one of the documented "
                    "do-nothing cases (all-columns projection, trivially true selection, trivial slice, empty sort)",
                    fi=fi,
                    node=call,
                )
    may_return_target = {"Projection", "Selection", "Slice", "Sort", "Identity", "IgnoreOne", "Join", "UnaryOperation"}
    for c in k.unary_ops + k.binary_ops + [k.unary_root]:
        f = c.methods.get("_finish_apply")
        if f is None:
            continue
        params = [q for q in f.params if q != "self"]
        returns_arg = any(p.outcome == "return" and isinstance(p.value, ast.Name) and p.value.id in params for p in ctx.paths(f))
        inst = f"{c.name}._finish_apply:returns-target"
        if returns_arg and c.name not in may_return_target:
            run.fail(rule, inst, f"{c.name}._finish_apply can hand its target back unchanged: {c.name} has no do-nothing form, so the operation is silently dropped", fi=f)
        else:
            run.ok(rule, inst)
