"""R13.6: ``columns_required`` and ``is_supported_by`` are exact, decided over all small expression trees.

Both are pure recursive functions over the closed expression / predicate / container hierarchies: the columns an
expression requires are the tags of the references below it, and an engine supports it iff it is of a supporting type
for every engine-restricted function below it.  The methods are read from the source and interpreted (the evaluator of
`foldeval.py`, extended with sets and ``isinstance`` against a tuple of engine classes - repository code is not imported
or run) on every tree of depth <= 3 over: a literal, two column references, a boolean literal and reference, a range
container, an expression sequence, an unrestricted and an iteration-only function (both kinds), membership tests,
not/and/or with 0-2 operands; and for the three operations that carry expressions (Calculation, Selection, Sort).  The
result must equal the reference obtained by structural recursion over the same tree.  This replaces reasoning about
how the aggregation is written (``all``/``any``, accumulator loops, set unions) by its result.
"""

from __future__ import annotations

import ast
import itertools

from ..astutil import AnalysisError, src
from ..model import ClassInfo
from ..props.common import IT_ENGINE, SQL_ENGINE, Ctx
from .bounds import Crash, Obj, Oracle, _NeedChoice
from .foldeval import PyInterp


class SetInterp(PyInterp):
    """`PyInterp` plus python sets and isinstance() against evaluated class tuples."""

    def eval(self, n: ast.expr, env: dict):
        if isinstance(n, ast.Set):
            return {self.eval(e, env) for e in n.elts}
        if isinstance(n, ast.SetComp) and len(n.generators) == 1:
            return set(super().eval(n, env))
        if isinstance(n, ast.BinOp) and isinstance(n.op, (ast.BitOr, ast.BitAnd, ast.Sub)):
            a, b = self.eval(n.left, env), self.eval(n.right, env)
            if isinstance(a, (set, frozenset)) and isinstance(b, (set, frozenset)):
                r = a | b if isinstance(n.op, ast.BitOr) else a & b if isinstance(n.op, ast.BitAnd) else a - b
                return r
            if isinstance(a, int) and isinstance(b, int) and not isinstance(a, bool) and not isinstance(b, bool) and isinstance(n.op, ast.Sub):
                return a - b
            raise Crash(f"`{src(n)}` with operands {a!r}, {b!r}")
        if isinstance(n, ast.Compare) and len(n.ops) == 1 and isinstance(n.ops[0], (ast.In, ast.NotIn)):
            a, b = self.eval(n.left, env), self.eval(n.comparators[0], env)
            if isinstance(b, (set, frozenset, tuple, list)):
                return (a in b) == isinstance(n.ops[0], ast.In)
        return super().eval(n, env)

    def compare(self, op, a, b, n) -> bool:
        if isinstance(a, (set, frozenset)) and isinstance(b, (set, frozenset)) and isinstance(op, (ast.Lt, ast.LtE, ast.Gt, ast.GtE, ast.Eq, ast.NotEq)):
            import operator

            return {ast.Lt: operator.lt, ast.LtE: operator.le, ast.Gt: operator.gt, ast.GtE: operator.ge, ast.Eq: operator.eq, ast.NotEq: operator.ne}[type(op)](a, b)
        return super().compare(op, a, b, n)

    def block(self, stmts, env, f) -> None:
        for s in stmts:
            if isinstance(s, ast.AugAssign) and isinstance(s.target, ast.Name) and isinstance(env.get(s.target.id), set):
                val = self.eval(s.value, env)
                if not isinstance(val, (set, frozenset)):
                    raise Crash(f"`{src(s)}` with {val!r}")
                cur = env[s.target.id]
                if isinstance(s.op, ast.BitOr):
                    cur |= val
                elif isinstance(s.op, ast.BitAnd):
                    cur &= val
                elif isinstance(s.op, ast.Sub):
                    cur -= val
                else:
                    raise AnalysisError(f"{f.key}: `{src(s)}` is outside the fragment")
            else:
                super().block([s], env, f)

    def _args(self, n: ast.Call, env: dict) -> list:
        out = []
        for a in n.args:
            if isinstance(a, ast.Starred):
                v = self.eval(a.value, env)
                if not isinstance(v, (list, tuple, set, frozenset, range)):
                    raise Crash(f"`{src(n)[:50]}`: argument after * must be an iterable, not {type(v).__name__}")
                out.extend(v)
            else:
                out.append(self.eval(a, env))
        return out

    def call(self, n: ast.Call, env: dict):
        f = n.func
        if isinstance(f, ast.Name) and f.id in ("set", "frozenset") and len(n.args) <= 1 and not n.keywords:
            v = self.eval(n.args[0], env) if n.args else ()
            if isinstance(v, (set, frozenset, list, tuple)):
                return set(v) if f.id == "set" else frozenset(v)
            raise Crash(f"`{src(n)}` over {v!r}")
        if isinstance(f, ast.Name) and f.id == "isinstance" and len(n.args) == 2:
            try:
                kinds = self.eval(n.args[1], env)
            except AnalysisError:
                kinds = None
            if isinstance(kinds, ClassInfo):
                kinds = (kinds,)
            if isinstance(kinds, tuple) and kinds and all(isinstance(k, ClassInfo) for k in kinds):
                v = self.eval(n.args[0], env)
                return isinstance(v, Obj) and v.cls is not None and any(k is c for c in self.m.mro(v.cls) for k in kinds)
            if kinds is None and "supporting_engine_types" in src(n.args[1]):
                raise Crash(f"`{src(n)}`: isinstance() against None")
        if isinstance(f, ast.Name) and f.id in ("any", "all") and len(n.args) == 1:
            vals = self.eval(n.args[0], env)
            if isinstance(vals, (list, tuple, set, frozenset)):
                return (any if f.id == "any" else all)(self.truth(v) for v in vals)
        if isinstance(f, ast.Attribute) and isinstance(f.value, ast.Name) and f.value.id in ("set", "frozenset") and f.value.id not in env:
            # an unbound method: the first argument must be an instance of exactly that type
            args = self._args(n, env)
            kind = set if f.value.id == "set" else frozenset
            if not args:
                raise Crash(f"`{src(n)[:50]}`: unbound method {f.value.id}.{f.attr} needs an argument (no operands)")
            if not isinstance(args[0], kind):
                raise Crash(f"`{src(n)[:50]}`: descriptor '{f.attr}' for '{f.value.id}' objects doesn't apply to a '{type(args[0]).__name__}' object")
            if f.attr in ("union", "intersection", "difference") and all(isinstance(a, (set, frozenset, list, tuple)) for a in args[1:]):
                return getattr(args[0], f.attr)(*args[1:])
            raise AnalysisError(f"set evaluator: `{src(n)[:60]}` is outside the fragment")
        if isinstance(f, ast.Attribute):
            o = self.eval(f.value, env)
            if isinstance(o, (set, frozenset)):
                args = self._args(n, env)
                if f.attr in ("union", "intersection", "difference", "issubset", "issuperset", "isdisjoint", "copy"):
                    if not all(isinstance(a, (set, frozenset, list, tuple)) for a in args):
                        raise Crash(f"`{src(n)}` with {args!r}")
                    return getattr(o, f.attr)(*args)
                if isinstance(o, set) and f.attr in ("update", "add", "discard", "difference_update", "intersection_update"):
                    if f.attr in ("update", "difference_update", "intersection_update") and not all(isinstance(a, (set, frozenset, list, tuple)) for a in args):
                        raise Crash(f"`{src(n)}` with {args!r}")
                    getattr(o, f.attr)(*args)
                    return None
                raise Crash(f"`{src(n)}`: {type(o).__name__} has no method {f.attr}")
            if isinstance(f.value, ast.Call) is False and src(f.value) in ("itertools.chain", "chain") and f.attr == "from_iterable":
                args = self._args(n, env)
                return tuple(itertools.chain.from_iterable(args[0]))
        if (isinstance(f, ast.Attribute) and src(f) == "itertools.chain") or (isinstance(f, ast.Name) and f.id == "chain"):
            return tuple(itertools.chain(*self._args(n, env)))
        return super().call(n, env)

    def eval_name_fallback(self, name: str):
        raise AnalysisError(f"unknown name {name}")


def _universe(ctx: Ctx):
    m = ctx.m
    E, P, C = "_columns/_expression.py", "_columns/_predicate.py", "_columns/_container.py"
    it_engine = ctx.cls(IT_ENGINE, "Engine")
    sql_engine = ctx.cls(SQL_ENGINE, "Engine")
    lit = Obj(ctx.cls(E, "ColumnLiteral"), value=1, dtype=None)
    ra = Obj(ctx.cls(E, "ColumnReference"), tag="a", dtype=None)
    rb = Obj(ctx.cls(E, "ColumnReference"), tag="b", dtype=None)
    cf = ctx.cls(E, "ColumnFunction")
    pf = ctx.cls(E, "PredicateFunction") if m.find_class("PredicateFunction").module.path.endswith("_expression.py") else m.find_class("PredicateFunction")
    e0 = [lit, ra, rb]
    restricted = (it_engine,)
    e1 = list(e0)
    for args in [(ra,), (lit, rb), (ra, rb)]:
        e1.append(Obj(cf, name="f", args=args, dtype=None, supporting_engine_types=None))
        e1.append(Obj(cf, name="g", args=args, dtype=None, supporting_engine_types=restricted))
    # an engine-restricted function of constants only: it requires no column and is still not supported everywhere
    fr_const = Obj(cf, name="k", args=(lit,), dtype=None, supporting_engine_types=(sql_engine,))
    e1.append(fr_const)
    fr = Obj(cf, name="g", args=(ra,), dtype=None, supporting_engine_types=restricted)
    fu = Obj(cf, name="f", args=(rb,), dtype=None, supporting_engine_types=None)
    e2 = list(e1)
    for args in [(fr,), (fu, lit), (fu, fr), (fr, fu), (lit, fu)]:
        e2.append(Obj(cf, name="h", args=args, dtype=None, supporting_engine_types=None))
    e2.append(Obj(cf, name="h", args=(fu,), dtype=None, supporting_engine_types=(sql_engine,)))
    e2.append(Obj(cf, name="h", args=(fu,), dtype=None, supporting_engine_types=(sql_engine, it_engine)))
    seq = ctx.cls(C, "ColumnExpressionSequence")
    rng = Obj(ctx.cls(C, "ColumnRangeLiteral"), value=range(0, 3, 1), dtype=None)
    containers = [rng, Obj(seq, items=(lit, fr_const), dtype=None), Obj(seq, items=(fr_const,), dtype=None), Obj(seq, items=(), dtype=None), Obj(seq, items=(lit,), dtype=None), Obj(seq, items=(ra, lit), dtype=None), Obj(seq, items=(lit, fr), dtype=None), Obj(seq, items=(fu, rb), dtype=None), Obj(seq, items=(fr, fu), dtype=None)]
    T = Obj(ctx.cls(P, "PredicateLiteral"), value=True)
    pr = Obj(ctx.cls(P, "PredicateReference"), tag="p")
    inc = m.find_class("ColumnInContainer")
    p1 = [T, pr]
    for args in [(ra,), (lit, rb), (fr, lit), (lit, fr), (fu, ra)]:
        p1.append(Obj(pf, name="lt", args=args, supporting_engine_types=None))
    p1.append(Obj(pf, name="lt", args=(rb, lit), supporting_engine_types=restricted))
    p1.append(Obj(pf, name="lt", args=(fu,), supporting_engine_types=(sql_engine,)))
    for item in (lit, rb, fr):
        for c in containers:
            p1.append(Obj(inc, item=item, container=c))
    lnot, land, lor = ctx.cls(P, "LogicalNot"), ctx.cls(P, "LogicalAnd"), ctx.cls(P, "LogicalOr")
    p2 = list(p1)
    for x in p1:
        p2.append(Obj(lnot, operand=x))
    picks = [T, pr, p1[2], p1[4], p1[5], p1[7], p1[8], p1[-1], p1[-3]]
    for cls in (land, lor):
        p2.append(Obj(cls, operands=()))
        for x in picks:
            p2.append(Obj(cls, operands=(x,)))
        for x, y in itertools.product(picks, repeat=2):
            p2.append(Obj(cls, operands=(x, y)))
    p3 = list(p2)
    inner = [t for t in p2 if t.cls in (land, lor, lnot)][:: max(1, len(p2) // 60)]
    for cls in (land, lor):
        for x in inner:
            p3.append(Obj(cls, operands=(x, T)))
            p3.append(Obj(cls, operands=(pr, x)))
    for x in inner:
        p3.append(Obj(lnot, operand=x))
    engines = [Obj(it_engine, name="it"), Obj(sql_engine, name="sql")]
    return e2, containers, p3, engines


def _children(t: Obj):
    for v in t.attrs.values():
        if isinstance(v, Obj):
            yield v
        elif isinstance(v, tuple) and v and all(isinstance(x, Obj) for x in v):
            yield from v


def _ref_columns(t: Obj) -> frozenset:
    out = set()
    if "Reference" in t.cls.name and "tag" in t.attrs:
        out.add(t.attrs["tag"])
    for c in _children(t):
        out |= _ref_columns(c)
    return frozenset(out)


def _ref_supported(t: Obj, engine: Obj, m) -> bool:
    st = t.attrs.get("supporting_engine_types")
    if st is not None and not any(k is c for c in m.mro(engine.cls) for k in st):
        return False
    return all(_ref_supported(c, engine, m) for c in _children(t))


def _show(t) -> str:
    if not isinstance(t, Obj):
        return repr(t)
    n = t.cls.name
    a = t.attrs
    if n in ("ColumnLiteral",):
        return "1"
    if n == "PredicateLiteral":
        return str(a["value"])
    if "Reference" in n:
        return a["tag"]
    if n in ("ColumnFunction", "PredicateFunction"):
        st = a["supporting_engine_types"]
        mark = "" if st is None else "@" + "|".join("sql" if "sql" in k.module.path else "iteration" for k in st)
        return f"{a['name']}{mark}({', '.join(_show(x) for x in a['args'])})"
    if n == "ColumnRangeLiteral":
        return "range"
    if n == "ColumnExpressionSequence":
        return "[" + ", ".join(_show(x) for x in a["items"]) + "]"
    if n == "ColumnInContainer":
        return f"{_show(a['item'])} in {_show(a['container'])}"
    if n == "LogicalNot":
        return f"not ({_show(a['operand'])})"
    if n in ("LogicalAnd", "LogicalOr"):
        sep = " and " if n == "LogicalAnd" else " or "
        return "(" + sep.join(_show(x) for x in a["operands"]) + ")" if a["operands"] else n + "()"
    if n == "SortTerm":
        return _show(a["expression"])
    if n == "Calculation":
        return f"Calculation(c, {_show(a['expression'])})"
    if n == "Selection":
        return f"Selection({_show(a['predicate'])})"
    if n == "Sort":
        return "Sort(" + ", ".join(_show(x) for x in a["terms"]) + ")"
    return repr(t)


def decided(ctx: Ctx):
    cached = getattr(ctx, "_req_cache", None)
    if cached is None:
        cached = _decide(ctx)
        ctx._req_cache = cached  # type: ignore[attr-defined]
    return cached


def _decide(ctx: Ctx):
    m = ctx.m
    exprs, containers, preds, engines = _universe(ctx)
    ops = []
    calc, sel, sort = ctx.op_class("Calculation"), ctx.op_class("Selection"), ctx.op_class("Sort")
    st = m.find_class("SortTerm")
    for e in exprs:
        ops.append(Obj(calc, tag="c", expression=e))
    for p in preds[:: max(1, len(preds) // 80)]:
        ops.append(Obj(sel, predicate=p))
    pick = [exprs[0], exprs[1], exprs[2], exprs[4], exprs[5], exprs[-1], exprs[-4]]
    ops.append(Obj(sort, terms=()))
    for x in pick:
        ops.append(Obj(sort, terms=(Obj(st, expression=x, ascending=True),)))
    for x, y in itertools.product(pick, repeat=2):
        ops.append(Obj(sort, terms=(Obj(st, expression=x, ascending=True), Obj(st, expression=y, ascending=False))))
    trees = exprs + containers + preds + ops
    # per (class, method): first counterexample; a wrong answer is charged to the deepest node that gives one, so a
    # correct method is never blamed for what its child reports
    bad: dict[tuple[str, str], tuple[Obj, str]] = {}
    counts: dict[tuple[str, str], int] = {}
    memo: dict[tuple[int, str], str | None] = {}

    def verdict_cols(t: Obj) -> str | None:
        k = (id(t), "c")
        if k in memo:
            return memo[k]
        want_cols = _ref_columns(t)
        interp = SetInterp(ctx, Oracle([]), t.cls.module, {})
        why = None
        try:
            got = interp.getattr(t, "columns_required", ast.Name("columns_required", ast.Load()))
            if isinstance(got, tuple) and got and got[0] == "bound-method":
                got = interp.call_function(got[2], t, [], {})
            key = (t.cls.name, "columns_required")
            counts[key] = counts.get(key, 0) + 1
            if not isinstance(got, (set, frozenset)):
                why = f"columns_required is {got!r}, not a set"
            elif set(got) != set(want_cols):
                missing, extra = sorted(set(want_cols) - set(got)), sorted(set(got) - set(want_cols))
                why = "columns_required " + ("misses " + str(missing) if missing else "") + (" reports " + str(extra) + " which it does not use" if extra else "")
        except Crash as e:
            why = f"columns_required fails: {e}"
        except _NeedChoice:
            raise AnalysisError(f"{t.cls.name}.columns_required depends on a predicate the evaluator cannot decide")
        memo[k] = why
        return why

    def verdict_sup(t: Obj, eng: Obj) -> str | None:
        k = (id(t), "s" + eng.attrs["name"])
        if k in memo:
            return memo[k]
        meth = m.method(t.cls, "is_supported_by")
        if meth is None or meth.is_abstract:
            raise AnalysisError(f"{t.cls.name} has no concrete is_supported_by")
        want = _ref_supported(t, eng, m)
        interp = SetInterp(ctx, Oracle([]), t.cls.module, {})
        why = None
        try:
            got = interp.call_function(meth, t, [eng], {})
            key = (t.cls.name, "is_supported_by")
            counts[key] = counts.get(key, 0) + 1
            if got is not want:
                which = "the SQL engine" if eng.attrs["name"] == "sql" else "the iteration engine"
                why = f"is_supported_by({which}) is {got!r}, but " + ("every part of it is supported there" if want else "it contains a function restricted to another engine type")
        except Crash as e:
            why = f"is_supported_by fails: {e}"
        except _NeedChoice:
            raise AnalysisError(f"{t.cls.name}.is_supported_by depends on a predicate the evaluator cannot decide")
        memo[k] = why
        return why

    def culprit(t: Obj, verdict) -> tuple[Obj, str] | None:
        for c in _children(t):
            if m.method(c.cls, "is_supported_by") is None:  # a plain holder (SortTerm): look through it
                for cc in _children(c):
                    r = culprit(cc, verdict)
                    if r is not None:
                        return r
                continue
            r = culprit(c, verdict)
            if r is not None:
                return r
        why = verdict(t)
        return (t, why) if why is not None else None

    for t in trees:
        r = culprit(t, verdict_cols)
        if r is not None:
            bad.setdefault((r[0].cls.name, "columns_required"), r)
        for eng in engines:
            r = culprit(t, lambda x, eng=eng: verdict_sup(x, eng))
            if r is not None:
                bad.setdefault((r[0].cls.name, "is_supported_by"), r)
    out = []
    for key in sorted(counts.keys() | bad.keys()):
        cname, meth = key
        cls = bad[key][0].cls if key in bad else next(t.cls for t in trees if t.cls.name == cname)
        f = m.method(cls, meth)
        if key in bad:
            t, why = bad[key]
            consequence = "operations using it are accepted on relations that lack the column (or refused on relations that have all it needs)" if meth == "columns_required" else "an engine-restricted expression is accepted by (or a supported one refused by) the wrong engine"
            out.append((f"{cname}.{meth}:exact", False, f"`{_show(t)}`: {why}; {consequence}", f, None))
        else:
            out.append((f"{cname}.{meth}:exact", True, "", None, {"evaluations": counts[key]}))
    return out


def r13_6_requirements(ctx: Ctx, rule: str = "R13.6") -> None:
    run = ctx.run
    run.rule(
        rule,
        "columns_required and is_supported_by equal the structural reference (tags of the references below; every "
        "engine-restricted function below supports the engine) on every expression/container/predicate tree of depth <= 3 "
        "and on Calculation/Selection/Sort operations over them, for the iteration and the SQL engine",
        expected_min=24,
    )
    # what is_supported_by may know about the engine: its type, nothing else (not what its function registry happens to resolve)
    m = ctx.m
    seen_cls = set()
    for c in list(ctx.k.concrete(ctx.k.column_exprs)) + list(ctx.k.concrete(ctx.k.predicates)) + list(ctx.k.concrete(ctx.k.containers)) + [ctx.op_class(n) for n in ("Calculation", "Selection", "Sort")]:
        f = m.method(c, "is_supported_by")
        if f is None or f.key in seen_cls:
            continue
        seen_cls.add(f.key)
        ps = [q for q in f.params if q != "self"]
        if not ps:
            continue
        eng = ps[0]
        parents: dict[int, ast.AST] = {}
        for n in ast.walk(f.node):
            for ch in ast.iter_child_nodes(n):
                parents[id(ch)] = n
        bad_use = None
        for n in ast.walk(f.node):
            if not (isinstance(n, ast.Name) and n.id == eng and isinstance(n.ctx, ast.Load)):
                continue
            par = parents.get(id(n))
            ok = False
            if isinstance(par, ast.Call) and n in par.args:
                fn = par.func
                if isinstance(fn, ast.Name) and fn.id == "isinstance" and par.args and par.args[0] is n:
                    ok = True
                elif isinstance(fn, ast.Attribute) and fn.attr == "is_supported_by":
                    ok = True
                elif isinstance(fn, ast.Name) and fn.id == "type" and len(par.args) == 1:
                    gp = parents.get(id(par))
                    ok = isinstance(gp, ast.Call) and isinstance(gp.func, ast.Name) and gp.func.id == "issubclass" and gp.args and gp.args[0] is par
            if not ok:
                bad_use = n
                break
        inst = f"{c.name}.is_supported_by:engine-type-only"
        if bad_use is None:
            run.ok(rule, inst)
        else:
            par = parents.get(id(bad_use))
            run.fail(rule, inst, f"{c.name}.is_supported_by uses the engine in `{src(par)[:70] if par is not None else eng}`: support is decided by `isinstance(engine, supporting_engine_types)` and by the children alone - not by what the engine's registry resolves, nor by comparing classes the other way round", fi=f, node=bad_use)
    for inst, ok, msg, fi, extra in decided(ctx):
        if ok:
            run.ok(rule, inst, extra)
        else:
            run.fail(rule, inst, msg, fi=fi)


def r_common_columns_exact(ctx: Ctx, rule: str) -> None:
    """Join.applied_common_columns, evaluated on every small configuration, against its documented meaning."""
    from .mergeeval import MergeInterp

    run, m = ctx.run, ctx.m
    run.rule(
        rule,
        "Join.applied_common_columns(lhs, rhs) is exactly the key columns common to both operands, restricted to max_columns "
        "when that is given, and raises when they do not cover min_columns - on every combination of operand column sets "
        "over two key tags and one non-key tag and every (min_columns, max_columns) choice",
        expected_min=1,
    )
    join = ctx.op_class("Join")
    f = m.method(join, "applied_common_columns")
    if f is None:
        raise AnalysisError("Join.applied_common_columns is missing")
    k1, k2, n1 = Obj(None, is_key=True, qualified_name="k1"), Obj(None, is_key=True, qualified_name="k2"), Obj(None, is_key=False, qualified_name="n1")
    tags = (k1, k2, n1)
    name = {id(k1): "k1", id(k2): "k2", id(n1): "n1"}
    subsets = [frozenset(c) for r in range(4) for c in itertools.combinations(tags, r)]
    choices = [(frozenset(), None), (frozenset({k1}), None), (frozenset(), frozenset({k1})), (frozenset(), frozenset({k1, k2})), (frozenset(), frozenset({k1, n1})), (frozenset(), frozenset({n1})), (frozenset({k1}), frozenset({k1, k2})), (frozenset({k1}), frozenset({k1, n1})), (frozenset({n1}), frozenset({k1, n1}))]
    show = lambda s: "{" + ", ".join(sorted(name[id(t)] for t in s)) + "}" if s is not None else "None"  # noqa: E731
    n = 0
    bad = None
    for mn, mx in choices:
        op = Obj(join, predicate=None, min_columns=mn, max_columns=mx)
        for L in subsets:
            for R in subsets:
                lhs, rhs = Obj(None, columns=L), Obj(None, columns=R)
                want = {t for t in L & R if t.attrs["is_key"]}
                if mx is not None:
                    want &= mx
                want_raise = not want >= mn
                interp = MergeInterp(ctx, Oracle([]), join.module, {})
                n += 1
                try:
                    got = interp.call_function(f, op, [lhs, rhs], {})
                    raised = None
                except Crash as e:
                    got, raised = None, str(e)
                except _NeedChoice:
                    raise AnalysisError("applied_common_columns depends on a predicate the evaluator cannot decide")
                cfg = f"lhs{show(L)} rhs{show(R)} min={show(mn)} max={show(mx)}"
                if raised is not None and not want_raise:
                    bad = bad or f"{cfg}: raises ({raised[:60]}) although the common key columns {show(want)} cover min_columns"
                elif raised is None and want_raise:
                    bad = bad or f"{cfg}: returns {show(got) if isinstance(got, (set, frozenset)) else got!r} although the common key columns {show(want)} do not cover min_columns"
                elif raised is None and (not isinstance(got, (set, frozenset)) or set(got) != want):
                    extra = [t for t in (got or ()) if isinstance(t, Obj) and t not in want] if isinstance(got, (set, frozenset)) else []
                    why = "a non-key column becomes an equality constraint of the join" if any(not t.attrs["is_key"] for t in extra) else "it is not the set of key columns common to both operands (within max_columns)"
                    bad = bad or f"{cfg}: returns {show(got) if isinstance(got, (set, frozenset)) else got!r}, expected {show(want)}: {why}"
    if bad:
        run.fail(rule, "Join.applied_common_columns:exact", bad, fi=f)
    else:
        run.ok(rule, "Join.applied_common_columns:exact", {"configurations": n})
