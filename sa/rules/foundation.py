"""The foundation bundle: integrity rules that every behavioural property rests on.

A property about rows, bounds, order or errors holds only if the values it talks about are what they seem: value
objects that cannot change under their holders, equality and hash that do not move, engines that are compared by
identity and carry no memory, bound formulas and constant folding that are right, markers that are re-applied with the
payload they are given, row iterables that can be iterated again, Select markers whose slots and target agree.  A break
in any of these shows up as a violation of whatever property the affected code path serves - the seeding rounds
produced the *same* data-structure edit under six different properties - so every property runs the bundle instead of
borrowing rules one at a time.

The bundle is the same for every property and depends only on the sources, so its result (rule statistics and
violations) is computed once per source digest and kept in a scratch cache (``/tmp/verif-foundation``; purely an
optimisation - a missing or unwritable cache only means the rules are evaluated again).
"""

from __future__ import annotations

import dataclasses
import hashlib
import importlib
import json
import os

from ..astutil import AnalysisError
from ..props.common import IT_ENGINE, SQL_ENGINE, Ctx
from ..report import RuleStats, Run, Violation

CACHE_DIR = "/tmp/verif-foundation"
_IMPORTING = [0]
_CODE_DIGEST: str | None = None

ALLOWED_REWRITES = {
    "Selection.predicate": "the conjunction of the flattened predicate (R13.3 pins how)",
    "LeafRelation.name": "a generated name when none was given (R19.2 pins how)",
}

# rules that live inside another property's check and are taken over with their own ids
IMPORTS = {
    "c01": ("R01.2", "R01.4", "R01.5"),
    "c07": ("R07.6",),
    "c18": ("R18.1", "R18.2", "R18.3"),
    "c19": ("R19.2",),
}


def value_classes(ctx: Ctx):
    k = ctx.k
    out = []
    for group in (k.column_exprs, k.predicates, k.containers, k.unary_ops, k.binary_ops):
        out.extend(k.concrete(group))
    out.extend(c for c in ctx.m.subclasses(k.relation_root) if not ctx.m.is_abstract(c))
    seen: set[str] = set()
    res = []
    for c in out:
        if c.key not in seen:
            seen.add(c.key)
            res.append(c)
    try:
        st = ctx.m.find_class("SortTerm")
    except Exception:
        st = None
    if st is not None and st.key not in seen:
        res.append(st)
    return res


def _code_digest() -> str:
    global _CODE_DIGEST
    if _CODE_DIGEST is None:
        h = hashlib.sha256()
        root = os.path.dirname(os.path.dirname(os.path.abspath(__file__)))
        for dirpath, dirnames, filenames in os.walk(root):
            dirnames[:] = sorted(d for d in dirnames if d != "__pycache__")
            for fn in sorted(filenames):
                if fn.endswith((".py", ".json")):
                    with open(os.path.join(dirpath, fn), "rb") as f:
                        h.update(fn.encode())
                        h.update(f.read())
        known = os.path.join(os.path.dirname(root), "known_findings.json")
        if os.path.exists(known):
            with open(known, "rb") as f:
                h.update(f.read())
        _CODE_DIGEST = h.hexdigest()[:16]
    return _CODE_DIGEST


def _table(ctx: Ctx):
    from . import bounds, classlevel, defassign, expressions, foldeval, mutation, purity, sqlemit, structure, triviality, typedcalls

    return [
        ("R09.1", lambda: mutation.r09_1_frozen(ctx)),
        ("R09.2", lambda: mutation.r09_2_hashable_fields(ctx)),
        ("R09.4", lambda: mutation.r09_4_no_shared_mutation(ctx)),
        ("F01", lambda: structure.r14_9_engine_plumbing(ctx, rule="F01")),
        ("F02", lambda: bounds.r06_7_bound_formulas(ctx, rule="F02")),
        ("F03", lambda: foldeval.r13_5_folding(ctx, rule="F03")),
        ("F04", lambda: purity.r_engine_stateless(ctx, "F04", SQL_ENGINE, ("to_executable", "to_payload", "conform", "append_unary", "append_binary"))),
        ("F05", lambda: purity.r_engine_stateless(ctx, "F05", IT_ENGINE, ("execute", "convert_column_expression", "convert_predicate", "append_unary", "append_binary"))),
        ("F06", lambda: purity.r_no_value_keyed_cache(ctx, "F06")),
        ("F07", lambda: classlevel.r_mutable_slots_uncompared(ctx, "F07")),
        ("F08", lambda: classlevel.r_stored_as_given(ctx, "F08", value_classes(ctx), ALLOWED_REWRITES)),
        ("F09", lambda: classlevel.r_no_shared_defaults(ctx, "F09")),
        ("F10", lambda: classlevel.r_materialized_classes(ctx, "F10")),
        ("F11", lambda: classlevel.r_closures_capture_reiterables(ctx, "F11")),
        ("F12", lambda: classlevel.r_factory_forwarding(ctx, "F12")),
        ("F13", lambda: classlevel.r_strip_flag_consumed(ctx, "F13")),
        ("F14", lambda: classlevel.r_literal_bound(ctx, "F14")),
        ("F15", lambda: structure.r_marker_reapply(ctx, "F15")),
        ("F16", lambda: expressions.r12_3_connectives(ctx, rule="F16")),
        ("F17", lambda: triviality.r05_2_noop_predicates_agree(ctx, rule="F17")),
        ("F18", lambda: structure.r06_1_flags(ctx, rule="F18")),
        ("F19", lambda: structure.r17_conform(ctx, rules=("F19a", "F19b", "F19c"))),
        ("F20", lambda: sqlemit.r02_5_emission_coverage(ctx, rule="F20")),
        ("F22", lambda: classlevel.r_no_swallowed_exceptions(ctx, "F22")),
        ("F23", lambda: classlevel.r_init_order(ctx, "F23")),
        ("F24", lambda: classlevel.r_no_tag_ordering(ctx, "F24")),
        ("F25", lambda: classlevel.r_self_attributes_defined(ctx, "F25")),
        ("F26", lambda: classlevel.r_public_defaults(ctx, "F26")),
        ("F27", lambda: classlevel.r_no_shadowing_captures(ctx, "F27")),
        ("F28", lambda: classlevel.r_no_double_formatting(ctx, "F28")),
        ("F29", lambda: defassign.r_definite_assignment(ctx, "F29")),
        ("F30", lambda: typedcalls.r_typed_attributes(ctx, "F30")),
        ("F31", lambda: typedcalls.r_call_arity(ctx, "F31")),
        ("F32", lambda: classlevel.r_metadata_ignores_payload(ctx, "F32")),
        ("F33", lambda: classlevel.r_no_order_from_fresh_sets(ctx, "F33")),
        ("F34", lambda: classlevel.r_no_truthiness_dunders(ctx, "F34")),
        ("R15.1", lambda: structure.r15_1_rewriters_stop_at_locked(ctx)),
    ]


def _compute(ctx: Ctx) -> Run:
    """Evaluate the bundle into a run of its own."""
    sub = Run("FOUNDATION", ctx.run.tier, "other", ctx.m)
    sctx = Ctx(ctx.m, sub)
    _IMPORTING[0] += 1
    try:
        for _rid, fn in _table(sctx):
            fn()
        from .. import report as _report

        saved = _report.CURRENT
        try:
            for prop, rids in IMPORTS.items():
                mod = importlib.import_module(f"sa.props.{prop}")
                partial = False
                try:
                    other = mod.check(ctx.m, "quick")
                except AnalysisError as e:
                    # that property's own check could not finish on this tree; what its rules found before stands
                    other = _report.CURRENT
                    partial = True
                    sub.notes.append(f"rules imported from {prop.upper()} were evaluated only in part ({e})")
                    if other is None or getattr(other, "prop", "") != prop.upper():
                        continue
                for rid in rids:
                    if rid in other.rules and rid not in sub.rules:
                        st = other.rules[rid]
                        vs = [v for v in other.violations if v.rule == rid]
                        if partial:
                            if not vs:
                                continue
                            st.expected_min = min(st.expected_min, max(1, st.instances))
                        sub.rules[rid] = st
                        sub.violations.extend(vs)
        finally:
            _report.CURRENT = saved
    finally:
        _IMPORTING[0] -= 1
    return sub


def _to_json(sub: Run) -> dict:
    return {
        "rules": [
            {"rule": st.rule, "text": st.text, "expected_min": st.expected_min, "instances": st.instances, "nontrivial": sorted(st.nontrivial), "failed": st.failed, "samples": st.samples}
            for st in sub.rules.values()
        ],
        "violations": [dataclasses.asdict(v) for v in sub.violations],
        "functions": sorted(sub.functions_analysed),
        "paths": sub.paths_enumerated,
    }


def _from_json(d: dict) -> tuple[list[RuleStats], list[Violation], set[str], int]:
    rules = [RuleStats(r["rule"], r["text"], r["expected_min"], r["instances"], set(r["nontrivial"]), r["failed"], r["samples"]) for r in d["rules"]]
    vs = [Violation(**v) for v in d["violations"]]
    return rules, vs, set(d.get("functions", [])), int(d.get("paths", 0))


def run_foundation(ctx: Ctx, nn: str, skip: tuple[str, ...] = (), only: tuple[str, ...] | None = None) -> None:
    """Merge the bundle's rules into the current run (rules the property already declared under the same id are kept)."""
    if _IMPORTING[0]:
        return  # the bundle never runs inside the bundle (or inside a property run it imports rules from)
    key = f"{ctx.m.sources.digest()}-{_code_digest()}"
    path = os.path.join(CACHE_DIR, key + ".json")
    data = None
    if os.path.exists(path):
        try:
            with open(path, encoding="utf-8") as f:
                data = json.load(f)
        except (OSError, ValueError):
            data = None
    if data is None:
        sub = _compute(ctx)
        data = _to_json(sub)
        try:
            os.makedirs(CACHE_DIR, exist_ok=True)
            tmp = path + f".{os.getpid()}"
            with open(tmp, "w", encoding="utf-8") as f:
                json.dump(data, f, default=str)
            os.replace(tmp, path)
            entries = sorted((os.path.getmtime(os.path.join(CACHE_DIR, f)), f) for f in os.listdir(CACHE_DIR) if f.endswith(".json"))
            for _mt, f in entries[:-600]:
                os.unlink(os.path.join(CACHE_DIR, f))
        except OSError:
            pass
    rules, violations, funcs, paths = _from_json(data)
    run = ctx.run
    taken = set()
    own_texts = {x.text for x in run.rules.values()}
    for st in rules:
        if st.rule in run.rules or st.text in own_texts:
            continue  # the property runs this rule under an id of its own
        if st.rule in skip or (only is not None and st.rule not in only):
            continue
        run.rules[st.rule] = st
        taken.add(st.rule)
    for v in violations:
        if v.rule in taken:
            v.prop = run.prop
            run.violations.append(v)
    run.functions_analysed |= funcs
    run.extra["foundation"] = {"rules": sorted(taken), "cache_key": key}
