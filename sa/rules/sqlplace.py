"""SQL engine placement logic: R02.1 (Select placement table), R08.2 (compound guard),
R08.3 (ORDER BY scope), R11.1-R11.3 (order-loss guards, sort/slice placement, emission)."""

from __future__ import annotations

import ast
import itertools

from ..absval import AbsState, ClsVal, ConstVal, cls_val, feasible
from ..astutil import AnalysisError, call_attr, dotted, iter_calls, kw, src
from ..facts import has_fact, path_facts
from ..flow import path_calls
from ..model import ClassInfo
from ..paths import Path, resolve_name
from ..props.common import SQL_ENGINE, SQL_SELECT, Ctx, describe
from .guards import Required, check_required, has_required

FLAGS = ("has_sort", "has_projection", "has_deduplication", "has_slice", "is_compound")
SHORT = {"has_sort": "srt", "has_projection": "prj", "has_deduplication": "ddp", "has_slice": "slc", "is_compound": "cmp"}

# When must the existing SELECT become a subquery?  Within one SELECT the clauses act in the order
# inner (WHERE / calculated columns) -> ORDER BY -> select-list -> DISTINCT -> OFFSET/LIMIT; a new operation is
# logically last, so it may share the SELECT only if it commutes with every occupied later slot.
MUST_NEST = {
    "Selection": (lambda s: s["has_slice"] or s["is_compound"], "a filter does not commute with LIMIT/OFFSET, and WHERE cannot attach to a UNION"),
    "Calculation": (lambda s: s["is_compound"], "a UNION has no place for a new column expression without a subquery"),
    "Deduplication": (lambda s: s["has_slice"] and not s["has_deduplication"], "DISTINCT does not commute with LIMIT/OFFSET"),
    "Projection": (lambda s: s["has_deduplication"], "dropping columns does not commute with DISTINCT"),
    "Sort": (lambda s: s["has_slice"], "ORDER BY does not commute with LIMIT/OFFSET"),
    "Slice": (lambda s: False, "LIMIT/OFFSET is the last clause; slices compose"),
}


class Placement:
    def __init__(self, kind: str, path: Path, detail: dict):
        self.kind, self.path, self.detail = kind, path, detail

    def __repr__(self) -> str:
        d = ",".join(f"{k}={v}" for k, v in self.detail.items() if v is not None)
        return f"{self.kind}({d})" if d else self.kind


def classify_return(p: Path, op: str, sel: str) -> Placement:
    v = p.value
    if isinstance(v, ast.Name):
        if v.id == sel:
            return Placement("NOOP", p, {})
        b = resolve_name(p, v.id)
        if isinstance(b, ast.expr):
            v = b
    if not isinstance(v, ast.Call):
        raise AnalysisError(f"_append_unary_to_select returns `{src(p.value)[:60]}`: placement not recognised")
    name = dotted(v.func) or ""
    attr = call_attr(v)
    if attr == "append_binary":
        return Placement("JOIN", p, {})
    if attr == "_append_unary_to_select" and isinstance(v.func, ast.Attribute) and src(v.func.value) == "self" and len(v.args) == 2 and src(v.args[1]) != sel:
        return Placement("FORWARD", p, {"to": src(v.args[1])[:40]})
    if attr == "reapply_skip" and isinstance(v.func, ast.Attribute) and src(v.func.value) == sel:
        kws = {k.arg: k.value for k in v.keywords if k.arg}
        if "skip_to" in kws:
            return Placement("PUSH_INTO_CHAIN", p, {"projection": src(kws.get("projection")), "skip_to": src(kws["skip_to"])[:60]})
        if "after" in kws:
            return Placement("INNER", p, {"after": src(kws["after"]), "projection": src(kws["projection"]) if "projection" in kws else None})
        slots = {k: src(x) for k, x in kws.items()}
        if len(slots) >= 1:
            return Placement("SLOT", p, slots)
        return Placement("NOOP", p, {})
    if attr == "apply_skip":
        a0 = v.args[0] if v.args else kw(v, "skip_to")
        kws = {k.arg: src(k.value) for k in v.keywords if k.arg and k.arg != "skip_to"}
        if a0 is None:
            raise AnalysisError("apply_skip without a skip target")
        if src(a0) == sel:
            return Placement("NEST", p, kws)
        if isinstance(a0, ast.Call) and call_attr(a0) == "_finish_apply" and a0.args and src(a0.args[0]) == sel:
            return Placement("NEST", p, {"inner": src(a0.func.value) if isinstance(a0.func, ast.Attribute) else "?"})
        b = resolve_name(p, a0.id) if isinstance(a0, ast.Name) else a0
        if isinstance(b, ast.Call) and call_attr(b) == "reapply_skip" and isinstance(b.func, ast.Attribute) and src(b.func.value) == sel:
            inner = {k.arg: src(k.value) for k in b.keywords if k.arg}
            return Placement("NEST_HOIST", p, {"subquery": inner, **kws})
        # a subquery rebuilt from the skip target with some of the Select's slots: every slot not passed on is dropped
        if isinstance(b, ast.Call) and call_attr(b) == "apply_skip" and (b.args or kw(b, "skip_to") is not None):
            b0 = b.args[0] if b.args else kw(b, "skip_to")
            if src(b0) == f"{sel}.skip_to":
                given = {k.arg: src(k.value) for k in b.keywords if k.arg and k.arg != "skip_to"}
                inner = {slot: given.get(slot, "None") for slot in ("sort", "projection", "deduplication", "slice")}
                inner = {slot: v for slot, v in inner.items() if v != f"{sel}.{slot}"}
                return Placement("NEST_HOIST", p, {"subquery": inner, **kws})
        # the operation applied to a re-slotted copy of the Select, nested under a new one
        if isinstance(b, ast.Call) and call_attr(b) == "_finish_apply" and b.args:
            x = b.args[0]
            xb = resolve_name(p, x.id) if isinstance(x, ast.Name) else x
            if isinstance(xb, ast.Call) and call_attr(xb) == "reapply_skip" and isinstance(xb.func, ast.Attribute) and src(xb.func.value) == sel:
                inner = {k.arg: src(k.value) for k in xb.keywords if k.arg}
                return Placement("NEST_HOIST", p, {"subquery": inner, "inner": src(b.func.value) if isinstance(b.func, ast.Attribute) else "?", **kws})
    raise AnalysisError(f"_append_unary_to_select returns `{src(v)[:80]}`: placement not recognised")


def placements(ctx: Ctx):
    """Yield (op class, state dict, [Placement], [raising paths]) for all 8 x 32 cells."""
    m, k = ctx.m, ctx.k
    f = m.func(SQL_ENGINE, "Engine._append_unary_to_select")
    ps = [p for p in f.params if p != "self"]
    op, sel = ps[0], ps[1]
    ev = ctx.ev(f)
    paths = ctx.paths(f)
    chain_patterns = set()
    for n in ast.walk(f.node):
        if isinstance(n, ast.Match) and src(n.subject) == f"{sel}.skip_to":
            for case in n.cases:
                if "Chain" in src(case.pattern):
                    chain_patterns.add(src(case.pattern))
    for c in k.concrete(k.unary_ops):
        for bits in itertools.product((False, True), repeat=len(FLAGS)):
            state = dict(zip(FLAGS, bits))
            overrides: dict[str, object] = {f"{sel}.{fl}": ConstVal(v) for fl, v in state.items()}
            for pat in chain_patterns:
                overrides[f"{sel}.skip_to ~ {pat}"] = ConstVal(state["is_compound"])
            st0 = AbsState({op: cls_val(c)}, overrides)
            outs: list[Placement] = []
            raises: list[Path] = []
            for p in paths:
                ok, _ = feasible(p, st0, ev)
                if not ok:
                    continue
                if p.outcome == "raise":
                    raises.append(p)
                elif p.outcome == "return":
                    outs.append(classify_return(p, op, sel))
                else:
                    raise AnalysisError(f"{f.key}: a path falls off the end")
            yield f, c, state, outs, raises


def _state_label(state: dict) -> str:
    on = [SHORT[k] for k in FLAGS if state[k]]
    return "+".join(on) if on else "plain"


def r02_1_placement_table(ctx: Ctx, rule: str = "R02.1") -> None:
    run = ctx.run
    run.rule(
        rule,
        "Select placement table: for every operation class and every Select state (sort, projection, deduplication, slice, "
        "compound) a new operation shares the existing SELECT only if it commutes with every occupied later clause; "
        "slices and sorts compose as <existing>.then(<new>); a calculation under a projection widens it",
        expected_min=200,
    )
    f0 = None
    for f, c, state, outs, raises in placements(ctx):
        f0 = f
        inst = f"{c.name}@{_state_label(state)}"
        ps = [p for p in f.params if p != "self"]
        op, sel = ps[0], ps[1]
        if c.name in ("PartialJoin", "Identity"):
            want = "JOIN" if c.name == "PartialJoin" else "NOOP"
            bad = [o for o in outs if o.kind != want]
            if bad or not outs:
                run.fail(rule, inst, f"{c.name} placed as {outs}: expected {want}", fi=f, node=(bad[0].path.node if bad else f.node))
            else:
                run.ok(rule, inst)
            continue
        if c.name not in MUST_NEST:
            raise AnalysisError(f"operation class {c.name} has no row in the Select placement reference")
        pred, reason = MUST_NEST[c.name]
        if not outs and not raises:
            raise AnalysisError(f"no feasible placement for {inst}")
        problem = None
        bad_o: Placement | None = None
        for o in outs:
            if pred(state) and o.kind in ("SLOT", "INNER", "NOOP", "PUSH_INTO_CHAIN"):
                problem = f"{c.name} is placed in the existing SELECT ({o!r}) although the Select has {_state_label(state)}: {reason}"
                bad_o = o
                break
            if o.kind == "INNER" and state["is_compound"]:
                problem = f"{c.name} is inserted below a compound (UNION) Select ({o!r}): the SQL compiler cannot descend through it"
                bad_o = o
                break
            if c.name == "Slice":
                ok = o.kind == "SLOT" and o.detail.get("slice") == f"{sel}.slice.then({op})"
                if not ok:
                    problem = f"a Slice must compose with the existing one as {sel}.slice.then({op}) in the same SELECT; got {o!r}"
                    bad_o = o
                    break
            if c.name == "Sort":
                if o.kind == "SLOT" and o.detail.get("sort") != f"{sel}.sort.then({op})":
                    problem = f"a Sort merged into the SELECT must be {sel}.sort.then({op}); got {o!r}"
                    bad_o = o
                    break
                if o.kind == "NEST" and o.detail.get("sort") != op:
                    problem = f"a Sort nested over a sliced SELECT must be the outer Select's sort; got {o!r}"
                    bad_o = o
                    break
                if o.kind not in ("SLOT", "NEST"):
                    problem = f"unexpected placement of a Sort: {o!r}"
                    bad_o = o
                    break
            if c.name == "Calculation" and o.kind == "INNER":
                if state["has_projection"]:
                    pr = o.detail.get("projection") or ""
                    if "tag" not in pr or f"{sel}.columns" not in pr:
                        problem = f"a Calculation absorbed under an existing projection must widen it by its tag; got {o!r}"
                        bad_o = o
                        break
                elif o.detail.get("projection") not in (None, "None"):
                    pass
            if c.name == "Deduplication":
                if o.kind == "NOOP" and not state["has_deduplication"]:
                    problem = "a Deduplication is dropped although the Select has none"
                    bad_o = o
                    break
                if o.kind == "SLOT" and o.detail.get("deduplication") != op:
                    problem = f"unexpected Deduplication placement {o!r}"
                    bad_o = o
                    break
                if o.kind == "NEST" and o.detail.get("deduplication") != op:
                    problem = f"a Deduplication nested over a sliced SELECT must be the outer Select's deduplication; got {o!r}"
                    bad_o = o
                    break
            if c.name == "Projection":
                if o.kind == "SLOT" and o.detail.get("projection") != op:
                    problem = f"unexpected Projection placement {o!r}"
                    bad_o = o
                    break
                if o.kind == "NEST_HOIST":
                    sub = o.detail.get("subquery", {})
                    if sub.get("sort") != "None" or sub.get("slice") != "None" or o.detail.get("sort") != f"{sel}.sort" or o.detail.get("slice") != f"{sel}.slice" or o.detail.get("projection") != op:
                        problem = f"a Projection over a DISTINCT Select must nest it without sort/slice and re-attach both outside; got {o!r}"
                        bad_o = o
                        break
                if o.kind == "PUSH_INTO_CHAIN":
                    if not state["is_compound"]:
                        problem = "projection pushed into a chain although the Select is not compound"
                        bad_o = o
                        break
                    if o.detail.get("projection") != "None" or f"{op}.apply(" not in o.detail.get("skip_to", ""):
                        problem = f"a Projection pushed into a UNION must be applied to both operands and cleared from the Select; got {o!r}"
                        bad_o = o
                        break
            if c.name == "Selection" and o.kind == "INNER" and o.detail.get("after") != op:
                problem = f"unexpected Selection placement {o!r}"
                bad_o = o
                break
        if problem:
            run.fail(rule, inst, problem, fi=f, node=bad_o.path.node if bad_o else f.node, details=describe(bad_o.path) if bad_o else [], facts={"state": state, "outcomes": [repr(o) for o in outs]})
        else:
            run.ok(rule, inst, {"state": state, "outcomes": [repr(o) for o in outs], "raises": len(raises)})
    del f0


def r08_3_order_by_scope(ctx: Ctx, rule: str = "R08.3") -> None:
    run = ctx.run
    run.rule(
        rule,
        "ORDER BY scope: whenever a retained sort ends up over a smaller column set than the one it was validated on "
        "(projection pushed into a UNION's operands; Select nested as a subquery with the sort hoisted outside) the path "
        "establishes sort.columns_required <= the new scope, or refuses with RelationalAlgebraError",
        expected_min=2,
    )
    seen = 0
    agg: dict[str, dict] = {}
    for f, c, state, outs, raises in placements(ctx):
        if not state["has_sort"]:
            continue
        ps = [p for p in f.params if p != "self"]
        op, sel = ps[0], ps[1]
        for o in outs:
            repeated = o.kind == "NEST" and o.detail.get("sort") == f"{sel}.sort"  # the sort is repeated on the outer query
            if o.kind not in ("NEST_HOIST", "PUSH_INTO_CHAIN") and not repeated:
                continue
            seen += 1
            inst = f"{c.name}:{o.kind}"
            scope = (f"{sel}.columns",) if o.kind in ("NEST_HOIST", "NEST") else (f"{op}.columns", f"{op}.columns_required")
            req = Required(
                "sort-columns-in-scope",
                "LE",
                (f"{sel}.sort.columns_required",),
                scope,
                True,
                vacuous=(f"not TRUTH({sel}.is_compound)", f"not TRUTH({sel}.has_sort)"),
            )
            a = agg.setdefault(inst, {"ok": [], "bad": [], "f": f, "scope": scope, "sel": sel})
            (a["ok"] if has_required(path_facts(o.path), req, f) else a["bad"]).append((_state_label(state), o))
    for inst, a in sorted(agg.items()):
        f, scope, sel = a["f"], a["scope"], a["sel"]
        if not a["bad"]:
            run.ok(rule, inst, {"states": [s for s, _ in a["ok"]], "placement": repr(a["ok"][0][1])})
        else:
            o = a["bad"][0][1]
            run.fail(
                rule,
                inst,
                f"{o!r}: the retained sort is evaluated over {' / '.join(scope)} but the path never establishes "
                f"{sel}.sort.columns_required <= that set; a sort on a column dropped by the projection is accepted here and "
                f"fails with KeyError when the SQL is generated (Select states: {', '.join(s for s, _ in a['bad'])})",
                fi=f,
                node=o.path.node,
                details=describe(o.path),
            )
    if seen == 0:
        raise AnalysisError("no placement keeps a sort over a reduced column set: the placement logic changed shape")


def r_refusals_only_where_needed(ctx: Ctx, rule: str) -> None:
    """Appending a unary operation to a Select may be refused only where keeping the row order is impossible."""
    run = ctx.run
    run.rule(
        rule,
        "_append_unary_to_select raises only in the cells where the sort of the Select would have to move to an outer query "
        "that cannot see its columns: a Projection over a sorted Select that must be nested (DISTINCT upstream, or a UNION "
        "whose sort needs a dropped column).  Everywhere else an individually valid operation is accepted (merged, slotted or "
        "nested), never rejected",
        expected_min=200,
    )
    for f, c, state, outs, raises in placements(ctx):
        inst = f"{c.name}@{_state_label(state)}"
        allowed = c.name == "Projection" and state["has_sort"] and (state["has_deduplication"] or state["is_compound"])
        # (a Deduplication that has to nest a sorted, sliced Select is in the same position: see known finding D20)
        allowed = allowed or (c.name == "Deduplication" and state["has_sort"] and state["has_slice"] and not state["has_deduplication"])
        if not state["has_sort"]:
            # without a sort `sort.columns_required` is empty and a test `not sort.columns_required <= X` cannot come out true
            sel = [q for q in f.params if q != "self"][1]
            raises = [p for p in raises if not any(fct.kind == "LE" and not fct.polarity and fct.args[0] == f"{sel}.sort.columns_required" for fct in path_facts(p))]
        if raises and not allowed:
            p = raises[0]
            run.fail(
                rule,
                inst,
                f"a {c.name} applied to a Select with {_state_label(state)} can be refused (`{src(p.node.exc)[:60] if isinstance(p.node, ast.Raise) and p.node.exc is not None else 'raise'}`): "
                "nothing forces this Select into a subquery, so the operation - valid on its own - must be accepted",
                fi=f,
                node=p.node,
                details=describe(p),
                facts={"state": state},
            )
        else:
            run.ok(rule, inst, {"refusals": len(raises)})


def r_order_survives(ctx: Ctx, rule: str) -> None:
    """A sort followed only by slices, projections and deduplications must still order the outermost query."""
    run = ctx.run
    run.rule(
        rule,
        "order survives order-preserving operations: a Projection, Deduplication or Slice applied to a Select that has a "
        "sort leaves that sort on the outermost query level (same SELECT, or nested with the sort repeated/hoisted outside) "
        "or is refused; an ORDER BY left only in a subquery does not order the rows the database returns",
        expected_min=40,
    )
    for f, c, state, outs, raises in placements(ctx):
        if c.name not in ("Projection", "Deduplication", "Slice") or not state["has_sort"]:
            continue
        ps = [p for p in f.params if p != "self"]
        op, sel = ps[0], ps[1]
        inst = f"{c.name}@{_state_label(state)}"
        problem = None
        bad_o = None
        for o in outs:
            if o.kind in ("NOOP", "PUSH_INTO_CHAIN", "INNER"):
                continue
            if o.kind == "SLOT":
                if "sort" in o.detail and o.detail["sort"] not in (f"{sel}.sort",):
                    problem, bad_o = f"{o!r} replaces the Select's sort", o
                continue
            if o.kind == "NEST_HOIST":
                if o.detail.get("sort") != f"{sel}.sort":
                    problem, bad_o = f"{o!r}: the sort is removed from the subquery but not re-attached outside", o
                continue
            if o.kind == "NEST":
                if o.detail.get("sort") != f"{sel}.sort":
                    problem, bad_o = (
                        f"{o!r}: the sorted Select becomes a subquery and the new outer query has no ORDER BY - `sort, slice, {c.name.lower()}` "
                        "is returned by the database in no particular order (and a later slice cuts an unordered result)",
                        o,
                    )
                continue
            problem, bad_o = f"unexpected placement {o!r}", o
        if problem:
            run.fail(rule, inst, problem, fi=f, node=bad_o.path.node, details=describe(bad_o.path), facts={"state": state})
        else:
            run.ok(rule, inst, {"outcomes": [repr(o) for o in outs], "refusals": len(raises)})


def r_slice_keeps_its_sort(ctx: Ctx, rule: str) -> None:
    """A LIMIT/OFFSET cuts the rows in the order of *its own* query level."""
    run = ctx.run
    run.rule(
        rule,
        "a slice stays with the sort it cuts: whatever operation is applied to a Select that has a sort and a slice, a "
        "placement that takes the sort out of that Select (to re-attach it to a new outer query) takes the slice along - "
        "an inner query left with LIMIT/OFFSET but no ORDER BY returns an arbitrary window",
        expected_min=8,
    )
    for f, c, state, outs, raises in placements(ctx):
        if not (state["has_sort"] and state["has_slice"]):
            continue
        inst = f"{c.name}@{_state_label(state)}"
        bad = None
        for o in outs:
            if o.kind != "NEST_HOIST":
                continue
            sub = o.detail.get("subquery", {})
            sort_removed = "sort" in sub and sub["sort"] in ("None", "Sort()")
            slice_removed = "slice" in sub and sub["slice"] in ("None", "Slice()")
            if sort_removed and not slice_removed:
                bad = o
        if bad is not None:
            run.fail(
                rule,
                inst,
                f"{bad!r}: the subquery keeps its LIMIT/OFFSET but loses the ORDER BY that decides which rows they select; `sort, slice, {c.name.lower()}` then returns rows from an arbitrary window of the target",
                fi=f,
                node=bad.path.node,
                details=describe(bad.path),
                facts={"state": state},
            )
        else:
            run.ok(rule, inst, {"outcomes": [repr(o) for o in outs]})


def r_subquery_keeps_its_slots(ctx: Ctx, rule: str) -> None:
    """What a Select already holds stays in the subquery it becomes (or is re-attached outside, for sort and slice)."""
    run = ctx.run
    run.rule(
        rule,
        "when a Select is nested as a subquery under a new one, every slot it holds goes with it: a projection under a "
        "DISTINCT stays inside (DISTINCT over other columns keeps other rows), a deduplication stays inside, and a Select "
        "is never unwrapped by forwarding the operation to the Select it wraps (the wrapper is what lets a sliced or "
        "sorted query stand inside a UNION or a join)",
        expected_min=8,
    )
    for f, c, state, outs, raises in placements(ctx):
        inst = f"{c.name}@{_state_label(state)}"
        bad, why = None, ""
        for o in outs:
            if o.kind == "FORWARD":
                bad, why = o, f"the operation is forwarded to `{o.detail.get('to')}` and the Select around it is dropped: where that Select was a UNION operand or join operand wrapper, the inner LIMIT / ORDER BY now stands directly in the compound statement, which the database rejects"
            elif o.kind == "NEST_HOIST":
                sub = o.detail.get("subquery", {})
                if state["has_projection"] and state["has_deduplication"] and sub.get("projection") in ("None",):
                    bad, why = o, "the subquery keeps the DISTINCT but loses the projection it was taken over: duplicates are now judged on all columns of the skip target, so rows that the original relation merged come back"
                elif state["has_deduplication"] and sub.get("deduplication") in ("None",) and o.detail.get("deduplication") in (None, "None"):
                    bad, why = o, "the Select's deduplication is dropped on the way into the subquery and not re-applied outside"
        if bad is not None:
            run.fail(rule, inst, f"{bad!r}: {why}", fi=f, node=bad.path.node, details=describe(bad.path), facts={"state": state})
        else:
            run.ok(rule, inst)


def r08_2_compound_guard(ctx: Ctx, rule: str = "R08.2") -> None:
    run, m = ctx.run, ctx.m
    run.rule(
        rule,
        "compound guard: a compound (UNION) skip target is never placed beneath a node the SQL compiler descends through: "
        "Select.strip() hands out skip_to only when not is_compound (reapply_skip(after=...) is covered by the placement table)",
        expected_min=2,
    )
    strip = m.func(SQL_SELECT, "Select.strip")
    for i, p in enumerate(ctx.paths(strip)):
        if p.outcome != "return":
            continue
        v = p.value
        first = v.elts[0] if isinstance(v, ast.Tuple) and v.elts else v
        inst = f"Select.strip:path{i}"
        if src(first) == "self.skip_to":
            facts = path_facts(p)
            need = [("self.is_compound", False), ("self.has_deduplication", False), ("self.has_sort", False), ("self.has_slice", False)]
            missing = [t for t, pol in need if not has_fact(facts, "TRUTH", (t,), pol)]
            if not missing:
                second = v.elts[1] if isinstance(v, ast.Tuple) and len(v.elts) > 1 else None
                if second is not None and src(second) == "self.has_projection":
                    run.ok(rule, inst, {"path": p.describe()})
                else:
                    run.fail(rule, inst, f"strip() reports `{src(second)}` instead of whether a projection was removed", fi=strip, node=p.node)
            elif missing == ["self.is_compound"]:
                run.fail(
                    rule,
                    inst,
                    "Select.strip() hands out the skip target of a compound (UNION) Select: a join operand that is a chain is "
                    "accepted at construction and then fails in to_payload with NotImplementedError",
                    fi=strip,
                    node=p.node,
                    details=describe(p),
                )
            else:
                run.fail(rule, inst, f"Select.strip() removes the Select although {missing} was not excluded: its clause would be lost", fi=strip, node=p.node, details=describe(p))
        elif src(first) == "self":
            second = v.elts[1] if isinstance(v, ast.Tuple) and len(v.elts) > 1 else None
            if isinstance(second, ast.Constant) and second.value is False:
                run.ok(rule, inst)
            else:
                run.fail(rule, inst, "strip() keeps the Select but reports a removed projection", fi=strip, node=p.node)
        else:
            run.fail(rule, inst, f"strip() returns `{src(first)}`", fi=strip, node=p.node)


def r11_1_order_loss_guards(ctx: Ctx, rule: str = "R11.1") -> None:
    run, m = ctx.run, ctx.m
    run.rule(
        rule,
        "order-loss guards: a conformed operand with a sort and no slice is refused (RelationalAlgebraError) on every path "
        "before it is nested under a join, chain or materialization",
        expected_min=3,
    )
    f = m.func(SQL_ENGINE, "Engine._append_binary_to_select")
    ps = [p for p in f.params if p != "self"]
    reqs = [
        Required(f"{x}-sort-needs-slice", "TRUTH", (f"{x}.has_slice",), (), True, "RelationalAlgebraError", vacuous=(f"not TRUTH({x}.has_sort)",),
                 reason="a sort buried in a subquery is dropped by the database")
        for x in ps[1:3]
    ]
    check_required(ctx, rule, f, reqs, lambda p: p.outcome == "return", "return")
    mat = m.func(SQL_ENGINE, "Engine.materialize")
    name = None
    for n in ast.walk(mat.node):
        if isinstance(n, ast.Assign) and isinstance(n.value, ast.Call) and call_attr(n.value) == "conform" and isinstance(n.targets[0], ast.Name):
            name = n.targets[0].id
    if name is None:
        raise AnalysisError("sql Engine.materialize no longer conforms its target into a local")
    check_required(
        ctx,
        rule,
        mat,
        [Required("materialize-sort-needs-slice", "TRUTH", (f"{name}.has_slice",), (), True, "RelationalAlgebraError", vacuous=(f"not TRUTH({name}.has_sort)",),
                  reason="materializing an ordered relation without a slice loses the order")],
        lambda p: p.outcome == "return",
        "return",
    )
    # what is materialized is the conformed (checked) target
    ok = any(call_attr(c) == "materialize" and (dotted(c.func) or "").startswith("super()") and c.args and src(c.args[0]) == name for c in iter_calls(mat.node))
    if ok:
        run.ok(rule, "materialize:checked-target")
    else:
        run.fail(rule, "materialize:checked-target", "the relation handed to the base materialize is not the conformed target the guard inspected", fi=mat)


def r11_3_emission(ctx: Ctx, rule: str = "R11.3") -> None:
    run, m = ctx.run, ctx.m
    run.rule(
        rule,
        "emission: whenever the Select has a sort, ORDER BY is applied with every term through convert_sort_term (which "
        "honours `ascending`), before OFFSET and LIMIT, on both the compound and the plain branch; OFFSET/LIMIT use the "
        "slice's start and limit",
        expected_min=6,
    )
    f = m.func(SQL_ENGINE, "Engine._select_to_executable")
    sel = [p for p in f.params if p != "self"][0]
    n_sorted = 0
    bad_reported = set()
    for i, p in enumerate(ctx.paths(f)):
        if p.outcome != "return":
            continue
        facts = path_facts(p)
        calls = [(j, c) for j, c in path_calls(p)]
        order = [(j, c) for j, c in calls if call_attr(c) == "order_by"]
        offs = [(j, c) for j, c in calls if call_attr(c) == "offset"]
        lims = [(j, c) for j, c in calls if call_attr(c) == "limit"]
        compound = any(s.kind == "case" and s.value and "Chain" in src(s.node.pattern) for s in p.steps)  # type: ignore[union-attr]
        branch = "compound" if compound else "plain"
        problem = None
        if has_fact(facts, "TRUTH", (f"{sel}.has_sort",), True):
            n_sorted += 1
            if len(order) != 1:
                problem = f"the Select has a sort but order_by is applied {len(order)} time(s)"
            else:
                c = order[0][1]
                txt = src(c)
                comps = [n for n in ast.walk(c) if isinstance(n, (ast.ListComp, ast.GeneratorExp))]
                for a in c.args:
                    a2 = a.value if isinstance(a, ast.Starred) else a
                    if isinstance(a2, ast.Name):
                        b = resolve_name(p, a2.id, order[0][0])
                        if isinstance(b, ast.expr):
                            comps += [n for n in ast.walk(b) if isinstance(n, (ast.ListComp, ast.GeneratorExp))]
                full = any(
                    src(n.generators[0].iter) == f"{sel}.sort.terms" and not n.generators[0].ifs
                    and isinstance(n.elt, ast.Call) and call_attr(n.elt) == "convert_sort_term" and n.elt.args and src(n.elt.args[0]) == src(n.generators[0].target)
                    for n in comps
                )
                if not full:
                    problem = "ORDER BY is not built from every term of select.sort.terms through convert_sort_term"
                if any(j < order[0][0] for j, _ in offs + lims):
                    problem = problem or "OFFSET/LIMIT is applied before ORDER BY"
        elif has_fact(facts, "TRUTH", (f"{sel}.has_sort",), False) and order:
            problem = "order_by is applied although the Select has no sort"
        elif not order and not has_fact(facts, "TRUTH", (f"{sel}.has_sort",), False):
            problem = (
                f"no ORDER BY is emitted on a path that has not established that the Select has no sort (only `not {sel}.has_sort` may skip it): "
                "row bounds, slices or column sets say nothing about whether the order matters - a one-row window of a sorted relation is decided by the order"
            )
        if has_fact(facts, "TRUTH", (f"{sel}.slice.start",), True):
            if len(offs) != 1 or src(offs[0][1].args[0] if offs[0][1].args else None) != f"{sel}.slice.start":
                problem = problem or "OFFSET is not select.slice.start"
        elif offs:
            problem = problem or "OFFSET applied although slice.start is zero"
        if has_fact(facts, "IS", tuple(sorted(("None", f"{sel}.slice.limit"))), False):
            if len(lims) != 1 or src(lims[0][1].args[0] if lims[0][1].args else None) != f"{sel}.slice.limit":
                problem = problem or "LIMIT is not select.slice.limit"
        elif lims:
            problem = problem or "LIMIT applied although the slice has none"
        if offs and lims and offs[0][0] > lims[0][0]:
            pass  # sqlalchemy's generative API is order-insensitive for offset/limit
        # the result of each generative call must be kept
        rv = p.value
        inst = f"{branch}:{'sort' if order else 'nosort'}:{'offset' if offs else ''}{'limit' if lims else ''}"
        if problem:
            if (inst, problem) not in bad_reported:
                bad_reported.add((inst, problem))
                run.fail(rule, inst, problem, fi=f, node=p.node, details=describe(p, 16))
        else:
            run.ok(rule, inst)
        del rv
    if n_sorted == 0:
        raise AnalysisError("_select_to_executable has no path for a Select with a sort")
    # generative calls must be re-assigned (a dropped result silently loses the clause)
    for n in ast.walk(f.node):
        if isinstance(n, ast.Expr) and isinstance(n.value, ast.Call) and call_attr(n.value) in ("order_by", "offset", "limit", "where", "distinct"):
            run.fail(rule, f"dropped:{call_attr(n.value)}", f"the result of `{src(n.value)[:50]}` is discarded (sqlalchemy selects are immutable)", fi=f, node=n)
    cst = m.func(SQL_ENGINE, "Engine.convert_sort_term")
    term = [p for p in cst.params if p != "self"][0]
    asc = [p for p in ctx.paths(cst) if has_fact(path_facts(p), "TRUTH", (f"{term}.ascending",), True)]
    desc = [p for p in ctx.paths(cst) if has_fact(path_facts(p), "TRUTH", (f"{term}.ascending",), False)]
    ok = bool(asc) and bool(desc) and all(".desc()" not in src(p.value) for p in asc) and all(src(p.value).endswith(".desc()") for p in desc)
    ok = ok and any(call_attr(c) == "convert_column_expression" and c.args and src(c.args[0]) == f"{term}.expression" for c in iter_calls(cst.node))
    if ok:
        run.ok(rule, "convert_sort_term:ascending")
    else:
        run.fail(rule, "convert_sort_term:ascending", "convert_sort_term does not translate term.expression ascending / .desc() according to term.ascending", fi=cst)


def r_sort_mapping(ctx: Ctx, rule: str) -> None:
    """ORDER BY terms are converted against every column of the Select's skip target, not only the projected ones."""
    run, m = ctx.run, ctx.m
    run.rule(
        rule,
        "ORDER BY terms are converted with the mapping of ALL columns available below the Select (the payload's "
        "columns_available on the plain branch, the skip target's columns extracted from the compound on the union "
        "branch): the sort slot is applied before the projection slot, so a term may use a column the SELECT list drops",
        expected_min=2,
    )
    f = m.func(SQL_ENGINE, "Engine._select_to_executable")
    sel = [p for p in f.params if p != "self"][0]
    seen = 0
    reported: set[str] = set()
    for i, p in enumerate(ctx.paths(f)):
        if p.outcome != "return":
            continue
        for j, c in path_calls(p):
            if call_attr(c) != "convert_sort_term" or len(c.args) < 2:
                continue
            seen += 1
            compound = any(s.kind == "case" and s.value and "Chain" in src(s.node.pattern) for s in p.steps)  # type: ignore[union-attr]
            a = c.args[1]
            b = resolve_name(p, a.id, j) if isinstance(a, ast.Name) else a
            while isinstance(b, ast.Name):
                nb = resolve_name(p, b.id, j)
                if nb is None or (isinstance(nb, ast.Name) and nb.id == b.id):
                    break
                b = nb
            ok = False
            what = src(b) if isinstance(b, ast.AST) else repr(b)
            if isinstance(b, ast.Attribute) and b.attr == "columns_available":
                pv = b.value
                pb = resolve_name(p, pv.id, j) if isinstance(pv, ast.Name) else pv
                from ..flow import denotes

                ok = not compound and (
                    (isinstance(pb, ast.AST) and not isinstance(pb, ast.Call) and denotes(p, pb, sel, ("skip_to", "payload"), j))
                    or (isinstance(pb, ast.Call) and call_attr(pb) == "to_payload" and bool(pb.args) and denotes(p, pb.args[0], sel, ("skip_to",), j))
                )
            elif isinstance(b, ast.Call) and call_attr(b) == "extract_mapping" and len(b.args) >= 2:
                from ..flow import denotes

                ok = denotes(p, b.args[0], sel, ("skip_to", "columns"), j)
            branch = "compound" if compound else "plain"
            inst = f"{branch}:sort-mapping"
            if ok:
                run.ok(rule, inst, {"mapping": what[:80]})
            elif inst not in reported:
                reported.add(inst)
                run.fail(
                    rule,
                    inst,
                    f"sort terms are converted against `{what[:80]}`, which is not the full column mapping of {sel}.skip_to: a Select that sorts on a "
                    "column its projection drops is accepted by the factories but fails with a missing-column lookup at conversion",
                    fi=f,
                    node=c,
                    details=describe(p, 14),
                )
    if seen == 0:
        raise AnalysisError("_select_to_executable never converts a sort term")


def r_inner_calculation_name(ctx: Ctx, rule: str) -> None:
    """A calculation may be slipped in *below* a Select's slots only if its tag does not shadow a hidden column."""
    run, m = ctx.run, ctx.m
    run.rule(
        rule,
        "a Calculation is placed inside an existing Select (below its sort/projection/... slots) only on paths that have "
        "established that its tag is not a column of the Select's skip target - or that the Select has no projection, so "
        "nothing is hidden: a column hidden by the projection may still be used by the Select's sort, and a new column of "
        "the same name would capture that reference",
        expected_min=2,
    )
    from ..flow import case_index, field_access

    f = m.func(SQL_ENGINE, "Engine._append_unary_to_select")
    ps = [p for p in f.params if p != "self"]
    opn, sel = ps[0], ps[1]
    n = 0
    for i, p in enumerate(ctx.paths(f)):
        if p.outcome != "return" or case_index(p, "Calculation", opn) < 0:
            continue
        pl = classify_return(p, "Calculation", sel)
        if pl.kind != "INNER":
            continue
        n += 1
        facts = path_facts(p)
        inst = f"Calculation:INNER:path{i}"
        no_projection = has_fact(facts, "TRUTH", (f"{sel}.has_projection",), False) or has_fact(facts, "IS", tuple(sorted(("None", f"{sel}.projection"))), True)
        fresh = False
        for fct in facts:
            if fct.kind == "IN" and not fct.polarity and fct.args[1] in (f"{sel}.skip_to.columns",):
                try:
                    e = ast.parse(fct.args[0], mode="eval").body
                except SyntaxError:
                    continue
                fa = field_access(p, e)
                if fa is not None and fa[0] == opn and fa[1] == ("tag",):
                    fresh = True
        if fresh or no_projection:
            run.ok(rule, inst, {"why": "tag not in skip target" if fresh else "no projection: nothing hidden"})
        else:
            run.fail(
                rule,
                inst,
                f"the calculation is inserted below the Select's slots (`{src(p.value)[:60]}`) without `{opn}.tag not in {sel}.skip_to.columns`: "
                "if the Select's projection hides a column of that name, its ORDER BY now refers to the new expression",
                fi=f,
                node=p.node,
                details=describe(p),
            )
    if n == 0:
        raise AnalysisError("_append_unary_to_select never places a Calculation inside an existing Select")
