"""Definite assignment: no local is read on a path that has not bound it.

A structured forward dataflow over the statements of every function of the package (no paths are enumerated, so it is
linear in the size of the function): the state is the set of names that are bound on *every* way of reaching a
statement.  A read of a local outside that set is an UnboundLocalError waiting for the inputs that take the path - in
this code base that is almost always an error path (a message tuple built only under one flag, a result bound only in
some arms), where it replaces the documented exception by an UnboundLocalError.

Branches that cannot fall through (return / raise / continue / break, `assert False`, a call to a NoReturn helper is not
assumed) do not constrain the join.  Loop bodies may run zero times.  `match` falls through with the state before it
unless one arm is irrefutable.  `try`: handlers start from the state before the try; `finally` likewise.
"""

from __future__ import annotations

import ast

from ..astutil import pattern_captures, src, target_names
from ..props.common import Ctx

BUILTINS = set(dir(__import__("builtins")))


def _locals_of(fn: ast.FunctionDef | ast.AsyncFunctionDef) -> tuple[set[str], set[str]]:
    """(names bound somewhere in the function's own scope, parameters)."""
    params = {a.arg for a in fn.args.posonlyargs + fn.args.args + fn.args.kwonlyargs}
    if fn.args.vararg:
        params.add(fn.args.vararg.arg)
    if fn.args.kwarg:
        params.add(fn.args.kwarg.arg)
    bound: set[str] = set()
    outer: set[str] = set()

    def visit(n: ast.AST, comp: bool = False) -> None:
        for c in ast.iter_child_nodes(n):
            if isinstance(c, (ast.FunctionDef, ast.AsyncFunctionDef, ast.ClassDef)):
                bound.add(c.name)
                continue
            if isinstance(c, ast.Lambda):
                continue
            if isinstance(c, (ast.ListComp, ast.SetComp, ast.DictComp, ast.GeneratorExp)):
                # comprehension targets live in their own scope; walrus targets inside bind in ours
                for w in ast.walk(c):
                    if isinstance(w, ast.NamedExpr):
                        bound.update(target_names(w.target))
                continue
            if isinstance(c, (ast.Global, ast.Nonlocal)):
                outer.update(c.names)
            if isinstance(c, ast.Name) and isinstance(c.ctx, (ast.Store, ast.Del)):
                bound.add(c.id)
            if isinstance(c, (ast.Import, ast.ImportFrom)):
                for a in c.names:
                    bound.add((a.asname or a.name).split(".")[0])
            if isinstance(c, ast.ExceptHandler) and c.name:
                bound.add(c.name)
            if isinstance(c, ast.match_case):
                bound.update(pattern_captures(c.pattern))
            if isinstance(c, (ast.MatchAs, ast.MatchStar)) and c.name:
                bound.add(c.name)
            if isinstance(c, ast.MatchMapping) and c.rest:
                bound.add(c.rest)
            visit(c)

    visit(fn)
    return (bound | params) - outer, params


class _Flow:
    def __init__(self, fn, local_names: set[str]):
        self.fn = fn
        self.locals = local_names
        self.problems: list[tuple[ast.Name, str]] = []
        self.reads = 0

    # -- expressions --------------------------------------------------------------------------------------------
    def expr(self, e: ast.AST | None, st: set[str]) -> set[str]:
        """Check reads in `e` against `st`; returns st plus walrus bindings made by `e` (evaluation order respected
        for BoolOp/IfExp: what the right operand binds is not definite)."""
        if e is None:
            return st
        if isinstance(e, ast.Name):
            if isinstance(e.ctx, ast.Load) and e.id in self.locals:
                self.reads += 1
                if e.id not in st:
                    self.problems.append((e, e.id))
            return st
        if isinstance(e, ast.NamedExpr):
            st = self.expr(e.value, st)
            return st | set(target_names(e.target))
        if isinstance(e, ast.BoolOp):
            first = self.expr(e.values[0], st)
            cur = first
            for v in e.values[1:]:
                cur = self.expr(v, cur)
            return first
        if isinstance(e, ast.IfExp):
            t = self.expr(e.test, st)
            a = self.expr(e.body, t)
            b = self.expr(e.orelse, t)
            return a & b
        if isinstance(e, ast.Lambda):
            inner = set(st) | {a.arg for a in e.args.posonlyargs + e.args.args + e.args.kwonlyargs}
            if e.args.vararg:
                inner.add(e.args.vararg.arg)
            if e.args.kwarg:
                inner.add(e.args.kwarg.arg)
            # a lambda body runs later: only names never bound before the lambda *and* never bound afterwards could be
            # judged, so the body is not checked (closures over later bindings are legal)
            for d in e.args.defaults + [d for d in e.args.kw_defaults if d is not None]:
                st = self.expr(d, st)
            return st
        if isinstance(e, (ast.ListComp, ast.SetComp, ast.GeneratorExp, ast.DictComp)):
            inner = set(st)
            first = True
            for g in e.generators:
                if first:
                    self.expr(g.iter, st)  # evaluated in the enclosing scope, immediately
                    first = False
                else:
                    self.expr(g.iter, inner)
                inner |= set(target_names(g.target))
                for c in g.ifs:
                    inner = self.expr(c, inner)
            if isinstance(e, ast.DictComp):
                self.expr(e.key, inner)
                self.expr(e.value, inner)
            else:
                self.expr(e.elt, inner)
            return st
        for c in ast.iter_child_nodes(e):
            if not isinstance(c, (ast.expr_context, ast.operator, ast.boolop, ast.unaryop, ast.cmpop)):
                st = self.expr(c, st)
        return st

    # -- statements -----------------------------------------------------------------------------------------------
    def block(self, body: list[ast.stmt], st: set[str] | None) -> set[str] | None:
        """State after the block, or None when its end cannot be reached."""
        for s in body:
            if st is None:
                return None
            st = self.stmt(s, st)
        return st

    @staticmethod
    def _join(states: list[set[str] | None]) -> set[str] | None:
        live = [s for s in states if s is not None]
        if not live:
            return None
        out = set(live[0])
        for s in live[1:]:
            out &= s
        return out

    def stmt(self, s: ast.stmt, st: set[str]) -> set[str] | None:
        if isinstance(s, (ast.Return,)):
            self.expr(s.value, st)
            return None
        if isinstance(s, ast.Raise):
            self.expr(s.exc, st)
            self.expr(s.cause, st)
            return None
        if isinstance(s, (ast.Continue, ast.Break)):
            return None
        if isinstance(s, ast.Assign):
            st = self.expr(s.value, st)
            for t in s.targets:
                st = self._store(t, st)
            return st
        if isinstance(s, ast.AugAssign):
            if isinstance(s.target, ast.Name):
                self.expr(ast.Name(s.target.id, ast.Load(), lineno=s.lineno, col_offset=s.col_offset), st)
            else:
                st = self.expr(s.target, st)
            st = self.expr(s.value, st)
            return self._store(s.target, st)
        if isinstance(s, ast.AnnAssign):
            if s.value is None:
                return st
            st = self.expr(s.value, st)
            return self._store(s.target, st)
        if isinstance(s, ast.Expr):
            return self.expr(s.value, st)
        if isinstance(s, ast.Assert):
            if isinstance(s.test, ast.Constant) and not s.test.value:
                return None
            st2 = self.expr(s.test, st)
            self.expr(s.msg, st2)
            return st2
        if isinstance(s, ast.Delete):
            for t in s.targets:
                if isinstance(t, ast.Name):
                    self.expr(ast.Name(t.id, ast.Load(), lineno=t.lineno, col_offset=t.col_offset), st)
                    st = st - {t.id}
                else:
                    st = self.expr(t, st)
            return st
        if isinstance(s, (ast.Import, ast.ImportFrom)):
            return st | {(a.asname or a.name).split(".")[0] for a in s.names}
        if isinstance(s, (ast.FunctionDef, ast.AsyncFunctionDef, ast.ClassDef)):
            for d in s.decorator_list:
                st = self.expr(d, st)
            return st | {s.name}
        if isinstance(s, ast.If):
            t = self.expr(s.test, st)
            a = self.block(s.body, set(t))
            b = self.block(s.orelse, set(t))
            return self._join([a, b])
        if isinstance(s, (ast.For, ast.AsyncFor)):
            st = self.expr(s.iter, st)
            inner = self._store(s.target, set(st))
            self.block(s.body, inner)
            after = self.block(s.orelse, set(st)) if s.orelse else st
            return after if after is not None else st  # a break may skip the else clause
        if isinstance(s, ast.While):
            t = self.expr(s.test, st)
            self.block(s.body, set(t))
            infinite = isinstance(s.test, ast.Constant) and bool(s.test.value)
            has_break = any(isinstance(n, ast.Break) for n in ast.walk(s))
            if infinite and not has_break:
                return None
            after = self.block(s.orelse, set(t)) if s.orelse else t
            return st if after is None else (st if has_break else after)
        if isinstance(s, (ast.With, ast.AsyncWith)):
            for it in s.items:
                st = self.expr(it.context_expr, st)
                if it.optional_vars is not None:
                    st = self._store(it.optional_vars, st)
            out = self.block(s.body, set(st))
            return out if out is not None else None
        if isinstance(s, ast.Match):
            st = self.expr(s.subject, st)
            outs: list[set[str] | None] = []
            irrefutable = False
            for case in s.cases:
                cst = set(st) | set(pattern_captures(case.pattern))
                for n in ast.walk(case.pattern):
                    if isinstance(n, ast.MatchValue):
                        self.expr(n.value, st)
                    elif isinstance(n, ast.MatchClass):
                        self.expr(n.cls, st)
                if case.guard is not None:
                    cst = self.expr(case.guard, cst)
                outs.append(self.block(case.body, cst))
                p = case.pattern
                if case.guard is None and isinstance(p, ast.MatchAs) and p.pattern is None:
                    irrefutable = True
            if not irrefutable:
                outs.append(set(st))
            return self._join(outs)
        if isinstance(s, (ast.Try, getattr(ast, "TryStar", ast.Try))):
            body = self.block(s.body, set(st))
            if body is not None and s.orelse:
                body = self.block(s.orelse, body)
            outs = [body]
            for h in s.handlers:
                hst = set(st)
                self.expr(h.type, st)
                if h.name:
                    hst.add(h.name)
                outs.append(self.block(h.body, hst))
            out = self._join(outs)
            if s.finalbody:
                fin = self.block(s.finalbody, set(st))
                if fin is None:
                    return None
                if out is not None:
                    out = out | (fin - st)
            return out
        if isinstance(s, (ast.Pass, ast.Global, ast.Nonlocal)):
            return st
        # anything else: check the expressions it contains
        for c in ast.iter_child_nodes(s):
            if isinstance(c, ast.expr):
                st = self.expr(c, st)
        return st

    def _store(self, t: ast.AST, st: set[str]) -> set[str]:
        if isinstance(t, ast.Name):
            return st | {t.id}
        if isinstance(t, (ast.Tuple, ast.List)):
            for e in t.elts:
                st = self._store(e, st)
            return st
        if isinstance(t, ast.Starred):
            return self._store(t.value, st)
        # attribute / subscript store: the object and index are read
        if isinstance(t, ast.Attribute):
            return self.expr(t.value, st)
        if isinstance(t, ast.Subscript):
            st = self.expr(t.value, st)
            return self.expr(t.slice, st)
        return st


def analyse(fn: ast.FunctionDef | ast.AsyncFunctionDef) -> tuple[list[tuple[ast.Name, str]], int]:
    local_names, params = _locals_of(fn)
    fl = _Flow(fn, local_names)
    st = set(params)
    for d in fn.args.defaults + [d for d in fn.args.kw_defaults if d is not None]:
        pass  # defaults are evaluated in the enclosing scope
    fl.block(fn.body, st)
    # one report per name and line
    seen: set[tuple[str, int]] = set()
    out = []
    for n, name in fl.problems:
        k = (name, n.lineno)
        if k not in seen:
            seen.add(k)
            out.append((n, name))
    return out, fl.reads


def r_definite_assignment(ctx: Ctx, rule: str) -> None:
    run, m = ctx.run, ctx.m
    run.rule(
        rule,
        "every read of a local variable is dominated by a binding of it: on no way through a function (branches, match "
        "arms that may not match, loops that may run zero times, except handlers) is a local read before it is bound - "
        "such a read is an UnboundLocalError for exactly the inputs that take that way, typically on an error path where "
        "it replaces the documented exception",
        expected_min=200,
    )
    def functions(node: ast.AST, prefix: str):
        for c in ast.iter_child_nodes(node):
            if isinstance(c, (ast.FunctionDef, ast.AsyncFunctionDef)):
                yield f"{prefix}{c.name}", c
                yield from functions(c, f"{prefix}{c.name}.<locals>.")
            elif isinstance(c, ast.ClassDef):
                yield from functions(c, f"{prefix}{c.name}.")
            else:
                yield from functions(c, prefix)

    for mod in m.modules.values():
        if mod.rel.startswith("tests"):
            continue
        # the source as written, not the model's canonicalised copy: scoping is a property of the text
        tree = ast.parse(mod.source, filename=mod.path)
        for qual, fn in functions(tree, ""):
            problems, reads = analyse(fn)
            if problems:
                for n, name in problems:
                    run.fail(
                        rule,
                        f"{mod.rel}:{qual}:{name}",
                        f"`{name}` is read here but is not bound on every way of reaching this line (it is bound only in some branches / arms / loop bodies before): the call raises UnboundLocalError instead of doing what it documents",
                        file=mod.path,
                        line=n.lineno,
                        func=qual,
                    )
            else:
                run.ok(rule, f"{mod.rel}:{qual}", {"reads": reads})
