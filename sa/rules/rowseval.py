"""`sliced()` of every row-iterable class, decided by evaluation.

`RowIterable.sliced(start, stop)` promises the rows `[start:stop]` of the iterable; subclasses override it to cut a
container directly or (an optimisation the engine invites) to skip work.  Every override found in the package is
interpreted from its source (the checker's evaluator; nothing of the package is imported or run) on small receivers -
sequences of 0-3 rows, chains of up to three such operands (materialized and lazy ones mixed) - for every window
0 <= start <= 4, stop in {None, start..5}.  The returned object is then *read* with the trusted meaning of the
row-iterable classes (RowSequence = its rows, ChainRowIterable = concatenation, SliceRowIterable = window; those
`__iter__`s are pinned by R01.4/R18.3) and compared with the window of the receiver's rows.
"""

from __future__ import annotations

import ast
import itertools

from ..astutil import AnalysisError, src
from ..model import ClassInfo
from ..props.common import IT_ROWS, Ctx
from .bounds import Crash, Obj, Oracle, _NeedChoice, _Return
from .mergeeval import MergeInterp


class RowsInterp(MergeInterp):
    """MergeInterp plus: plain classes with __init__, attribute stores on objects, while loops, len() of an object
    with __len__, list.pop/append/insert."""

    def construct(self, cls: ClassInfo, args: list, kwargs: dict) -> Obj:
        if cls.is_dataclass:
            return super().construct(cls, args, kwargs)
        init = self.m.method(cls, "__init__")
        o = Obj(cls)
        if init is not None:
            self.call_function(init, o, args, kwargs)
        elif args or kwargs:
            raise Crash(f"{cls.name}() takes no arguments")
        return o

    def block(self, stmts, env, f) -> None:
        for s in stmts:
            if isinstance(s, ast.Assign) and len(s.targets) == 1 and isinstance(s.targets[0], ast.Attribute):
                o = self.eval(s.targets[0].value, env)
                if not isinstance(o, Obj):
                    raise AnalysisError(f"{f.key}: `{src(s)[:60]}` stores an attribute on something that is not an object of the package")
                o.attrs[s.targets[0].attr] = self.eval(s.value, env)
            elif isinstance(s, ast.While):
                n = 0
                while self.truth(self.eval(s.test, env)):
                    n += 1
                    if n > 1000:
                        raise AnalysisError(f"{f.key}: a while loop does not terminate in the evaluator")
                    from .foldeval import _Break, _Continue

                    try:
                        self.block(s.body, env, f)
                    except _Continue:
                        continue
                    except _Break:
                        break
            else:
                super().block([s], env, f)

    def call(self, n: ast.Call, env: dict):
        f = n.func
        if isinstance(f, ast.Name) and f.id == "len" and len(n.args) == 1 and "len" not in env:
            v = self.eval(n.args[0], env)
            if isinstance(v, Obj) and v.cls is not None:
                meth = self.m.method(v.cls, "__len__")
                if meth is None or meth.is_abstract:
                    raise Crash(f"object of type {v.cls.name} has no len()")
                return self.call_function(meth, v, [], {})
            if isinstance(v, (list, tuple, dict, set, frozenset, str)):
                return len(v)
            raise Crash(f"len() of {v!r}")
        if isinstance(f, ast.Name) and f.id not in env:
            cls = self.m.resolve_class(self.module, f.id)
            if cls is not None and not cls.is_dataclass:
                return self.construct(cls, self._args(n, env), {k.arg: self.eval(k.value, env) for k in n.keywords if k.arg})
        if isinstance(f, ast.Attribute) and f.attr in ("pop", "append", "insert", "extend", "reverse"):
            o = self.eval(f.value, env)
            if isinstance(o, list):
                args = self._args(n, env)
                try:
                    return getattr(o, f.attr)(*args)
                except (IndexError, TypeError) as e:
                    raise Crash(f"`{src(n)[:50]}`: {e}")
        if isinstance(f, ast.Name) and f.id == "isinstance" and len(n.args) == 2 and "isinstance" not in env:
            o = self.eval(n.args[0], env)
            names = [x for x in ([n.args[1]] if not isinstance(n.args[1], ast.Tuple) else n.args[1].elts)]
            if isinstance(o, Obj) and o.cls is not None and all(isinstance(x, (ast.Name, ast.Attribute)) for x in names):
                want = {src(x).split(".")[-1] for x in names}
                return any(k.name in want for k in self.m.mro(o.cls))
        return super().call(n, env)


def _rows(o, depth: int = 0) -> list:
    """The rows an object of the row-iterable family stands for (trusted reading of the classes)."""
    if depth > 8 or not isinstance(o, Obj) or o.cls is None:
        raise AnalysisError(f"the value returned by sliced() ({o!r:.60}) is not a row iterable the checker can read")
    name = o.cls.name
    if name == "RowSequence":
        return list(o.attrs["rows"])
    if name == "RowMapping":
        r = o.attrs["rows"]
        return list(r.values()) if isinstance(r, dict) else list(r)
    if name == "ChainRowIterable":
        out: list = []
        for x in o.attrs["chain"]:
            out += _rows(x, depth + 1)
        return out
    if name == "SliceRowIterable":
        base = _rows(o.attrs["target"], depth + 1)
        start, stop = o.attrs["start"], o.attrs["stop"]
        if not isinstance(start, int) or isinstance(start, bool) or start < 0 or not (stop is None or (isinstance(stop, int) and stop >= 0)):
            raise Crash(f"SliceRowIterable built with start={start!r}, stop={stop!r}")
        return base[start:stop]
    raise AnalysisError(f"sliced() returns a {name}; the checker does not know what rows that stands for")


def r_sliced_is_window(ctx: Ctx, rule: str) -> None:
    run, m = ctx.run, ctx.m
    run.rule(
        rule,
        "every sliced() of a row-iterable class returns exactly the rows [start:stop] of the iterable: each override is "
        "evaluated on sequences of 0-3 rows and on chains of up to three operands (materialized and lazy) for every window "
        "with 0 <= start <= 4 and stop None or start..5, and the object it returns is read as rows - a short-cut that "
        "shifts one end of the window only returns rows the merged slice does not contain",
        expected_min=2,
    )
    mod = m.module(IT_ROWS)
    need = ("RowSequence", "ChainRowIterable", "SliceRowIterable", "RowIterable")
    for nme in need:
        if nme not in mod.classes:
            raise AnalysisError(f"{IT_ROWS}: class {nme} not found")
    seq_c, chain_c, slice_c = mod.classes["RowSequence"], mod.classes["ChainRowIterable"], mod.classes["SliceRowIterable"]
    owners = [c for c in mod.classes.values() if "sliced" in c.methods and not c.methods["sliced"].is_abstract]
    if not owners:
        raise AnalysisError("no class defines sliced()")
    counter = itertools.count(1)

    def seq(n: int) -> Obj:
        return Obj(seq_c, rows=[next(counter) for _ in range(n)])

    def lazy(n: int) -> Obj:
        return Obj(slice_c, target=seq(n + 1), start=0, stop=n)

    def receivers(c: ClassInfo):
        names = {k.name for k in m.mro(c)}
        out = []
        if c.name == "RowSequence" or (c.name == "RowIterable"):
            for n in range(0, 4):
                out.append((f"sequence[{n}]", seq(n)))
        if "ChainRowIterable" in names or c.name == "RowIterable":
            for sizes in itertools.chain(itertools.product(range(0, 3), repeat=2), [(1, 1, 1), (2, 0, 1), (0, 2, 2)]):
                for lazies in itertools.product((False, True), repeat=len(sizes)):
                    if sum(lazies) > 1:
                        continue
                    ops = [lazy(n) if lz else seq(n) for n, lz in zip(sizes, lazies)]
                    label = "chain[" + ",".join(("~" if lz else "") + str(n) for n, lz in zip(sizes, lazies)) + "]"
                    out.append((label, Obj(chain_c, chain=ops)))
        if c.name == "SliceRowIterable":
            # receivers with every kind of existing window: a second window must stay inside the first
            for n in range(0, 5):
                for s0, e0 in ((0, None), (1, None), (0, 2), (1, 3), (2, 2), (0, 0)):
                    out.append((f"slice-of[{n}][{s0}:{'' if e0 is None else e0}]", Obj(slice_c, target=seq(n), start=s0, stop=e0)))
        if not out:
            # any other class: read as rows must be possible for a receiver of that class; we cannot build one
            raise AnalysisError(f"{c.name} overrides sliced(); the checker has no receivers for that class")
        return out

    for c in sorted(owners, key=lambda k: k.name):
        f = c.methods["sliced"]
        n_cases = 0
        failure = None
        for label, recv in receivers(c):
            want_all = _rows(recv)
            for start in range(0, 5):
                for stop in [None] + list(range(start, 6)):
                    n_cases += 1
                    import copy

                    r = copy.deepcopy(recv)
                    interp = RowsInterp(ctx, Oracle([]), f.module, {})
                    try:
                        got_o = interp.call_function(f, r, [start, stop], {})
                        got = _rows(got_o)
                    except Crash as e:
                        failure = failure or (label, start, stop, f"fails: {e}", want_all[start:stop])
                        continue
                    except _NeedChoice:
                        raise AnalysisError(f"{c.name}.sliced depends on a value the evaluator cannot decide")
                    if got != want_all[start:stop]:
                        failure = failure or (label, start, stop, f"returns rows {got}", want_all[start:stop])
                    elif _rows(r) != want_all:
                        failure = failure or (label, start, stop, "changes the rows of the iterable it was called on", want_all[start:stop])
        inst = f"{c.name}.sliced:window"
        if failure:
            label, start, stop, what, want = failure
            run.fail(rule, inst, f"{c.name}.sliced({start}, {stop}) on {label} {what}; the window [{start}:{stop}] of its rows is {want}", fi=f)
        else:
            run.ok(rule, inst, {"cases": n_cases})
