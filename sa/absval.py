"""E4: tri-state evaluation of path atoms under a rule-supplied abstract state.

The abstract state maps *expression text* (``operation``, ``current.operation``,
``select.has_slice``) to an abstract value:

* ``ClsVal({classes})`` - the exact class of the object is one of these;
* ``ConstVal(v)``      - the value is this constant;
* anything else        - unknown.

Only facts extracted from the model are used (class tests against the closed
hierarchies, constant-valued properties); ``None`` (unknown) always keeps a
path.  No repository code runs.
"""

from __future__ import annotations

import ast
import dataclasses

from .astutil import dotted, src, target_names
from .kinds import Kinds
from .model import ABSTRACT, NONCONST, ClassInfo, ModuleInfo
from .paths import Path, Step, _binds


@dataclasses.dataclass(frozen=True)
class ClsVal:
    classes: frozenset

    def __repr__(self) -> str:
        return "{" + ",".join(sorted(c.name for c in self.classes)) + "}"


@dataclasses.dataclass(frozen=True)
class ConstVal:
    value: object


def cls_val(*classes: ClassInfo) -> ClsVal:
    return ClsVal(frozenset(classes))


class AbsState:
    """Immutable-by-convention mapping text -> abstract value."""

    def __init__(self, values: dict[str, object] | None = None, overrides: dict[str, object] | None = None):
        self.values = dict(values or {})
        # rule-supplied assumptions about whole expressions ("f(x) returns None", "a == b holds");
        # never invalidated by assignments on the path
        self.overrides = dict(overrides or {})

    def copy(self) -> AbsState:
        return AbsState(self.values, self.overrides)

    def get(self, text: str):
        if text in self.overrides:
            return self.overrides[text]
        return self.values.get(text)

    def set(self, text: str, value) -> None:
        self.values[text] = value

    def kill_root(self, name: str) -> None:
        for k in list(self.values):
            if k == name or k.startswith(name + ".") or k.startswith(name + "["):
                del self.values[k]


class Evaluator:
    def __init__(self, kinds: Kinds, module: ModuleInfo):
        self.k = kinds
        self.m = kinds.m
        self.module = module

    # ------------------------------------------------------------ values

    def value(self, node: ast.expr, st: AbsState):
        while isinstance(node, ast.NamedExpr):
            node = node.value
        ok, v = _const(node)
        if ok:
            return ConstVal(v)
        text = src(node)
        hit = st.get(text)
        if hit is not None:
            return hit
        if isinstance(node, ast.Attribute):
            base = self.value(node.value, st)
            if isinstance(base, ClsVal) and base.classes:
                vals = set()
                for c in base.classes:
                    cv = self.m.const_property(c, node.attr)
                    if cv is NONCONST or cv is ABSTRACT:
                        return None
                    vals.add((type(cv), cv))
                if len(vals) == 1:
                    return ConstVal(next(iter(vals))[1])
                return None
        if isinstance(node, ast.Call):
            name = dotted(node.func)
            if name:
                c = self.m.resolve_class(self.module, name)
                if c is not None and not self.m.is_abstract(c):
                    return cls_val(c)
        return None

    # ------------------------------------------------------------ truth

    def truth(self, node: ast.expr, st: AbsState) -> bool | None:
        override = st.get(src(node))
        if override is None and isinstance(node, ast.Compare) and len(node.ops) == 1:
            # the same comparison written the other way round
            flip = {ast.Lt: ast.Gt, ast.Gt: ast.Lt, ast.LtE: ast.GtE, ast.GtE: ast.LtE, ast.Eq: ast.Eq, ast.NotEq: ast.NotEq, ast.Is: ast.Is, ast.IsNot: ast.IsNot}.get(type(node.ops[0]))
            if flip is not None:
                override = st.get(src(ast.Compare(left=node.comparators[0], ops=[flip()], comparators=[node.left])))
        if isinstance(override, ConstVal) and not isinstance(node, (ast.Name, ast.Constant)):
            return bool(override.value)
        if isinstance(node, ast.UnaryOp) and isinstance(node.op, ast.Not):
            r = self.truth(node.operand, st)
            return None if r is None else not r
        if isinstance(node, ast.BoolOp):
            rs = [self.truth(v, st) for v in node.values]
            if isinstance(node.op, ast.And):
                if any(r is False for r in rs):
                    return False
                return True if all(r is True for r in rs) else None
            if any(r is True for r in rs):
                return True
            return False if all(r is False for r in rs) else None
        if isinstance(node, ast.NamedExpr):
            return self.truth(node.value, st)
        if isinstance(node, ast.Compare) and len(node.ops) == 1:
            return self._compare(node.left, node.ops[0], node.comparators[0], st)
        if isinstance(node, ast.Call) and isinstance(node.func, ast.Name) and node.func.id == "isinstance" and len(node.args) == 2:
            v = self.value(node.args[0], st)
            if isinstance(v, ClsVal) and v.classes:
                rs = {self.k.class_test(self.module, node.args[1], c) for c in v.classes}
                if rs == {True}:
                    return True
                if rs == {False}:
                    return False
            return None
        hit = st.get(src(node))
        if isinstance(hit, ConstVal):
            return bool(hit.value)
        v = self.value(node, st)
        if isinstance(v, ConstVal):
            return bool(v.value)
        if isinstance(v, ClsVal):
            return True  # instances of package classes are truthy (none defines __bool__/__len__)
        return None

    def _compare(self, a: ast.expr, op: ast.cmpop, b: ast.expr, st: AbsState) -> bool | None:
        va, vb = self.value(a, st), self.value(b, st)
        if isinstance(op, (ast.Is, ast.IsNot)):
            r = None
            if isinstance(va, ConstVal) and isinstance(vb, ConstVal):
                if va.value is None or vb.value is None or isinstance(va.value, bool) or isinstance(vb.value, bool):
                    r = va.value is vb.value
            elif isinstance(va, ClsVal) and isinstance(vb, ConstVal) and (vb.value is None or isinstance(vb.value, bool)):
                r = False
            elif isinstance(vb, ClsVal) and isinstance(va, ConstVal) and (va.value is None or isinstance(va.value, bool)):
                r = False
            if r is None:
                return None
            return r if isinstance(op, ast.Is) else not r
        if isinstance(va, ConstVal) and isinstance(vb, ConstVal):
            try:
                if isinstance(op, ast.Eq):
                    return va.value == vb.value
                if isinstance(op, ast.NotEq):
                    return va.value != vb.value
                if isinstance(op, ast.Lt):
                    return va.value < vb.value  # type: ignore[operator]
                if isinstance(op, ast.LtE):
                    return va.value <= vb.value  # type: ignore[operator]
                if isinstance(op, ast.Gt):
                    return va.value > vb.value  # type: ignore[operator]
                if isinstance(op, ast.GtE):
                    return va.value >= vb.value  # type: ignore[operator]
            except TypeError:
                return None
        return None

    # ------------------------------------------------------------ steps

    def step_truth(self, step: Step, st: AbsState) -> bool | None:
        """Whether the *test* of a step holds under ``st`` (independent of step.value)."""
        if step.kind == "cond":
            return self.truth(step.node, st)  # type: ignore[arg-type]
        if step.kind == "case":
            case = step.node
            assert isinstance(case, ast.match_case) and step.subject is not None
            ov = st.overrides.get(f"{src(step.subject)} ~ {src(case.pattern)}")
            if isinstance(ov, ConstVal):
                if ov.value:
                    return True if (case.guard is None or step.value) else None
                return False
            v = self.value(step.subject, st)
            if isinstance(v, ClsVal) and v.classes:
                rs = {self.k.pattern_matches(self.module, case.pattern, c) for c in v.classes}
                if rs == {True}:
                    # a guarded arm may still be skipped because of its guard
                    return True if (case.guard is None or step.value) else None
                if rs == {False}:
                    return False
            return None
        if step.kind == "loop" and isinstance(step.node, ast.While):
            return self.truth(step.node.test, st)
        return None

    def narrow(self, step: Step, st: AbsState) -> None:
        """Refine ``st`` with what taking ``step`` teaches (class narrowing, bindings)."""
        if step.kind == "case":
            case = step.node
            assert isinstance(case, ast.match_case) and step.subject is not None
            subj = src(step.subject)
            v = self.value(step.subject, st)
            if step.value:
                if isinstance(v, ClsVal):
                    keep = frozenset(
                        c for c in v.classes if self.k.pattern_matches(self.module, case.pattern, c) is not False
                    )
                    st.set(subj, ClsVal(keep))
                self._bind_captures(case.pattern, step.subject, st)
            else:
                if isinstance(v, ClsVal) and case.guard is None:
                    keep = frozenset(
                        c for c in v.classes if self.k.pattern_matches(self.module, case.pattern, c) is not True
                    )
                    st.set(subj, ClsVal(keep))
        elif step.kind == "cond":
            self._narrow_cond(step.node, step.value, st)  # type: ignore[arg-type]
            for sub in ast.walk(step.node):
                if isinstance(sub, ast.NamedExpr) and isinstance(sub.target, ast.Name):
                    self._assign(sub.target.id, sub.value, st)
        elif step.kind == "stmt":
            n = step.node
            if isinstance(n, ast.Assign) and len(n.targets) == 1 and isinstance(n.targets[0], ast.Name):
                self._assign(n.targets[0].id, n.value, st)
            elif isinstance(n, ast.AnnAssign) and isinstance(n.target, ast.Name) and n.value is not None:
                self._assign(n.target.id, n.value, st)
            elif (
                isinstance(n, ast.Assign)
                and len(n.targets) == 1
                and isinstance(n.targets[0], ast.Tuple)
                and not isinstance(n.value, ast.Tuple)
            ):
                # tuple unpacking of a call result: rules may describe the components as "<call>#<i>"
                text = src(n.value)
                for i, t in enumerate(n.targets[0].elts):
                    if isinstance(t, ast.Name):
                        st.kill_root(t.id)
                        v = st.get(f"{text}#{i}")
                        if v is not None:
                            st.set(t.id, v)
            elif (
                isinstance(n, ast.Assign)
                and len(n.targets) == 1
                and isinstance(n.targets[0], ast.Tuple)
                and isinstance(n.value, ast.Tuple)
                and len(n.targets[0].elts) == len(n.value.elts)
                and all(isinstance(t, ast.Name) for t in n.targets[0].elts)
            ):
                # ``a, b = (x, y)``: evaluate all values first, then bind (as python does)
                vals = [(t.id, ve) for t, ve in zip(n.targets[0].elts, n.value.elts)]  # type: ignore[union-attr]
                targets = {t for t, _ in vals}
                if any(isinstance(x, ast.Name) and x.id in targets for _, ve in vals for x in ast.walk(ve)):
                    for name in _binds(step):
                        st.kill_root(name)
                else:
                    for t, ve in vals:
                        self._assign(t, ve, st)
            else:
                for name in _binds(step):
                    st.kill_root(name)
        elif step.kind == "loop" and step.value and isinstance(step.node, ast.For):
            for name in target_names(step.node.target):
                st.kill_root(name)

    def _assign(self, name: str, value: ast.expr, st: AbsState) -> None:
        v = self.value(value, st)
        # copy knowledge about attributes of the source when it is a plain alias
        alias = src(value) if isinstance(value, (ast.Name, ast.Attribute)) else None
        carried = {}
        if alias is not None:
            for k, val in st.values.items():
                if k.startswith(alias + "."):
                    carried[name + k[len(alias) :]] = val
        st.kill_root(name)
        if v is not None:
            st.set(name, v)
        for k, val in carried.items():
            st.set(k, val)

    def _bind_captures(self, pattern: ast.pattern, subject: ast.expr, st: AbsState) -> None:
        from .astutil import pattern_captures

        subj = src(subject)
        for name, access in pattern_captures(pattern).items():
            st.kill_root(name)
            if all(not a.startswith(("#", "[", "*")) for a in access):
                text = ".".join((subj,) + access) if access else subj
                v = st.get(text)
                if v is None and access:
                    try:
                        v = self.value(ast.parse(text, mode="eval").body, st)
                    except SyntaxError:
                        v = None
                if v is not None:
                    st.set(name, v)
                # carry attribute knowledge
                for k, val in list(st.values.items()):
                    if k.startswith(text + "."):
                        st.set(name + k[len(text) :], val)

    def _narrow_cond(self, node: ast.expr, value: bool, st: AbsState) -> None:
        if isinstance(node, ast.UnaryOp) and isinstance(node.op, ast.Not):
            self._narrow_cond(node.operand, not value, st)
            return
        if isinstance(node, ast.BoolOp):
            if isinstance(node.op, ast.And) == value:
                for v in node.values:
                    self._narrow_cond(v, value, st)
            return
        if isinstance(node, ast.NamedExpr):
            self._narrow_cond(node.value, value, st)
            return
        if (
            isinstance(node, ast.Call)
            and isinstance(node.func, ast.Name)
            and node.func.id == "isinstance"
            and len(node.args) == 2
        ):
            subj = src(node.args[0])
            v = self.value(node.args[0], st)
            if isinstance(v, ClsVal):
                want = True if value else False
                keep = frozenset(
                    c for c in v.classes if self.k.class_test(self.module, node.args[1], c) in (want, None)
                )
                st.set(subj, ClsVal(keep))
            return
        if isinstance(node, ast.Compare) and len(node.ops) == 1 and isinstance(node.ops[0], (ast.Is, ast.IsNot, ast.Eq, ast.NotEq)):
            a, b = node.left, node.comparators[0]
            for x, y in ((a, b), (b, a)):
                if isinstance(y, ast.Constant) and isinstance(y.value, bool) and isinstance(x, (ast.Attribute, ast.Name)):
                    pos = isinstance(node.ops[0], (ast.Is, ast.Eq)) == value
                    self._narrow_cond(x, pos if y.value else not pos, st)
                    return
        if isinstance(node, ast.Compare) and len(node.ops) == 1 and isinstance(node.ops[0], (ast.Is, ast.IsNot)):
            a, b = node.left, node.comparators[0]
            isnone = isinstance(node.ops[0], ast.Is) == value
            for x, y in ((a, b), (b, a)):
                ok, cv = _const(y)
                if ok and cv is None:
                    while isinstance(x, ast.NamedExpr):
                        x = x.value
                    if isnone:
                        st.set(src(x), ConstVal(None))
            return
        # a constant-valued flag read on an object of known class set: keep the classes that agree
        if isinstance(node, ast.Attribute):
            base = self.value(node.value, st)
            if isinstance(base, ClsVal) and base.classes:
                keep = set()
                for c in base.classes:
                    cv = self.m.const_property(c, node.attr)
                    if cv is NONCONST or cv is ABSTRACT or bool(cv) == value:
                        keep.add(c)
                st.set(src(node.value), ClsVal(frozenset(keep)))
        # plain truthiness of a tracked boolean expression
        text = src(node)
        if st.get(text) is None and isinstance(node, (ast.Name, ast.Attribute)):
            st.set(text, ConstVal(value)) if isinstance(value, bool) and _boolish(node) else None


def _boolish(node: ast.expr) -> bool:
    """Names/attributes that by convention hold booleans (``has_x``, ``is_x``, ``done`` ...)."""
    last = node.attr if isinstance(node, ast.Attribute) else node.id if isinstance(node, ast.Name) else ""
    return last.startswith(("has_", "is_", "needs_")) or last.endswith(("_is_lhs", "_needs_projection")) or last in (
        "done",
        "backtrack",
        "transfer",
        "require_preferred_engine",
        "persisted",
        "ignore_lhs",
    )


def _const(node: ast.expr) -> tuple[bool, object]:
    if isinstance(node, ast.Constant):
        return True, node.value
    return False, None


def feasible(path: Path, state: AbsState, ev: Evaluator) -> tuple[bool, AbsState]:
    """Is the path consistent with the abstract state?  Returns the narrowed end state."""
    st = state.copy()
    for step in path.steps:
        if step.kind in ("cond", "case") or (step.kind == "loop" and isinstance(step.node, ast.While)):
            r = ev.step_truth(step, st)
            if r is not None and r != step.value:
                return False, st
        ev.narrow(step, st)
    return True, st


def state_at(path: Path, index: int, state: AbsState, ev: Evaluator) -> AbsState:
    """Abstract state just before step ``index`` (assumes the prefix is feasible)."""
    st = state.copy()
    for step in path.steps[:index]:
        ev.narrow(step, st)
    return st
