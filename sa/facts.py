"""Semantic guard facts.

Branch conditions are normalised so that rules speak about *facts*, not about
spelling: ``not a <= b``, ``a - b`` (truthy), ``not a.issubset(b)``,
``not b >= a`` are all ``SUBSET(a, b)`` with polarity False.
"""

from __future__ import annotations

import ast
import dataclasses

from .astutil import dotted, src
from .paths import Path, Step


@dataclasses.dataclass(frozen=True)
class Fact:
    kind: str  # SUBSET EQ IS IN LT LE TRUTH ISINSTANCE CALL OR AND
    args: tuple[str, ...]
    polarity: bool
    node: ast.AST = dataclasses.field(compare=False, hash=False, repr=False, default=None)  # type: ignore
    parts: tuple = dataclasses.field(compare=False, hash=False, repr=False, default=())  # for OR/AND

    def __str__(self) -> str:
        sign = "" if self.polarity else "not "
        return f"{sign}{self.kind}({', '.join(self.args)})"

    def negated(self) -> Fact:
        return dataclasses.replace(self, polarity=not self.polarity)


def _strip_parens_not(node: ast.expr, polarity: bool) -> tuple[ast.expr, bool]:
    while isinstance(node, ast.UnaryOp) and isinstance(node.op, ast.Not):
        node = node.operand
        polarity = not polarity
    return node, polarity


def _unwrap_walrus(node: ast.expr) -> ast.expr:
    while isinstance(node, ast.NamedExpr):
        node = node.value
    return node


class _WalrusToName(ast.NodeTransformer):
    def visit_NamedExpr(self, node: ast.NamedExpr):  # noqa: N802
        return ast.copy_location(ast.Name(node.target.id, ast.Load()), node) if isinstance(node.target, ast.Name) else node


def _s(node: ast.expr) -> str:
    """Normalised operand text: a top-level walrus stands for its value, a nested one for the name it
    binds (later code refers to it by that name); `set(x)`/`frozenset(x)` are x."""
    node = _unwrap_walrus(node)
    if any(isinstance(n, ast.NamedExpr) for n in ast.walk(node)):
        import copy

        node = _WalrusToName().visit(copy.deepcopy(node))
    while (
        isinstance(node, ast.Call)
        and isinstance(node.func, ast.Name)
        and node.func.id in ("set", "frozenset")
        and len(node.args) == 1
        and not node.keywords
    ):
        node = node.args[0]
    return src(node)


def facts_of(test: ast.expr, polarity: bool = True) -> list[Fact]:
    """Conjunction of facts implied by ``test`` having truth value ``polarity``."""
    test, polarity = _strip_parens_not(test, polarity)
    if isinstance(test, ast.BoolOp):
        is_and = isinstance(test.op, ast.And)
        if is_and == polarity:
            # (A and B) true  /  (A or B) false  -> every operand has that polarity
            out: list[Fact] = []
            for v in test.values:
                out.extend(facts_of(v, polarity))
            return out
        parts = tuple(tuple(facts_of(v, polarity)) for v in test.values)
        return [Fact("OR", tuple(" & ".join(map(str, p)) for p in parts), True, test, parts)]
    return [_atom(test, polarity)]


def _atom(test: ast.expr, polarity: bool) -> Fact:
    inner = _unwrap_walrus(test)
    if isinstance(inner, ast.Compare) and len(inner.ops) == 1:
        op = inner.ops[0]
        a, b = inner.left, inner.comparators[0]
        # ``x is True`` / ``x == False`` ... on boolean-valued expressions are truth tests of x
        if isinstance(op, (ast.Is, ast.IsNot, ast.Eq, ast.NotEq)):
            for x, y in ((a, b), (b, a)):
                if isinstance(y, ast.Constant) and isinstance(y.value, bool) and _boolean_valued(x):
                    pol = polarity if isinstance(op, (ast.Is, ast.Eq)) else not polarity
                    return _atom(x, pol if y.value else not pol)
        if isinstance(op, ast.LtE):
            return Fact("LE", (_s(a), _s(b)), polarity, test)
        if isinstance(op, ast.GtE):
            return Fact("LE", (_s(b), _s(a)), polarity, test)
        if isinstance(op, ast.Lt):
            return Fact("LT", (_s(a), _s(b)), polarity, test)
        if isinstance(op, ast.Gt):
            return Fact("LT", (_s(b), _s(a)), polarity, test)
        if isinstance(op, ast.Eq):
            return Fact("EQ", tuple(sorted((_s(a), _s(b)))), polarity, test)
        if isinstance(op, ast.NotEq):
            return Fact("EQ", tuple(sorted((_s(a), _s(b)))), not polarity, test)
        if isinstance(op, ast.Is):
            return Fact("IS", tuple(sorted((_s(a), _s(b)))), polarity, test)
        if isinstance(op, ast.IsNot):
            return Fact("IS", tuple(sorted((_s(a), _s(b)))), not polarity, test)
        if isinstance(op, ast.In):
            return Fact("IN", (_s(a), _s(b)), polarity, test)
        if isinstance(op, ast.NotIn):
            return Fact("IN", (_s(a), _s(b)), not polarity, test)
    if isinstance(inner, ast.Call):
        f = inner.func
        if isinstance(f, ast.Name) and f.id == "isinstance" and len(inner.args) == 2:
            return Fact("ISINSTANCE", (_s(inner.args[0]), _s(inner.args[1])), polarity, test)
        if isinstance(f, ast.Attribute) and len(inner.args) == 1 and not inner.keywords:
            if f.attr == "issubset":
                return Fact("LE", (_s(f.value), _s(inner.args[0])), polarity, test)
            if f.attr == "issuperset":
                return Fact("LE", (_s(inner.args[0]), _s(f.value)), polarity, test)
            if f.attr == "isdisjoint":
                return Fact("DISJOINT", tuple(sorted((_s(f.value), _s(inner.args[0])))), polarity, test)
            if f.attr == "difference":
                # truthy difference == not subset
                return Fact("LE", (_s(f.value), _s(inner.args[0])), not polarity, test)
    if isinstance(inner, ast.BinOp) and isinstance(inner.op, ast.Sub):
        # ``if a - b:`` (set difference non-empty) == not (a <= b)
        return Fact("LE", (_s(inner.left), _s(inner.right)), not polarity, test)
    if isinstance(inner, ast.BinOp) and isinstance(inner.op, ast.BitAnd):
        return Fact("DISJOINT", tuple(sorted((_s(inner.left), _s(inner.right)))), not polarity, test)
    return Fact("TRUTH", (_s(inner),), polarity, test)


def _boolean_valued(node: ast.expr) -> bool:
    node = _unwrap_walrus(node)
    last = node.attr if isinstance(node, ast.Attribute) else node.id if isinstance(node, ast.Name) else ""
    if last.startswith(("is_", "has_")) or last in ("done", "persisted"):
        return True
    if isinstance(node, ast.Call) and isinstance(node.func, ast.Attribute) and node.func.attr in ("is_supported_by", "isdisjoint", "issubset", "issuperset"):
        return True
    if isinstance(node, ast.Call) and isinstance(node.func, ast.Name) and node.func.id == "isinstance":
        return True
    return False


def step_facts(step: Step) -> list[Fact]:
    if step.kind == "cond":
        return facts_of(step.node, step.value)  # type: ignore[arg-type]
    if step.kind == "case":
        case = step.node
        assert isinstance(case, ast.match_case)
        return [Fact("CASE", (src(step.subject), src(case.pattern)), step.value, case)]
    if step.kind == "loop":
        n = step.node
        if isinstance(n, ast.While):
            return facts_of(n.test, step.value)
        return [Fact("LOOP", (src(n.iter),), step.value, n)]  # type: ignore[union-attr]
    return []


_IDENT = None


def _idents(text: str) -> set[str]:
    global _IDENT
    if _IDENT is None:
        import re

        _IDENT = re.compile(r"(?<![\w.])[A-Za-z_]\w*")
    return set(_IDENT.findall(text))


def _mentions(f: Fact, names: set[str]) -> bool:
    if f.kind == "OR":
        return any(_mentions(x, names) for alt in f.parts for x in alt)
    return any(_idents(a) & names for a in f.args)


def last_cond_facts(path: Path) -> list[Fact]:
    """Facts (incl. the copy-propagated forms) of the last branch test on the path."""
    idx = max((i for i, s in enumerate(path.steps) if s.kind == "cond"), default=-1)
    if idx < 0:
        return []
    n_before = len(path_facts(path, idx, versioned=False))
    return path_facts(path, idx + 1, versioned=False)[n_before:]


def path_facts(path: Path, upto: int | None = None, versioned: bool | str = True) -> list[Fact]:
    """Facts established along the path.

    versioned=True   a fact is dropped as soon as a name it mentions is re-bound (facts about *current* values);
    versioned="entry+current"  additionally keeps facts whose names had not been re-bound before the test
                     (facts about the values the function was *entered* with) - the right notion for input guards;
    versioned=False  every fact ever tested.
    """
    from .paths import _binds

    out: list[Fact] = []
    entry: list[Fact] = []
    rebound: set[str] = set()
    defs: dict[str, ast.expr] = {}  # single-name locals -> the expression they currently stand for
    steps = path.steps if upto is None else path.steps[:upto]
    for s in steps:
        bound = _binds(s)
        if versioned and bound:
            out = [f for f in out if not _mentions(f, bound)]
        new = step_facts(s)
        # the same test with locals replaced by what they are bound to (``x = a - b; if x:`` is ``if a - b:``)
        if s.kind == "cond" and defs:
            sub = _substitute(s.node, defs)
            if sub is not None:
                seen = {str(f) for f in new}
                for f in facts_of(sub, s.value):
                    if str(f) not in seen:
                        new.append(f)
        out.extend(new)
        if versioned == "entry+current":
            entry.extend(f for f in new if not _mentions(f, rebound))
        rebound |= bound
        # maintain the definitions
        if bound:
            for k in list(defs):
                if k in bound or (_idents(src(defs[k])) & bound):
                    del defs[k]
        n = s.node
        if s.kind == "stmt":
            if isinstance(n, ast.Assign) and len(n.targets) == 1 and isinstance(n.targets[0], ast.Name):
                if n.targets[0].id not in _idents(src(n.value)):
                    defs[n.targets[0].id] = n.value
            elif isinstance(n, ast.AnnAssign) and isinstance(n.target, ast.Name) and n.value is not None:
                defs[n.target.id] = n.value
            elif (
                isinstance(n, ast.Assign)
                and len(n.targets) == 1
                and isinstance(n.targets[0], ast.Tuple)
                and isinstance(n.value, ast.Tuple)
                and len(n.targets[0].elts) == len(n.value.elts)
                and all(isinstance(t, ast.Name) for t in n.targets[0].elts)
            ):
                # element-wise `a, b = (x, y)`: each name stands for its own element (when no element reads a target)
                tnames = {t.id for t in n.targets[0].elts}
                if not any(_idents(src(v)) & tnames for v in n.value.elts):
                    for t, v in zip(n.targets[0].elts, n.value.elts):
                        defs[t.id] = v
        if s.kind in ("stmt", "cond") and not isinstance(n, ast.match_case):
            for w in ast.walk(n):
                if isinstance(w, ast.NamedExpr) and isinstance(w.target, ast.Name):
                    defs[w.target.id] = w.value
    if versioned == "entry+current":
        seen_ids = {id(f) for f in out}
        out = out + [f for f in entry if id(f) not in seen_ids]
    if versioned is True:
        out = propagate(out)
    return out


def propagate(facts: list[Fact]) -> list[Fact]:
    """Unit propagation through the disjunctions: with `A or B` (a failed `not A and not B` test) and `not A` known,
    B holds.  Only adds facts (appended at the end); the disjunctions themselves stay."""
    out = list(facts)
    for _ in range(4):
        atoms = {(f.kind, f.args): f.polarity for f in out if f.kind != "OR"}
        keys = {(f.kind, f.args, f.polarity) for f in out if f.kind != "OR"}
        added = False
        for f in out:
            if f.kind != "OR":
                continue
            live = []
            for alt in f.parts:
                dead = any(x.kind != "OR" and atoms.get((x.kind, x.args), x.polarity) != x.polarity for x in alt)
                if not dead:
                    live.append(alt)
            if len(live) == 1:
                for x in live[0]:
                    if x.kind != "OR" and (x.kind, x.args, x.polarity) not in keys:
                        out.append(x)
                        keys.add((x.kind, x.args, x.polarity))
                        added = True
                    elif x.kind == "OR" and not any(y is x for y in out):
                        out.append(x)
                        added = True
        if not added:
            break
    return out


def contradictory(facts: list[Fact]) -> bool:
    """The (versioned) facts of a path assert an atom both ways, or refute every alternative of a disjunction: no
    execution takes the path."""
    seen: dict[tuple, bool] = {}
    for f in facts:
        if f.kind == "OR":
            continue
        k = (f.kind, f.args)
        if k in seen and seen[k] != f.polarity:
            return True
        seen[k] = f.polarity
    for f in facts:
        if f.kind == "OR" and all(any(x.kind != "OR" and seen.get((x.kind, x.args), x.polarity) != x.polarity for x in alt) for alt in f.parts):
            return True
    return False


def _substitute(node: ast.AST, defs: dict[str, ast.expr], depth: int = 3) -> ast.expr | None:
    """``node`` with locals replaced by their defining expressions; None if nothing to replace."""
    import copy

    hit = False

    class S(ast.NodeTransformer):
        def visit_Name(self, n):  # noqa: N802
            nonlocal hit
            if isinstance(n.ctx, ast.Load) and n.id in defs:
                hit = True
                return copy.deepcopy(defs[n.id])
            return n

        def visit_NamedExpr(self, n):  # noqa: N802
            n.value = self.visit(n.value)
            return n

    cur = copy.deepcopy(node)
    for _ in range(depth):
        hit = False
        cur = S().visit(cur)
        if not hit:
            break
    if src(cur) == src(node):
        return None
    return cur  # type: ignore[return-value]


def has_fact(facts: list[Fact], kind: str, args: tuple[str, ...] | None = None, polarity: bool | None = None) -> bool:
    for f in facts:
        if f.kind != kind:
            continue
        if polarity is not None and f.polarity != polarity:
            continue
        if args is not None and f.args != args:
            continue
        return True
    return False


def subset_fact(facts: list[Fact], a_pred, b_pred, polarity: bool | None = None) -> Fact | None:
    """First LE fact whose operands satisfy the two predicates on their text."""
    for f in facts:
        if f.kind == "LE" and (polarity is None or f.polarity == polarity) and a_pred(f.args[0]) and b_pred(f.args[1]):
            return f
    return None


def flatten_or(facts: list[Fact]) -> list[Fact]:
    """All atomic facts mentioned, including those inside OR alternatives."""
    out: list[Fact] = []
    for f in facts:
        if f.kind == "OR":
            for p in f.parts:
                out.extend(flatten_or(list(p)))
        else:
            out.append(f)
    return out


def callee_text(node: ast.AST) -> str:
    return dotted(node) or src(node)
