"""E5/E6: per-path data-flow helpers - backward slices, freshness, call listing."""

from __future__ import annotations

import ast
from collections.abc import Iterator

from .astutil import (
    attr_chain,
    call_attr,
    chains_read,
    iter_calls,
    names_read,
    pattern_captures,
    src,
    target_names,
    walk_no_nested_defs,
)
from .paths import Path, Step

MUTATING_METHODS = {
    "append",
    "extend",
    "insert",
    "remove",
    "pop",
    "clear",
    "sort",
    "reverse",
    "update",
    "add",
    "discard",
    "setdefault",
    "popitem",
    "difference_update",
    "intersection_update",
    "symmetric_difference_update",
    "__setitem__",
    "__delitem__",
    "__iadd__",
    "__ior__",
}


def step_exprs(step: Step) -> list[ast.AST]:
    """The expression nodes evaluated by a step (not the bodies it guards)."""
    n = step.node
    if step.kind == "cond":
        return [n]
    if step.kind == "case":
        assert isinstance(n, ast.match_case)
        return [step.subject] if step.subject is not None else []
    if step.kind == "loop":
        if isinstance(n, ast.For):
            return [n.iter]
        return [n.test]  # type: ignore[union-attr]
    if isinstance(n, (ast.FunctionDef, ast.ClassDef)):
        return []
    return [n]


def path_calls(path: Path, start: int = 0, end: int | None = None) -> Iterator[tuple[int, ast.Call]]:
    """Calls evaluated along the path, in step order (lambda bodies included)."""
    steps = path.steps[start:end]
    for i, s in enumerate(steps, start):
        for e in step_exprs(s):
            calls = sorted(iter_calls(e), key=lambda c: (c.lineno, c.col_offset))
            for c in calls:
                yield i, c


def calls_named(path: Path, attr: str, start: int = 0, end: int | None = None) -> list[tuple[int, ast.Call]]:
    return [(i, c) for i, c in path_calls(path, start, end) if call_attr(c) == attr]


def case_index(path: Path, class_name: str, subject: str | None = None) -> int:
    """Index of the step where a ``case <class_name>(...)`` arm matched, or -1."""
    from .astutil import pattern_class_names

    for i, s in enumerate(path.steps):
        if s.kind == "case" and s.value:
            assert isinstance(s.node, ast.match_case)
            if subject is not None and src(s.subject) != subject:
                continue
            if class_name in [n.split(".")[-1] for n in pattern_class_names(s.node.pattern)]:
                return i
    return -1


class Slice:
    """Result of a backward slice: what the value of an expression depends on."""

    def __init__(self) -> None:
        self.chains: set[tuple[str, ...]] = set()  # attribute chains read by contributing expressions
        self.entry_names: set[str] = set()  # names still needed at function entry (params / globals)
        self.calls: list[ast.Call] = []  # calls inside contributing expressions
        self.exprs: list[ast.AST] = []

    def reads(self, *chain: str) -> bool:
        """Is the attribute chain (or an extension of it) read?"""
        n = len(chain)
        return any(c[:n] == chain for c in self.chains)

    def reads_attr(self, attr: str) -> bool:
        return any(attr in c[1:] for c in self.chains)

    def mentions(self, name: str) -> bool:
        return any(c[0] == name for c in self.chains) or name in self.entry_names


def _add_expr(sl: Slice, expr: ast.AST, needed: set[str]) -> None:
    sl.exprs.append(expr)
    sl.chains |= chains_read(expr)
    sl.calls.extend(c for c in ast.walk(expr) if isinstance(c, ast.Call))
    # string constants given to attrgetter/itemgetter name attributes that are read
    for c in ast.walk(expr):
        if isinstance(c, ast.Call) and call_attr(c) in ("attrgetter",):
            for a in c.args:
                if isinstance(a, ast.Constant) and isinstance(a.value, str):
                    sl.chains.add(("<attrgetter>",) + tuple(a.value.split(".")))
    needed |= names_read(expr)


def backward_slice(
    path: Path,
    exprs: list[ast.AST],
    upto: int | None = None,
    control: bool = False,
    start: int = 0,
) -> Slice:
    """What ``exprs`` (evaluated after step ``upto``) depend on along ``path``.

    Data dependences through assignments, walrus, pattern captures, loop
    variables and mutating method calls on a needed local; with ``control``
    every branch test on the path counts as a dependence too.
    """
    sl = Slice()
    needed: set[str] = set()
    for e in exprs:
        if e is not None:
            _add_expr(sl, e, needed)
    steps = path.steps[start:upto]
    for s in reversed(steps):
        n = s.node
        if s.kind == "stmt":
            if isinstance(n, ast.Assign):
                tn = set()
                for t in n.targets:
                    tn |= set(target_names(t))
                if tn & needed:
                    # subscripts/attributes stores keep the root needed; plain names are defined here
                    plain = {t.id for t in n.targets if isinstance(t, ast.Name)}
                    for t in n.targets:
                        if isinstance(t, (ast.Tuple, ast.List)):
                            plain |= {e.id for e in t.elts if isinstance(e, ast.Name)}
                    needed -= plain
                    _add_expr(sl, n.value, needed)
                else:
                    # store through a needed root: ``x[k] = v`` / ``x.a = v``
                    for t in n.targets:
                        if isinstance(t, (ast.Subscript, ast.Attribute)):
                            ch = attr_chain(t.value) if isinstance(t, ast.Subscript) else attr_chain(t)
                            root = ch[0] if ch else None
                            if root in needed:
                                _add_expr(sl, n.value, needed)
                                if isinstance(t, ast.Subscript):
                                    _add_expr(sl, t.slice, needed)
            elif isinstance(n, ast.AnnAssign):
                if isinstance(n.target, ast.Name) and n.target.id in needed and n.value is not None:
                    needed.discard(n.target.id)
                    _add_expr(sl, n.value, needed)
            elif isinstance(n, ast.AugAssign):
                names = set(target_names(n.target)) | ({attr_chain(n.target)[0]} if attr_chain(n.target) else set())
                if names & needed:
                    _add_expr(sl, n.value, needed)
            elif isinstance(n, ast.Expr) and isinstance(n.value, ast.Call):
                c = n.value
                if isinstance(c.func, ast.Attribute):
                    ch = attr_chain(c.func.value)
                    if ch and ch[0] in needed and c.func.attr in MUTATING_METHODS:
                        for a in list(c.args) + [k.value for k in c.keywords]:
                            _add_expr(sl, a, needed)
            elif isinstance(n, ast.Expr) and isinstance(n.value, (ast.Yield, ast.YieldFrom)):
                pass
            # walrus inside any statement
            for sub in walk_no_nested_defs(n):
                if isinstance(sub, ast.NamedExpr) and isinstance(sub.target, ast.Name) and sub.target.id in needed:
                    needed.discard(sub.target.id)
                    _add_expr(sl, sub.value, needed)
        elif s.kind == "cond":
            for sub in ast.walk(n):
                if isinstance(sub, ast.NamedExpr) and isinstance(sub.target, ast.Name) and sub.target.id in needed:
                    needed.discard(sub.target.id)
                    _add_expr(sl, sub.value, needed)
            if control:
                _add_expr(sl, n, needed)
        elif s.kind == "case":
            assert isinstance(n, ast.match_case)
            if s.value:
                caps = pattern_captures(n.pattern)
                hit = set(caps) & needed
                if hit and s.subject is not None:
                    subj = attr_chain(s.subject)
                    for name in hit:
                        needed.discard(name)
                        access = tuple(a for a in caps[name])
                        if subj is not None:
                            sl.chains.add(subj + access)
                    _add_expr(sl, s.subject, needed)
                if control and s.subject is not None:
                    _add_expr(sl, s.subject, needed)
        elif s.kind == "loop":
            if isinstance(n, ast.For) and s.value:
                tn = set(target_names(n.target))
                if tn & needed:
                    needed -= tn
                    _add_expr(sl, n.iter, needed)
                elif control:
                    _add_expr(sl, n.iter, needed)
            elif isinstance(n, ast.While) and control:
                _add_expr(sl, n.test, needed)
            elif isinstance(n, ast.For) and control:
                _add_expr(sl, n.iter, needed)
    sl.entry_names = set(needed)
    return sl


def returned_exprs(path: Path) -> list[ast.AST]:
    """Return value plus everything yielded on the path (for generator functions)."""
    out: list[ast.AST] = []
    if path.outcome == "return" and path.value is not None:
        out.append(path.value)
    for s in path.steps:
        if s.kind == "stmt":
            for sub in walk_no_nested_defs(s.node):
                if isinstance(sub, (ast.Yield, ast.YieldFrom)) and sub.value is not None:
                    out.append(sub.value)
    return out


# ------------------------------------------------------------------------- freshness

FRESH_CALLS = {
    "list",
    "dict",
    "set",
    "frozenset",
    "tuple",
    "sorted",
    "reversed",
    "enumerate",
    "zip",
    "map",
    "filter",
    "range",
    "str",
    "int",
    "bool",
    "float",
    "len",
    "repr",
    "max",
    "min",
    "sum",
    "any",
    "all",
    "iter",
    "id",
    "isinstance",
    "getattr",
    "type",
}
FRESH_METHODS = {
    "copy",
    "union",
    "intersection",
    "difference",
    "symmetric_difference",
    "items",
    "keys",
    "values",
    "join",
    "format",
    "split",
    "encode",
    "subquery",
    "label",
    "select_from",
}


def is_fresh_expr(node: ast.AST, fresh_names: set[str], fresh_funcs: set[str] = frozenset()) -> bool:
    """Does evaluating ``node`` always produce an object no one else holds?"""
    if isinstance(node, (ast.List, ast.Dict, ast.Set, ast.Tuple, ast.ListComp, ast.SetComp, ast.DictComp, ast.GeneratorExp)):
        return True
    if isinstance(node, (ast.Constant, ast.JoinedStr, ast.Lambda)):
        return True
    if isinstance(node, (ast.BinOp, ast.UnaryOp, ast.BoolOp, ast.Compare)):
        if isinstance(node, ast.BoolOp):
            return all(is_fresh_expr(v, fresh_names, fresh_funcs) for v in node.values)
        return True
    if isinstance(node, ast.IfExp):
        return is_fresh_expr(node.body, fresh_names, fresh_funcs) and is_fresh_expr(node.orelse, fresh_names, fresh_funcs)
    if isinstance(node, ast.NamedExpr):
        return is_fresh_expr(node.value, fresh_names, fresh_funcs)
    if isinstance(node, ast.Name):
        return node.id in fresh_names
    if isinstance(node, ast.Call):
        f = node.func
        if isinstance(f, ast.Name):
            if f.id in FRESH_CALLS or f.id in fresh_funcs:
                return True
            if f.id and f.id[0].isupper():
                return True  # constructor
            if f.id == "cast" and len(node.args) == 2:
                return is_fresh_expr(node.args[1], fresh_names, fresh_funcs)
        if isinstance(f, ast.Attribute):
            if f.attr in FRESH_METHODS or f.attr in fresh_funcs:
                return True
            if f.attr[:1].isupper():
                return True
            if f.attr == "replace" and src(f.value) == "dataclasses":
                return True
        if isinstance(f, ast.Subscript):  # Payload[_L](...)
            return True
    return False


def field_access(path: Path, e: ast.AST | None, index: int | None = None, depth: int = 6) -> tuple[str, tuple[str, ...]] | None:
    """What ``e`` denotes as (root text, attribute path): a pattern capture ``case K(target=t)`` of subject ``s`` gives
    ``('s', ('target',))``, so do the attribute ``s.target`` itself and a local last bound to either.  None when ``e``
    is not a (copy of a) pure attribute chain."""
    from .paths import env_at

    if e is None or depth < 0:
        return None
    if isinstance(e, ast.NamedExpr):
        e = e.value
    chain: list[str] = []
    cur = e
    while isinstance(cur, ast.Attribute):
        chain.append(cur.attr)
        cur = cur.value
    if not isinstance(cur, ast.Name):
        return None
    chain.reverse()
    b = env_at(path, index).get(cur.id)
    if isinstance(b, tuple) and b[0] == "capture":
        root = field_access(path, b[1], index, depth - 1)
        if root is None:
            return None
        return root[0], root[1] + tuple(b[2]) + tuple(chain)
    if isinstance(b, ast.expr) and not (isinstance(b, ast.Name) and b.id == cur.id):
        root = field_access(path, b, index, depth - 1)
        if root is None:
            return None
        return root[0], root[1] + tuple(chain)
    if b is not None:
        return None
    return cur.id, tuple(chain)


def expanded_value(path: Path) -> ast.expr | None:
    """The returned/raised expression with every single-assignment local replaced by what it stands for."""
    from .boolfn import path_condition
    from .facts import _substitute

    v = path.value
    if v is None:
        return None
    _, defs = path_condition(path)
    return _substitute(v, defs) or v


def denotes(path: Path, e: ast.AST | None, subject: str, access: tuple[str, ...], index: int | None = None) -> bool:
    """Does ``e`` denote ``<subject>.<access...>`` on this path?"""
    fa = field_access(path, e, index)
    if fa is None:
        return False
    sa = field_access(path, ast.parse(subject, mode="eval").body, index)
    if sa is None:
        return False
    return fa[0] == sa[0] and fa[1] == sa[1] + tuple(access)
