"""Apply a unified diff (as produced by `git diff`) to an in-memory SourceSet; None if it does not apply exactly."""

from __future__ import annotations

import re

from ..model import PKG_SUBDIR, SourceSet

_HUNK = re.compile(r"^@@ -(\d+)(?:,(\d+))? \+(\d+)(?:,(\d+))? @@")


def apply_diff(sources: SourceSet, diff_text: str) -> SourceSet | None:
    files = dict(sources.files)
    cur: str | None = None
    hunks: dict[str, list[tuple[int, list[str]]]] = {}
    lines = diff_text.splitlines()
    i = 0
    while i < len(lines):
        ln = lines[i]
        if ln.startswith("+++ "):
            path = ln[4:].strip()
            if path.startswith("b/"):
                path = path[2:]
            if path == "/dev/null":
                return None
            if not path.startswith(PKG_SUBDIR + "/"):
                cur = None
            else:
                cur = path[len(PKG_SUBDIR) + 1 :]
                hunks.setdefault(cur, [])
            i += 1
            continue
        m = _HUNK.match(ln)
        if m and cur is not None:
            start = int(m.group(1))
            body = []
            i += 1
            while i < len(lines) and not lines[i].startswith(("@@", "diff --git", "--- ", "+++ ")):
                if lines[i].startswith("\\"):
                    i += 1
                    continue
                body.append(lines[i])
                i += 1
            hunks[cur].append((start, body))
            continue
        i += 1
    if not hunks:
        return None
    for rel, hs in hunks.items():
        if rel not in files:
            return None
        src_lines = files[rel].split("\n")
        out: list[str] = []
        pos = 0  # index into src_lines
        for start, body in hs:
            # like patch(1): the hunk may have moved; take the nearest place (not before the previous hunk) where all
            # of its context and removed lines match exactly
            old = [(b[1:] if b else "") for b in body if (b[:1] if b else " ") in (" ", "-")]
            nominal = start - 1
            idx = None
            for k in range(0, len(src_lines) + 1):
                for cand in (nominal + k, nominal - k) if k else (nominal,):
                    if cand >= pos and cand + len(old) <= len(src_lines) and src_lines[cand : cand + len(old)] == old:
                        idx = cand
                        break
                if idx is not None:
                    break
            if idx is None:
                return None
            out.extend(src_lines[pos:idx])
            pos = idx
            for b in body:
                tag, text = (b[:1], b[1:]) if b else (" ", "")
                if tag == " ":
                    if pos >= len(src_lines) or src_lines[pos] != text:
                        return None
                    out.append(text)
                    pos += 1
                elif tag == "-":
                    if pos >= len(src_lines) or src_lines[pos] != text:
                        return None
                    pos += 1
                elif tag == "+":
                    out.append(text)
                else:
                    return None
        out.extend(src_lines[pos:])
        files[rel] = "\n".join(out)
    return SourceSet(files, sources.root)
