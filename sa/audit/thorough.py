"""Thorough tier: the quick rules on the working tree plus the sensitivity audit."""

from __future__ import annotations

import os
import traceback
from concurrent.futures import ProcessPoolExecutor

from ..astutil import AnalysisError
from ..model import SourceSet
from ..report import analysis_error
from . import catalogue


def _eval_mutant(args):
    prop, mid = args
    from ..cli import build_run

    m = next(x for x in catalogue.MUTANTS if x.id == mid)
    base = SourceSet.load()
    if m.rel not in base.files:
        return mid, "skipped", "module missing", []
    text = catalogue.apply(m, base.files[m.rel])
    if text is None:
        return mid, "skipped", "anchor text not found exactly once", []
    try:
        import ast

        ast.parse(text)
    except SyntaxError as e:
        return mid, "skipped", f"variant does not parse: {e}", []
    try:
        run = build_run(prop, "quick", base.with_override(m.rel, text))
        new, _matched, short = run.classify()
    except AnalysisError as e:
        return mid, "analysis-error", str(e), []
    except Exception as e:  # pragma: no cover
        return mid, "crash", "".join(traceback.format_exception_only(type(e), e)).strip(), []
    rules = sorted({v.rule for v in new})
    if short and not new:
        return mid, "analysis-error", "; ".join(short), []
    return mid, ("fired" if new else "silent"), "", rules


def _eval_variant(args):
    prop, name = args
    from ..cli import build_run
    from .variants import VARIANTS

    base = SourceSet.load()
    try:
        v = VARIANTS[name](base)
        run = build_run(prop, "quick", v)
        new, _m, short = run.classify()
    except AnalysisError as e:
        return name, "analysis-error", str(e), []
    except Exception as e:  # pragma: no cover
        return name, "crash", "".join(traceback.format_exception_only(type(e), e)).strip(), []
    if short:
        return name, "analysis-error", "; ".join(short), []
    return name, ("fired" if new else "silent"), "", sorted({x.rule for x in new})


def _benign_dir() -> str:
    return os.path.join(os.path.dirname(os.path.dirname(os.path.dirname(os.path.abspath(__file__)))), "seeded", "benign")


def _eval_benign(args):
    prop, fname = args
    from ..cli import build_run
    from .udiff import apply_diff

    base = SourceSet.load()
    try:
        with open(os.path.join(_benign_dir(), fname), encoding="utf-8") as f:
            v = apply_diff(base, f.read())
    except OSError:
        v = None
    if v is None:
        return fname, "skipped", "patch does not apply to the current tree", []
    try:
        run = build_run(prop, "quick", v)
        new, _m, short = run.classify()
    except AnalysisError as e:
        return fname, "analysis-error", str(e), []
    except Exception as e:  # pragma: no cover
        return fname, "crash", "".join(traceback.format_exception_only(type(e), e)).strip(), []
    if short:
        return fname, "analysis-error", "; ".join(short), []
    return fname, ("fired" if new else "silent"), "", sorted({x.rule for x in new})


def _seed_dir() -> str:
    return os.path.join(os.path.dirname(os.path.dirname(os.path.dirname(os.path.abspath(__file__)))), "seeded")


def _eval_seed(args):
    """Apply an independently seeded, dynamically confirmed breaking change in memory; the property must report it."""
    prop, sid = args
    from ..cli import build_run
    from .udiff import apply_diff

    base = SourceSet.load()
    try:
        with open(os.path.join(_seed_dir(), sid, "patch.diff"), encoding="utf-8") as f:
            v = apply_diff(base, f.read())
    except OSError:
        v = None
    if v is None:
        return sid, "skipped", "patch does not apply to the current tree", []
    from .. import report as _report

    try:
        run = build_run(prop, "quick", v)
        new, _m, short = run.classify()
    except AnalysisError as e:
        cur = _report.CURRENT
        if cur is not None and cur.prop == prop:
            new, _m, _s = cur.classify()
            if new:
                return sid, "fired", f"(analysis stopped afterwards: {e})", sorted({x.rule for x in new})
        return sid, "analysis-error", str(e), []
    except Exception as e:  # pragma: no cover
        return sid, "crash", "".join(traceback.format_exception_only(type(e), e)).strip(), []
    if new:
        return sid, "fired", "", sorted({x.rule for x in new})
    if short:
        return sid, "analysis-error", "; ".join(short), []
    return sid, "silent", "", []


def run(prop: str) -> int:
    from ..cli import build_run, load_prop

    mod = load_prop(prop)
    level = getattr(mod, "LEVEL", "other")
    try:
        main = build_run(prop, "thorough")
    except AnalysisError as e:
        return analysis_error(prop, "thorough", level, e)
    except Exception as e:
        traceback.print_exc()
        return analysis_error(prop, "thorough", level, e)

    mutants = catalogue.for_prop(prop)
    results = []
    if mutants:
        jobs = [(prop, m.id) for m in mutants]
        workers = min(len(jobs), os.cpu_count() or 4, 16)
        try:
            with ProcessPoolExecutor(max_workers=workers) as ex:
                results = list(ex.map(_eval_mutant, jobs))
        except Exception:
            results = [_eval_mutant(j) for j in jobs]
    from .variants import VARIANTS

    vjobs = [(prop, name) for name in VARIANTS]
    try:
        with ProcessPoolExecutor(max_workers=len(vjobs)) as ex:
            vresults = list(ex.map(_eval_variant, vjobs))
    except Exception:
        vresults = [_eval_variant(j) for j in vjobs]
    bfiles = sorted(f for f in os.listdir(_benign_dir()) if f.endswith(".diff")) if os.path.isdir(_benign_dir()) else []
    bjobs = [(prop, f) for f in bfiles]
    bresults = []
    if bjobs:
        try:
            with ProcessPoolExecutor(max_workers=min(len(bjobs), os.cpu_count() or 4, 16)) as ex:
                bresults = list(ex.map(_eval_benign, bjobs))
        except Exception:
            bresults = [_eval_benign(j) for j in bjobs]
    # independently seeded changes filed for this property (seeded/<id>/: patch, demonstration, meta)
    import json as _json

    sids = []
    if os.path.isdir(_seed_dir()):
        for sid in sorted(os.listdir(_seed_dir())):
            mp = os.path.join(_seed_dir(), sid, "meta.json")
            if os.path.exists(mp):
                try:
                    with open(mp, encoding="utf-8") as f:
                        if _json.load(f).get("breaks_property") == prop:
                            sids.append(sid)
                except (OSError, ValueError):
                    pass
    sresults = []
    if sids:
        sjobs = [(prop, sid) for sid in sids]
        try:
            with ProcessPoolExecutor(max_workers=min(len(sjobs), os.cpu_count() or 4, 16)) as ex:
                sresults = list(ex.map(_eval_seed, sjobs))
        except Exception:
            sresults = [_eval_seed(j) for j in sjobs]
    by_id = {m.id: m for m in mutants}
    killed = survived = twins_ok = twins_flagged = skipped = 0
    problems: list[str] = []
    table = []
    seeds_reported = seeds_skipped = 0
    for sid, status, info, rules in sresults:
        table.append({"id": f"seeded:{sid}", "expect": "fire", "status": status, "rules": rules, "info": info})
        if status == "fired":
            seeds_reported += 1
            killed += 1
        elif status == "skipped":
            seeds_skipped += 1
            skipped += 1
        else:
            survived += 1
            problems.append(f"seeded change {sid} (confirmed to break {prop}) was not reported ({status} {info})")
    for mid, status, info, rules in results:
        m = by_id[mid]
        table.append({"id": mid, "expect": m.expect, "status": status, "rules": rules, "info": info})
        if status == "skipped":
            skipped += 1
            continue
        if m.expect == "fire":
            # an analysis error is also a refusal to pass the broken variant
            if status == "fired" and (m.rule is None or m.rule in rules):
                killed += 1
            elif status == "analysis-error":
                killed += 1
            elif status == "fired":
                killed += 1
                main.note(f"audit: mutant {mid} was reported by {rules}, not by the expected {m.rule}")
            else:
                survived += 1
                problems.append(f"catalogued mutant {mid} was not reported ({status} {info})")
        else:
            if status == "silent":
                twins_ok += 1
            else:
                twins_flagged += 1
                problems.append(f"behaviour-preserving twin {mid} was flagged ({status} {rules} {info})")
    for name, status, info, rules in vresults:
        table.append({"id": f"variant:{name}", "expect": "silent", "status": status, "rules": rules, "info": info})
        if status == "silent":
            twins_ok += 1
        else:
            twins_flagged += 1
            problems.append(f"whole-package behaviour-preserving variant `{name}` was flagged ({status} {rules} {info})")
    benign_ok = benign_skipped = 0
    for fname, status, info, rules in bresults:
        table.append({"id": f"benign:{fname}", "expect": "silent", "status": status, "rules": rules, "info": info})
        if status == "silent":
            twins_ok += 1
            benign_ok += 1
        elif status == "skipped":
            skipped += 1
            benign_skipped += 1
        else:
            twins_flagged += 1
            problems.append(f"agent-written behaviour-preserving refactoring {fname} was flagged ({status} {rules} {info})")
    main.extra["sensitivity_audit"] = {
        "mutants": len([m for m in mutants if m.expect == "fire"]) + len(sresults),
        "killed": killed,
        "survived": survived,
        "twins": len([m for m in mutants if m.expect == "silent"]) + len(vresults) + len(bresults),
        "whole_package_variants": [name for name, *_ in vresults],
        "benign_refactorings": {"files": len(bresults), "silent": benign_ok, "skipped": benign_skipped},
        "seeded_changes": {"files": len(sresults), "reported": seeds_reported, "skipped": seeds_skipped},
        "twins_silent": twins_ok,
        "twins_flagged": twins_flagged,
        "skipped": skipped,
        "results": table,
        "method": "each catalogue entry is a single-site text edit applied in memory to the parsed working tree; "
        "the property's quick rules are re-run on the variant; nothing is written to disk or executed",
    }
    main.note(
        f"sensitivity audit: {killed}/{killed + survived} mutants reported, "
        f"{twins_ok}/{twins_ok + twins_flagged} behaviour-preserving twins silent, {skipped} skipped"
    )
    code = main.finish()
    if problems and code == 0:
        for p in problems:
            print(f"ANALYSIS-ERROR property={prop} audit: {p}")
        return 2
    return code
