"""Whole-package behaviour-preserving variants used as global "twins" in the thorough tier.

* ``reformat``  - every module re-emitted with ``ast.unparse`` (comments, layout and line numbers change);
* ``rename``    - every function-local name (assigned locals, pattern captures, loop and walrus targets,
                  comprehension variables) alpha-renamed; parameters, attributes and globals are untouched.

Both are computed in memory from the parsed working tree; no rule may report anything on them.
"""

from __future__ import annotations

import ast
import builtins

from ..model import SourceSet

_BUILTINS = set(dir(builtins))


def reformat(sources: SourceSet) -> SourceSet:
    out = {}
    for rel, text in sources.files.items():
        try:
            out[rel] = ast.unparse(ast.parse(text)) + "\n"
        except SyntaxError:
            out[rel] = text
    return SourceSet(out, sources.root)


class _Locals(ast.NodeVisitor):
    """Names bound inside one function body (its own scope and nested comprehension/lambda scopes)."""

    def __init__(self) -> None:
        self.stored: set[str] = set()
        self.params: set[str] = set()
        self.globals_: set[str] = set()

    def visit_FunctionDef(self, node):  # nested def: its name is a local, its body is handled separately
        self.stored.add(node.name)

    visit_AsyncFunctionDef = visit_FunctionDef

    def visit_ClassDef(self, node):
        self.stored.add(node.name)

    def visit_Lambda(self, node):
        for a in node.args.posonlyargs + node.args.args + node.args.kwonlyargs:
            self.params.add(a.arg)
        self.generic_visit(node)

    def visit_Global(self, node):
        self.globals_.update(node.names)

    visit_Nonlocal = visit_Global

    def visit_Name(self, node):
        if isinstance(node.ctx, (ast.Store, ast.Del)):
            self.stored.add(node.id)

    def visit_MatchAs(self, node):
        if node.name:
            self.stored.add(node.name)
        self.generic_visit(node)

    def visit_MatchStar(self, node):
        if node.name:
            self.stored.add(node.name)

    def visit_MatchMapping(self, node):
        if node.rest:
            self.stored.add(node.rest)
        self.generic_visit(node)

    def visit_Import(self, node):
        pass  # imported names stay as they are

    visit_ImportFrom = visit_Import


class _Renamer(ast.NodeTransformer):
    def __init__(self, mapping: dict[str, str]):
        self.mapping = mapping

    def visit_Name(self, node):
        if node.id in self.mapping:
            return ast.copy_location(ast.Name(self.mapping[node.id], node.ctx), node)
        return node

    def visit_MatchAs(self, node):
        self.generic_visit(node)
        if node.name in self.mapping:
            node.name = self.mapping[node.name]
        return node

    def visit_MatchStar(self, node):
        if node.name in self.mapping:
            node.name = self.mapping[node.name]
        return node

    def visit_FunctionDef(self, node):
        # do not descend into nested function definitions (their own scope is renamed separately)
        return node

    visit_AsyncFunctionDef = visit_FunctionDef


def _rename_function(fn: ast.FunctionDef) -> None:
    a = fn.args
    params = {x.arg for x in a.posonlyargs + a.args + a.kwonlyargs}
    if a.vararg:
        params.add(a.vararg.arg)
    if a.kwarg:
        params.add(a.kwarg.arg)
    loc = _Locals()
    for stmt in fn.body:
        loc.visit(stmt)
    imported = set()
    for n in ast.walk(fn):
        if isinstance(n, (ast.Import, ast.ImportFrom)):
            for al in n.names:
                imported.add((al.asname or al.name).split(".")[0])
    names = {n for n in loc.stored if n not in params and n not in loc.params and n not in loc.globals_ and n not in imported and n not in _BUILTINS and not n.startswith("__")}
    # names of nested defs are kept (they may be referenced from the nested scope we do not rewrite)
    names -= {n.name for n in ast.walk(fn) if isinstance(n, (ast.FunctionDef, ast.AsyncFunctionDef, ast.ClassDef)) and n is not fn}
    # a local that is also read inside a nested def must keep its name
    for n in ast.walk(fn):
        if isinstance(n, (ast.FunctionDef, ast.AsyncFunctionDef)) and n is not fn:
            for m in ast.walk(n):
                if isinstance(m, ast.Name):
                    names.discard(m.id)
    mapping = {n: f"{n}_rn" for n in sorted(names)}
    if not mapping:
        return
    r = _Renamer(mapping)
    fn.body = [r.visit(s) for s in fn.body]


def rename_locals(sources: SourceSet) -> SourceSet:
    out = {}
    for rel, text in sources.files.items():
        try:
            tree = ast.parse(text)
        except SyntaxError:
            out[rel] = text
            continue
        for n in ast.walk(tree):
            if isinstance(n, (ast.FunctionDef, ast.AsyncFunctionDef)):
                _rename_function(n)
        ast.fix_missing_locations(tree)
        out[rel] = ast.unparse(tree) + "\n"
    return SourceSet(out, sources.root)


VARIANTS = {"reformat": reformat, "rename-locals": rename_locals}


# ------------------------------------------------------------------ more whole-package variants


class _InvertIfs(ast.NodeTransformer):
    """``if c: A else: B``  ->  ``if not c: B else: A`` (only two-armed ifs whose else is not an elif chain)."""

    def visit_If(self, node):
        self.generic_visit(node)
        if node.orelse and not (len(node.orelse) == 1 and isinstance(node.orelse[0], ast.If)):
            test = node.test.operand if isinstance(node.test, ast.UnaryOp) and isinstance(node.test.op, ast.Not) else ast.UnaryOp(op=ast.Not(), operand=node.test)
            return ast.copy_location(ast.If(test=test, body=node.orelse, orelse=node.body), node)
        return node


def invert_ifs(sources: SourceSet) -> SourceSet:
    out = {}
    for rel, text in sources.files.items():
        tree = _InvertIfs().visit(ast.parse(text))
        ast.fix_missing_locations(tree)
        out[rel] = ast.unparse(tree) + "\n"
    return SourceSet(out, sources.root)


class _SplitWalrus(ast.NodeTransformer):
    """``if (x := e) <op> ...:``  ->  ``x = e`` ; ``if x <op> ...:`` when the walrus is evaluated first in the test."""

    def _first_walrus(self, test: ast.expr):
        # the walrus must be the left-most evaluated sub-expression
        node = test
        while True:
            if isinstance(node, ast.NamedExpr):
                return node
            if isinstance(node, ast.Compare):
                node = node.left
            elif isinstance(node, ast.BoolOp):
                node = node.values[0]
            elif isinstance(node, ast.UnaryOp):
                node = node.operand
            elif isinstance(node, ast.Attribute):
                node = node.value
            else:
                return None

    def _block(self, stmts):
        out = []
        for s in stmts:
            if isinstance(s, ast.If):
                w = self._first_walrus(s.test)
                if w is not None and isinstance(w.target, ast.Name):
                    assign = ast.copy_location(ast.Assign(targets=[ast.Name(w.target.id, ast.Store())], value=w.value), s)

                    class R(ast.NodeTransformer):
                        def visit_NamedExpr(self, n):  # noqa: N802
                            return ast.Name(n.target.id, ast.Load()) if n is w else n

                    s.test = R().visit(s.test)
                    out.append(assign)
            out.append(s)
        return out

    def generic_visit(self, node):
        super().generic_visit(node)
        for field in ("body", "orelse"):
            v = getattr(node, field, None)
            if isinstance(v, list) and v and isinstance(v[0], ast.stmt):
                setattr(node, field, self._block(v))
        if isinstance(node, ast.Match):
            for c in node.cases:
                c.body = self._block(c.body)
        return node


def split_walrus(sources: SourceSet) -> SourceSet:
    out = {}
    for rel, text in sources.files.items():
        tree = _SplitWalrus().visit(ast.parse(text))
        ast.fix_missing_locations(tree)
        out[rel] = ast.unparse(tree) + "\n"
    return SourceSet(out, sources.root)


class _MatchToIsinstance(ast.NodeTransformer):
    """``match x: case A(): .. case B() | C(): .. case _: ..`` with capture-free class patterns -> isinstance chain."""

    def _class_exprs(self, p: ast.pattern):
        if isinstance(p, ast.MatchClass) and not p.patterns and not p.kwd_patterns:
            return [p.cls]
        if isinstance(p, ast.MatchOr):
            out = []
            for x in p.patterns:
                r = self._class_exprs(x)
                if r is None:
                    return None
                out.extend(r)
            return out
        return None

    def visit_Match(self, node):
        self.generic_visit(node)
        subj = node.subject
        s = subj
        while isinstance(s, ast.Attribute):
            s = s.value
        if not isinstance(s, ast.Name):
            return node
        arms = []
        default = None
        for c in node.cases:
            if isinstance(c.pattern, ast.MatchAs) and c.pattern.pattern is None and c.pattern.name is None and c.guard is None:
                default = c.body
                break
            ce = self._class_exprs(c.pattern)
            if ce is None:
                return node
            test: ast.expr = ast.Call(func=ast.Name("isinstance", ast.Load()), args=[subj, ce[0] if len(ce) == 1 else ast.Tuple(elts=ce, ctx=ast.Load())], keywords=[])
            if c.guard is not None:
                test = ast.BoolOp(op=ast.And(), values=[test, c.guard])
            arms.append((test, c.body))
        if not arms:
            return node
        orelse = default or []
        for test, body in reversed(arms):
            orelse = [ast.If(test=test, body=body, orelse=orelse)]
        return ast.copy_location(orelse[0], node)


def match_to_isinstance(sources: SourceSet) -> SourceSet:
    out = {}
    for rel, text in sources.files.items():
        tree = _MatchToIsinstance().visit(ast.parse(text))
        ast.fix_missing_locations(tree)
        out[rel] = ast.unparse(tree) + "\n"
    return SourceSet(out, sources.root)


VARIANTS.update({"invert-ifs": invert_ifs, "split-walrus": split_walrus, "match-to-isinstance": match_to_isinstance})


class _DropElseAfterReturn(ast.NodeTransformer):
    """``if c: ...return/raise`` + ``else: B``  ->  ``if c: ...`` followed by B (guard-clause style)."""

    def _closed(self, stmts):
        if not stmts:
            return False
        last = stmts[-1]
        if isinstance(last, (ast.Return, ast.Raise)):
            return True
        if isinstance(last, ast.If):
            return bool(last.orelse) and self._closed(last.body) and self._closed(last.orelse)
        return False

    def _block(self, stmts):
        out = []
        for s in stmts:
            if isinstance(s, ast.If) and s.orelse and self._closed(s.body):
                rest = s.orelse
                s.orelse = []
                out.append(s)
                out.extend(rest)
            else:
                out.append(s)
        return out

    def generic_visit(self, node):
        super().generic_visit(node)
        for field in ("body", "orelse"):
            v = getattr(node, field, None)
            if isinstance(v, list) and v and isinstance(v[0], ast.stmt):
                setattr(node, field, self._block(v))
        if isinstance(node, ast.Match):
            for c in node.cases:
                c.body = self._block(c.body)
        return node


def guard_clauses(sources: SourceSet) -> SourceSet:
    out = {}
    for rel, text in sources.files.items():
        tree = _DropElseAfterReturn().visit(ast.parse(text))
        ast.fix_missing_locations(tree)
        out[rel] = ast.unparse(tree) + "\n"
    return SourceSet(out, sources.root)


class _SplitAnd(ast.NodeTransformer):
    """``if a and b: X`` (no else)  ->  ``if a:`` ``if b: X``."""

    def visit_If(self, node):
        self.generic_visit(node)
        if not node.orelse and isinstance(node.test, ast.BoolOp) and isinstance(node.test.op, ast.And) and len(node.test.values) == 2:
            inner = ast.If(test=node.test.values[1], body=node.body, orelse=[])
            return ast.copy_location(ast.If(test=node.test.values[0], body=[inner], orelse=[]), node)
        return node


def split_and(sources: SourceSet) -> SourceSet:
    out = {}
    for rel, text in sources.files.items():
        tree = _SplitAnd().visit(ast.parse(text))
        ast.fix_missing_locations(tree)
        out[rel] = ast.unparse(tree) + "\n"
    return SourceSet(out, sources.root)


class _ReturnTemp(ast.NodeTransformer):
    """``return <call or other compound expression>``  ->  ``_result = <expr>`` ; ``return _result``."""

    def _block(self, stmts):
        out = []
        for s in stmts:
            if isinstance(s, ast.Return) and isinstance(s.value, (ast.Call, ast.BinOp, ast.Tuple, ast.BoolOp, ast.Compare)) and not any(isinstance(n, (ast.Yield, ast.YieldFrom)) for n in ast.walk(s)):
                out.append(ast.copy_location(ast.Assign(targets=[ast.Name("result_tmp", ast.Store())], value=s.value), s))
                out.append(ast.copy_location(ast.Return(value=ast.Name("result_tmp", ast.Load())), s))
            else:
                out.append(s)
        return out

    def generic_visit(self, node):
        super().generic_visit(node)
        for field in ("body", "orelse"):
            v = getattr(node, field, None)
            if isinstance(v, list) and v and isinstance(v[0], ast.stmt) and not isinstance(node, (ast.Module, ast.ClassDef)):
                setattr(node, field, self._block(v))
        if isinstance(node, ast.Match):
            for c in node.cases:
                c.body = self._block(c.body)
        return node


def return_temp(sources: SourceSet) -> SourceSet:
    out = {}
    for rel, text in sources.files.items():
        tree = _ReturnTemp().visit(ast.parse(text))
        ast.fix_missing_locations(tree)
        out[rel] = ast.unparse(tree) + "\n"
    return SourceSet(out, sources.root)


VARIANTS.update({"guard-clauses": guard_clauses, "split-and": split_and, "return-temp": return_temp})


class _CapturesToAliases(ast.NodeTransformer):
    """``case K(x=a, y=b): ...``  ->  ``case K(): a = subject.x; b = subject.y; ...`` for plain captures."""

    def visit_Match(self, node: ast.Match):
        self.generic_visit(node)
        s = node.subject
        e = s
        while isinstance(e, ast.Attribute):
            e = e.value
        if not isinstance(e, ast.Name):
            return node
        for c in node.cases:
            pat = c.pattern
            if not isinstance(pat, ast.MatchClass) or pat.patterns:
                continue
            guard_names = {n.id for n in ast.walk(c.guard) if isinstance(n, ast.Name)} if c.guard is not None else set()
            keep_a, keep_p, pre = [], [], []
            for a, q in zip(pat.kwd_attrs, pat.kwd_patterns):
                if isinstance(q, ast.MatchAs) and q.pattern is None and q.name and q.name not in guard_names:
                    pre.append(ast.Assign(targets=[ast.Name(q.name, ast.Store())], value=ast.Attribute(value=s, attr=a, ctx=ast.Load()), lineno=c.body[0].lineno))
                else:
                    keep_a.append(a)
                    keep_p.append(q)
            if pre:
                pat.kwd_attrs, pat.kwd_patterns = keep_a, keep_p
                c.body = pre + c.body
        return node


def captures_to_aliases(sources: SourceSet) -> SourceSet:
    out = {}
    for rel, text in sources.files.items():
        tree = _CapturesToAliases().visit(ast.parse(text))
        ast.fix_missing_locations(tree)
        out[rel] = ast.unparse(tree) + "\n"
    return SourceSet(out, sources.root)


class _ComprehensionToLoop(ast.NodeTransformer):
    """``x = [e for t in it if c]`` / ``{k: v for ...}`` / ``{e for ...}``  ->  empty container + accumulator loop."""

    def visit_FunctionDef(self, fn: ast.FunctionDef):
        self.generic_visit(fn)
        all_names: dict[str, int] = {}
        for n in ast.walk(fn):
            if isinstance(n, ast.Name):
                all_names[n.id] = all_names.get(n.id, 0) + 1
            elif isinstance(n, ast.arg):
                all_names[n.arg] = all_names.get(n.arg, 0) + 1

        def conv(stmts):
            out = []
            for s in stmts:
                v = s.value if isinstance(s, ast.Assign) and len(s.targets) == 1 and isinstance(s.targets[0], ast.Name) else None
                if isinstance(v, (ast.ListComp, ast.SetComp, ast.DictComp)) and len(v.generators) == 1 and len(v.generators[0].ifs) <= 1 and not v.generators[0].is_async:
                    g = v.generators[0]
                    inner = {n.id for n in ast.walk(g.target) if isinstance(n, ast.Name)}
                    uses_inside = {}
                    for n in ast.walk(v):
                        if isinstance(n, ast.Name) and n.id in inner:
                            uses_inside[n.id] = uses_inside.get(n.id, 0) + 1
                    acc = s.targets[0].id
                    nested_scope = any(isinstance(n, (ast.Lambda, ast.ListComp, ast.SetComp, ast.DictComp, ast.GeneratorExp)) and n is not v for n in ast.walk(v))
                    if all(all_names.get(nm, 0) == uses_inside.get(nm, 0) for nm in inner) and acc not in {n.id for n in ast.walk(v) if isinstance(n, ast.Name)} and not nested_scope:
                        if isinstance(v, ast.DictComp):
                            init = ast.Dict(keys=[], values=[])
                            step = ast.Assign(targets=[ast.Subscript(value=ast.Name(acc, ast.Load()), slice=v.key, ctx=ast.Store())], value=v.value, lineno=s.lineno)
                        elif isinstance(v, ast.ListComp):
                            init = ast.List(elts=[], ctx=ast.Load())
                            step = ast.Expr(value=ast.Call(func=ast.Attribute(value=ast.Name(acc, ast.Load()), attr="append", ctx=ast.Load()), args=[v.elt], keywords=[]))
                        else:
                            init = ast.Call(func=ast.Name("set", ast.Load()), args=[], keywords=[])
                            step = ast.Expr(value=ast.Call(func=ast.Attribute(value=ast.Name(acc, ast.Load()), attr="add", ctx=ast.Load()), args=[v.elt], keywords=[]))
                        body = [step]
                        if g.ifs:
                            body = [ast.If(test=g.ifs[0], body=[step], orelse=[])]
                        out.append(ast.copy_location(ast.Assign(targets=[ast.Name(acc, ast.Store())], value=init, lineno=s.lineno), s))
                        out.append(ast.copy_location(ast.For(target=g.target, iter=g.iter, body=body, orelse=[], lineno=s.lineno), s))
                        continue
                out.append(s)
            return out

        def walk(node):
            for field in ("body", "orelse"):
                v = getattr(node, field, None)
                if isinstance(v, list) and v and isinstance(v[0], ast.stmt):
                    for x in v:
                        if not isinstance(x, (ast.FunctionDef, ast.ClassDef)):
                            walk(x)
                    setattr(node, field, conv(v))
            if isinstance(node, ast.Match):
                for c in node.cases:
                    for x in c.body:
                        walk(x)
                    c.body = conv(c.body)

        walk(fn)
        return fn


def comprehension_to_loop(sources: SourceSet) -> SourceSet:
    out = {}
    for rel, text in sources.files.items():
        tree = _ComprehensionToLoop().visit(ast.parse(text))
        ast.fix_missing_locations(tree)
        out[rel] = ast.unparse(tree) + "\n"
    return SourceSet(out, sources.root)


def _closed(stmts) -> bool:
    if not stmts:
        return False
    last = stmts[-1]
    if isinstance(last, (ast.Return, ast.Raise)):
        return True
    if isinstance(last, ast.If):
        return bool(last.orelse) and _closed(last.body) and _closed(last.orelse)
    if isinstance(last, ast.Match):
        return any(c.guard is None and isinstance(c.pattern, ast.MatchAs) and c.pattern.pattern is None for c in last.cases) and all(_closed(c.body) for c in last.cases)
    return False


class _ExtractArms(ast.NodeTransformer):
    """Every closed ``case`` arm (>= 3 statements) of a method becomes a private method of its own ("extract method").
    Only names that are definitely assigned before the arm (parameters, captures of the enclosing patterns, straight-line
    assignments of enclosing blocks) are passed; everything else the arm reads it must bind itself."""

    def visit_ClassDef(self, cls: ast.ClassDef):
        new_methods: list[ast.FunctionDef] = []
        counter = [0]

        def captures(pat) -> set[str]:
            return {n.name for n in ast.walk(pat) if isinstance(n, (ast.MatchAs, ast.MatchStar)) and n.name}

        def walrus(e) -> set[str]:
            return {n.target.id for n in ast.walk(e) if isinstance(n, ast.NamedExpr) and isinstance(n.target, ast.Name)} if e is not None else set()

        def process(stmts, definite: set[str], fn, recv, deco):
            definite = set(definite)
            for s in stmts:
                if isinstance(s, ast.Match):
                    for c in s.cases:
                        inner = definite | captures(c.pattern) | walrus(c.guard) | walrus(s.subject)
                        process(c.body, inner, fn, recv, deco)
                        if len(c.body) < 3 or not _closed(c.body):
                            continue
                        if any(isinstance(n, ast.Call) and isinstance(n.func, ast.Name) and n.func.id == "super" for x in c.body for n in ast.walk(x)):
                            continue
                        if any(isinstance(n, (ast.Lambda, ast.ListComp, ast.SetComp, ast.DictComp, ast.GeneratorExp)) for x in c.body for n in ast.walk(x)):
                            continue  # closures over arm locals would need care
                        loaded = []
                        for x in c.body:
                            for n in ast.walk(x):
                                if isinstance(n, ast.Name) and n.id in inner and n.id != recv and n.id not in loaded:
                                    loaded.append(n.id)
                        counter[0] += 1
                        name = f"_{fn.name.strip('_')}_arm{counter[0]}"
                        helper = ast.FunctionDef(
                            name=name,
                            args=ast.arguments(posonlyargs=[], args=[ast.arg(recv)] + [ast.arg(x) for x in loaded], kwonlyargs=[], kw_defaults=[], defaults=[]),
                            body=c.body,
                            decorator_list=[ast.Name("classmethod", ast.Load())] if "classmethod" in deco else [],
                            lineno=c.body[0].lineno,
                            type_params=[],
                        )
                        new_methods.append(helper)
                        call = ast.Call(func=ast.Attribute(value=ast.Name(recv, ast.Load()), attr=name, ctx=ast.Load()), args=[ast.Name(x, ast.Load()) for x in loaded], keywords=[])
                        c.body = [ast.copy_location(ast.Return(value=call), c.body[0])]
                elif isinstance(s, ast.If):
                    process(s.body, definite | walrus(s.test), fn, recv, deco)
                    process(s.orelse, definite | walrus(s.test), fn, recv, deco)
                    definite |= walrus(s.test)
                elif isinstance(s, (ast.For, ast.While, ast.With, ast.Try)):
                    pass  # arms inside loops are left alone
                else:
                    if isinstance(s, ast.Assign):
                        for t in s.targets:
                            definite |= {n.id for n in ast.walk(t) if isinstance(n, ast.Name) and isinstance(n.ctx, ast.Store)}
                    elif isinstance(s, ast.AnnAssign) and s.value is not None and isinstance(s.target, ast.Name):
                        definite.add(s.target.id)
                    definite |= walrus(s)

        for fn in list(cls.body):
            if not isinstance(fn, ast.FunctionDef) or not fn.args.args:
                continue
            deco = {d.id for d in fn.decorator_list if isinstance(d, ast.Name)}
            if deco - {"classmethod", "final"} or any(isinstance(n, (ast.Yield, ast.YieldFrom, ast.Nonlocal, ast.Global)) for n in ast.walk(fn)):
                continue
            if any(isinstance(n, (ast.FunctionDef, ast.ClassDef)) and n is not fn for n in ast.walk(fn)):
                continue
            recv = fn.args.args[0].arg
            params = {a.arg for a in fn.args.args + fn.args.kwonlyargs}
            process(fn.body, params, fn, recv, deco)
        cls.body.extend(new_methods)
        return cls


def extract_arms(sources: SourceSet) -> SourceSet:
    out = {}
    for rel, text in sources.files.items():
        tree = _ExtractArms().visit(ast.parse(text))
        ast.fix_missing_locations(tree)
        out[rel] = ast.unparse(tree) + "\n"
    return SourceSet(out, sources.root)


VARIANTS.update({"captures-to-aliases": captures_to_aliases, "comprehension-to-loop": comprehension_to_loop, "extract-arms": extract_arms})


class _OptionalAnnotations(ast.NodeTransformer):
    """``X | None`` in annotations -> ``Optional[X]`` (and ``A | B`` -> ``Union[A, B]``)."""

    def _conv(self, e):
        if isinstance(e, ast.BinOp) and isinstance(e.op, ast.BitOr):
            parts = []

            def flat(x):
                if isinstance(x, ast.BinOp) and isinstance(x.op, ast.BitOr):
                    flat(x.left)
                    flat(x.right)
                else:
                    parts.append(self._conv(x))

            flat(e)
            nones = [p for p in parts if isinstance(p, ast.Constant) and p.value is None]
            rest = [p for p in parts if not (isinstance(p, ast.Constant) and p.value is None)]
            inner = rest[0] if len(rest) == 1 else ast.Subscript(value=ast.Name("Union", ast.Load()), slice=ast.Tuple(elts=rest, ctx=ast.Load()), ctx=ast.Load())
            if nones:
                return ast.Subscript(value=ast.Name("Optional", ast.Load()), slice=inner, ctx=ast.Load())
            return inner
        if isinstance(e, ast.Subscript):
            e.slice = self._conv(e.slice)
            return e
        if isinstance(e, ast.Tuple):
            e.elts = [self._conv(x) for x in e.elts]
            return e
        return e

    def visit_arg(self, node):
        if node.annotation is not None:
            node.annotation = self._conv(node.annotation)
        return node

    def visit_AnnAssign(self, node):
        self.generic_visit(node)
        node.annotation = self._conv(node.annotation)
        return node

    def visit_FunctionDef(self, node):
        self.generic_visit(node)
        if node.returns is not None:
            node.returns = self._conv(node.returns)
        return node


def optional_annotations(sources: SourceSet) -> SourceSet:
    out = {}
    for rel, text in sources.files.items():
        tree = _OptionalAnnotations().visit(ast.parse(text))
        ast.fix_missing_locations(tree)
        out[rel] = ast.unparse(tree) + "\n"
    return SourceSet(out, sources.root)


class _StripDocstrings(ast.NodeTransformer):
    def _strip(self, node):
        self.generic_visit(node)
        b = node.body
        if b and isinstance(b[0], ast.Expr) and isinstance(b[0].value, ast.Constant) and isinstance(b[0].value.value, str):
            node.body = b[1:] or [ast.Pass()]
        return node

    visit_FunctionDef = visit_ClassDef = visit_Module = _strip


def strip_docstrings(sources: SourceSet) -> SourceSet:
    out = {}
    for rel, text in sources.files.items():
        tree = _StripDocstrings().visit(ast.parse(text))
        ast.fix_missing_locations(tree)
        out[rel] = ast.unparse(tree) + "\n"
    return SourceSet(out, sources.root)


class _KeywordConstructors(ast.NodeTransformer):
    """Positional arguments of package dataclass constructors -> keywords (needs the field order: uses the normaliser's)."""

    def __init__(self, pkg, rel, fields_of):
        self.pkg, self.rel, self.fields_of = pkg, rel, fields_of

    def visit_Call(self, node):
        self.generic_visit(node)
        f = node.func
        name = f.id if isinstance(f, ast.Name) else f.attr if isinstance(f, ast.Attribute) else None
        if not name or not name[:1].isupper() or any(isinstance(a, ast.Starred) for a in node.args) or not node.args:
            return node
        key = self.pkg.resolve_class(self.rel, name)
        if key is None:
            return node
        fields = self.fields_of(key)
        if not fields:
            return node
        positional = [nm for nm, kwo in fields if not kwo]
        if len(node.args) > len(positional):
            return node
        node.keywords = [ast.keyword(arg=nm, value=a) for nm, a in zip(positional, node.args)] + node.keywords
        node.args = []
        return node


def keyword_constructors(sources: SourceSet) -> SourceSet:
    from ..normalize import _Package, _init_fields

    trees = {rel: ast.parse(text) for rel, text in sources.files.items()}
    pkg = _Package(trees)
    cache: dict = {}

    def fields_of(key):
        if key not in cache:
            cache[key] = _init_fields(pkg, key)
        return cache[key]

    out = {}
    for rel, tree in trees.items():
        tree = _KeywordConstructors(pkg, rel, fields_of).visit(tree)
        ast.fix_missing_locations(tree)
        out[rel] = ast.unparse(tree) + "\n"
    return SourceSet(out, sources.root)


VARIANTS.update({"optional-annotations": optional_annotations, "strip-docstrings": strip_docstrings, "keyword-constructors": keyword_constructors})


def _flip_call_spelling(sources: SourceSet, to_keyword: bool) -> SourceSet:
    """Calls of unambiguously-signed package functions: all arguments by keyword / as many as possible positionally."""
    from ..normalize import _call_params, _signatures

    trees = {rel: ast.parse(text) for rel, text in sources.files.items()}
    sigs = _signatures(trees)
    out = {}
    for rel, tree in trees.items():
        for call in ast.walk(tree):
            if not isinstance(call, ast.Call):
                continue
            r = _call_params(call, sigs)
            if r is None:
                continue
            name, params, by = r
            pos_params = params[: params.index("*")] if "*" in params else params
            if to_keyword:
                call.args = []
                call.keywords = [ast.keyword(arg=p, value=by[p]) for p in params if p != "*" and p in by]
            else:
                lead = []
                for p in pos_params:
                    if p not in by:
                        break
                    lead.append(p)
                call.args = [by[p] for p in lead]
                call.keywords = [ast.keyword(arg=p, value=by[p]) for p in params if p != "*" and p in by and p not in lead]
        ast.fix_missing_locations(tree)
        out[rel] = ast.unparse(tree) + "\n"
    return SourceSet(out, sources.root)


def keyword_calls(sources: SourceSet) -> SourceSet:
    return _flip_call_spelling(sources, True)


def positional_calls_variant(sources: SourceSet) -> SourceSet:
    return _flip_call_spelling(sources, False)


VARIANTS.update({"keyword-calls": keyword_calls, "positional-calls": positional_calls_variant})


class _CompareFlip(ast.NodeTransformer):
    """``a <= b`` -> ``b >= a``, ``a == b`` -> ``b == a``, ``x is None`` -> ``None is x`` (single comparisons of pure operands)."""

    FLIP = {ast.Lt: ast.Gt, ast.Gt: ast.Lt, ast.LtE: ast.GtE, ast.GtE: ast.LtE, ast.Eq: ast.Eq, ast.NotEq: ast.NotEq, ast.Is: ast.Is, ast.IsNot: ast.IsNot}

    @staticmethod
    def _pure(e):
        return not any(isinstance(n, (ast.Call, ast.NamedExpr, ast.Await, ast.Yield)) for n in ast.walk(e))

    def visit_Compare(self, node):
        self.generic_visit(node)
        if len(node.ops) == 1 and type(node.ops[0]) in self.FLIP and self._pure(node.left) and self._pure(node.comparators[0]):
            return ast.copy_location(ast.Compare(left=node.comparators[0], ops=[self.FLIP[type(node.ops[0])]()], comparators=[node.left]), node)
        return node


def compare_flip(sources: SourceSet) -> SourceSet:
    out = {}
    for rel, text in sources.files.items():
        tree = _CompareFlip().visit(ast.parse(text))
        ast.fix_missing_locations(tree)
        out[rel] = ast.unparse(tree) + "\n"
    return SourceSet(out, sources.root)


class _DeMorgan(ast.NodeTransformer):
    """In branch tests: ``a and b`` -> ``not (not a or not b)``; ``a or b`` -> ``not (not a and not b)`` (boolean contexts only)."""

    def _neg(self, e):
        if isinstance(e, ast.UnaryOp) and isinstance(e.op, ast.Not):
            return e.operand
        return ast.UnaryOp(op=ast.Not(), operand=e)

    def _rewrite(self, test):
        if isinstance(test, ast.BoolOp) and not any(isinstance(n, ast.NamedExpr) for n in ast.walk(test)):
            other = ast.Or() if isinstance(test.op, ast.And) else ast.And()
            return ast.UnaryOp(op=ast.Not(), operand=ast.BoolOp(op=other, values=[self._neg(v) for v in test.values]))
        return test

    def visit_If(self, node):
        self.generic_visit(node)
        node.test = self._rewrite(node.test)
        return node

    def visit_IfExp(self, node):
        self.generic_visit(node)
        node.test = self._rewrite(node.test)
        return node


def de_morgan(sources: SourceSet) -> SourceSet:
    out = {}
    for rel, text in sources.files.items():
        tree = _DeMorgan().visit(ast.parse(text))
        ast.fix_missing_locations(tree)
        out[rel] = ast.unparse(tree) + "\n"
    return SourceSet(out, sources.root)


class _ElseAfterReturn(ast.NodeTransformer):
    """``if c: ...return`` followed by statements  ->  ``if c: ... else: <those statements>`` (inverse of guard clauses)."""

    def _block(self, stmts):
        for i, s in enumerate(stmts):
            if isinstance(s, ast.If) and not s.orelse and s.body and isinstance(s.body[-1], (ast.Return, ast.Raise)) and stmts[i + 1 :]:
                rest = self._block(stmts[i + 1 :])
                s.orelse = rest
                return stmts[: i + 1]
        return stmts

    def visit_FunctionDef(self, node):
        self.generic_visit(node)
        if not any(isinstance(n, (ast.Yield, ast.YieldFrom)) for n in ast.walk(node)):
            node.body = self._block(node.body)
        return node


def else_after_return(sources: SourceSet) -> SourceSet:
    out = {}
    for rel, text in sources.files.items():
        tree = _ElseAfterReturn().visit(ast.parse(text))
        ast.fix_missing_locations(tree)
        out[rel] = ast.unparse(tree) + "\n"
    return SourceSet(out, sources.root)


VARIANTS.update({"compare-flip": compare_flip, "de-morgan": de_morgan, "else-after-return": else_after_return})


class _IfToTernary(ast.NodeTransformer):
    """``if c: return a`` / ``else: return b``  ->  ``return a if c else b``; same for single assignments to one name."""

    def visit_If(self, node):
        self.generic_visit(node)
        if len(node.body) == 1 and len(node.orelse) == 1 and not any(isinstance(n, ast.NamedExpr) for n in ast.walk(node.test)):
            a, b = node.body[0], node.orelse[0]
            if isinstance(a, ast.Return) and isinstance(b, ast.Return) and a.value is not None and b.value is not None:
                return ast.copy_location(ast.Return(value=ast.IfExp(test=node.test, body=a.value, orelse=b.value)), node)
            if (
                isinstance(a, ast.Assign) and isinstance(b, ast.Assign) and len(a.targets) == 1 and len(b.targets) == 1
                and isinstance(a.targets[0], ast.Name) and isinstance(b.targets[0], ast.Name) and a.targets[0].id == b.targets[0].id
            ):
                return ast.copy_location(ast.Assign(targets=[a.targets[0]], value=ast.IfExp(test=node.test, body=a.value, orelse=b.value)), node)
        return node


def if_to_ternary(sources: SourceSet) -> SourceSet:
    out = {}
    for rel, text in sources.files.items():
        tree = _IfToTernary().visit(ast.parse(text))
        ast.fix_missing_locations(tree)
        out[rel] = ast.unparse(tree) + "\n"
    return SourceSet(out, sources.root)


class _IntroduceLocals(ast.NodeTransformer):
    """``return f(<call>, ...)`` / ``x = f(<call>)``: every call argument that is itself a call gets a local first
    (only when everything evaluated before it is a plain name/attribute/constant, so the order of effects is kept)."""

    def __init__(self):
        self.n = 0

    @staticmethod
    def _pure(e):
        while isinstance(e, ast.Attribute):
            e = e.value
        return isinstance(e, (ast.Name, ast.Constant))

    def _block(self, stmts):
        out = []
        for s in stmts:
            v = getattr(s, "value", None)
            if isinstance(s, (ast.Return, ast.Assign, ast.Expr)) and isinstance(v, ast.Call) and self._pure(v.func) and not any(isinstance(n, (ast.Yield, ast.YieldFrom, ast.Lambda, ast.NamedExpr)) for n in ast.walk(s)):
                new_args = []
                ok = True
                for a in v.args:
                    if isinstance(a, ast.Call) and ok and not isinstance(a.func, ast.Name) or (isinstance(a, ast.Call) and ok and isinstance(a.func, ast.Name) and a.func.id not in ("super", "cast")):
                        self.n += 1
                        name = f"arg_tmp{self.n}"
                        out.append(ast.copy_location(ast.Assign(targets=[ast.Name(name, ast.Store())], value=a, lineno=s.lineno), s))
                        new_args.append(ast.Name(name, ast.Load()))
                    else:
                        if not self._pure(a):
                            ok = False
                        new_args.append(a)
                v.args = new_args
            out.append(s)
        return out

    def generic_visit(self, node):
        super().generic_visit(node)
        for field in ("body", "orelse"):
            v = getattr(node, field, None)
            if isinstance(v, list) and v and isinstance(v[0], ast.stmt) and not isinstance(node, (ast.Module, ast.ClassDef)):
                setattr(node, field, self._block(v))
        if isinstance(node, ast.Match):
            for c in node.cases:
                c.body = self._block(c.body)
        return node


def introduce_locals(sources: SourceSet) -> SourceSet:
    out = {}
    for rel, text in sources.files.items():
        tree = _IntroduceLocals().visit(ast.parse(text))
        ast.fix_missing_locations(tree)
        out[rel] = ast.unparse(tree) + "\n"
    return SourceSet(out, sources.root)


VARIANTS.update({"if-to-ternary": if_to_ternary, "introduce-locals": introduce_locals})


def _compose(*names):
    def f(sources: SourceSet) -> SourceSet:
        cur = sources
        for n in names:
            cur = VARIANTS[n](cur)
        return cur

    return f


VARIANTS.update(
    {
        "combo-structure": _compose("extract-arms", "guard-clauses", "rename-locals", "keyword-calls"),
        "combo-expressions": _compose("introduce-locals", "compare-flip", "de-morgan", "captures-to-aliases", "split-walrus"),
        "combo-style": _compose("match-to-isinstance", "else-after-return", "comprehension-to-loop", "keyword-constructors", "optional-annotations"),
    }
)
