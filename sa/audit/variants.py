"""Whole-package behaviour-preserving variants used as global "twins" in the thorough tier.

* ``reformat``  - every module re-emitted with ``ast.unparse`` (comments, layout and line numbers change);
* ``rename``    - every function-local name (assigned locals, pattern captures, loop and walrus targets,
                  comprehension variables) alpha-renamed; parameters, attributes and globals are untouched.

Both are computed in memory from the parsed working tree; no rule may report anything on them.
"""

from __future__ import annotations

import ast
import builtins

from ..model import SourceSet

_BUILTINS = set(dir(builtins))


def reformat(sources: SourceSet) -> SourceSet:
    out = {}
    for rel, text in sources.files.items():
        try:
            out[rel] = ast.unparse(ast.parse(text)) + "\n"
        except SyntaxError:
            out[rel] = text
    return SourceSet(out, sources.root)


class _Locals(ast.NodeVisitor):
    """Names bound inside one function body (its own scope and nested comprehension/lambda scopes)."""

    def __init__(self) -> None:
        self.stored: set[str] = set()
        self.params: set[str] = set()
        self.globals_: set[str] = set()

    def visit_FunctionDef(self, node):  # nested def: its name is a local, its body is handled separately
        self.stored.add(node.name)

    visit_AsyncFunctionDef = visit_FunctionDef

    def visit_ClassDef(self, node):
        self.stored.add(node.name)

    def visit_Lambda(self, node):
        for a in node.args.posonlyargs + node.args.args + node.args.kwonlyargs:
            self.params.add(a.arg)
        self.generic_visit(node)

    def visit_Global(self, node):
        self.globals_.update(node.names)

    visit_Nonlocal = visit_Global

    def visit_Name(self, node):
        if isinstance(node.ctx, (ast.Store, ast.Del)):
            self.stored.add(node.id)

    def visit_MatchAs(self, node):
        if node.name:
            self.stored.add(node.name)
        self.generic_visit(node)

    def visit_MatchStar(self, node):
        if node.name:
            self.stored.add(node.name)

    def visit_MatchMapping(self, node):
        if node.rest:
            self.stored.add(node.rest)
        self.generic_visit(node)

    def visit_Import(self, node):
        pass  # imported names stay as they are

    visit_ImportFrom = visit_Import


class _Renamer(ast.NodeTransformer):
    def __init__(self, mapping: dict[str, str]):
        self.mapping = mapping

    def visit_Name(self, node):
        if node.id in self.mapping:
            return ast.copy_location(ast.Name(self.mapping[node.id], node.ctx), node)
        return node

    def visit_MatchAs(self, node):
        self.generic_visit(node)
        if node.name in self.mapping:
            node.name = self.mapping[node.name]
        return node

    def visit_MatchStar(self, node):
        if node.name in self.mapping:
            node.name = self.mapping[node.name]
        return node

    def visit_FunctionDef(self, node):
        # do not descend into nested function definitions (their own scope is renamed separately)
        return node

    visit_AsyncFunctionDef = visit_FunctionDef


def _rename_function(fn: ast.FunctionDef) -> None:
    a = fn.args
    params = {x.arg for x in a.posonlyargs + a.args + a.kwonlyargs}
    if a.vararg:
        params.add(a.vararg.arg)
    if a.kwarg:
        params.add(a.kwarg.arg)
    loc = _Locals()
    for stmt in fn.body:
        loc.visit(stmt)
    imported = set()
    for n in ast.walk(fn):
        if isinstance(n, (ast.Import, ast.ImportFrom)):
            for al in n.names:
                imported.add((al.asname or al.name).split(".")[0])
    names = {n for n in loc.stored if n not in params and n not in loc.params and n not in loc.globals_ and n not in imported and n not in _BUILTINS and not n.startswith("__")}
    # names of nested defs are kept (they may be referenced from the nested scope we do not rewrite)
    names -= {n.name for n in ast.walk(fn) if isinstance(n, (ast.FunctionDef, ast.AsyncFunctionDef, ast.ClassDef)) and n is not fn}
    # a local that is also read inside a nested def must keep its name
    for n in ast.walk(fn):
        if isinstance(n, (ast.FunctionDef, ast.AsyncFunctionDef)) and n is not fn:
            for m in ast.walk(n):
                if isinstance(m, ast.Name):
                    names.discard(m.id)
    mapping = {n: f"{n}_rn" for n in sorted(names)}
    if not mapping:
        return
    r = _Renamer(mapping)
    fn.body = [r.visit(s) for s in fn.body]


def rename_locals(sources: SourceSet) -> SourceSet:
    out = {}
    for rel, text in sources.files.items():
        try:
            tree = ast.parse(text)
        except SyntaxError:
            out[rel] = text
            continue
        for n in ast.walk(tree):
            if isinstance(n, (ast.FunctionDef, ast.AsyncFunctionDef)):
                _rename_function(n)
        ast.fix_missing_locations(tree)
        out[rel] = ast.unparse(tree) + "\n"
    return SourceSet(out, sources.root)


VARIANTS = {"reformat": reformat, "rename-locals": rename_locals}
