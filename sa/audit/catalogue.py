"""Sensitivity-audit catalogue: single-site edits applied *in memory* to the parsed sources.

Each entry replaces one occurrence of ``old`` by ``new`` in one module.  ``fire``
entries are behaviour-breaking edits a rule must report (optionally naming the
rule); ``silent`` entries are behaviour-preserving twins no rule may report.
An entry whose ``old`` text no longer occurs exactly once is *skipped* (the
source moved on) and listed in the evidence; it never fails a run by itself.
"""

from __future__ import annotations

import dataclasses


@dataclasses.dataclass(frozen=True)
class Mutant:
    id: str
    props: tuple[str, ...]
    rel: str
    old: str
    new: str
    expect: str  # 'fire' | 'silent'
    rule: str | None = None
    note: str = ""
    count: int = 1  # which occurrence (1-based) when the text occurs several times; 0 = must be unique
    scope: str | None = None  # "Class.method" / "function": restrict the edit to that definition's source lines


MUTANTS: list[Mutant] = []


def M(id, props, rel, old, new, expect="fire", rule=None, note="", count=0, scope=None):
    if isinstance(props, str):
        props = (props,)
    MUTANTS.append(Mutant(id, tuple(props), rel, old, new, expect, rule, note, count, scope))


def for_prop(prop: str) -> list[Mutant]:
    return [m for m in MUTANTS if prop in m.props]


def _segment(text: str, scope: str) -> tuple[int, int] | None:
    import ast

    try:
        tree = ast.parse(text)
    except SyntaxError:
        return None
    parts = scope.split(".")
    body = tree.body
    node = None
    for name in parts:
        node = next((n for n in body if isinstance(n, (ast.ClassDef, ast.FunctionDef)) and n.name == name), None)
        if node is None:
            return None
        body = node.body
    lines = text.splitlines(keepends=True)
    start = sum(len(x) for x in lines[: node.lineno - 1])
    end = sum(len(x) for x in lines[: node.end_lineno])
    return start, end


def apply(m: Mutant, text: str) -> str | None:
    if m.scope:
        seg = _segment(text, m.scope)
        if seg is None:
            return None
        a, b = seg
        inner = apply(dataclasses.replace(m, scope=None), text[a:b])
        return None if inner is None else text[:a] + inner + text[b:]
    n = text.count(m.old)
    if n == 0:
        return None
    if m.count == 0:
        if n != 1:
            return None
        return text.replace(m.old, m.new, 1)
    if n < m.count:
        return None
    idx = -1
    for _ in range(m.count):
        idx = text.find(m.old, idx + 1)
    return text[:idx] + m.new + text[idx + len(m.old) :]


from . import entries  # noqa: E402,F401  (registers the catalogue)
