"""The catalogue entries (grouped by property)."""

from .catalogue import M

MARKER = "_marker_relation.py"
IT = "iteration/_engine.py"
PROC = "_processor.py"

# ---------------------------------------------------------------- C10
M("c10-drop-none-test", "C10", MARKER, "        if self.payload is None:\n            object.__setattr__(self, \"payload\", payload)\n        else:\n",
  "        if True:\n            object.__setattr__(self, \"payload\", payload)\n        else:\n", rule="R10.1")
M("c10-silent-second-attach", "C10", MARKER, "            raise TypeError(\n                f\"Cannot attach payload {payload} to relation {self} with existing payload \"\n                f\"{self.payload}; relation payloads are write-once.\"\n            )",
  "            return None", rule="R10.1")
M("c10-exec-cache-after", "C10", IT, "        if (result := relation.payload) is not None:\n            return result\n", "", rule="R10.3")
M("c10-exec-no-attach", "C10", IT, "                relation.attach_payload(result)\n", "", rule="R10.3")
M("c10-exec-attach-other", "C10", IT, "                result = self.execute(target).materialized()\n                relation.attach_payload(result)\n                return result",
  "                result = self.execute(target).materialized()\n                relation.attach_payload(result)\n                return self.execute(target)", rule="R10.3")
M("c10-proc-no-early", "C10", PROC, "        if original.payload is not None:\n            return original, True\n", "", rule="R10.3")
M("c10-proc-transfer-attach", "C10", PROC, "                result = original.reapply(new_target, payload)\n", "                object.__setattr__(original, \"payload\", payload)\n                result = original\n", rule="R10.1")
M("c10-leaf-attach", "C10", "_relation.py", "        raise TypeError(f\"Cannot attach payload {payload} to relation {self}.\")", "        object.__setattr__(self, \"payload\", payload)", rule="R10.1")
M("c10-twin-rename", "C10", IT, "        if (result := relation.payload) is not None:\n            return result\n", "        if (cached := relation.payload) is not None:\n            return cached\n", expect="silent")
M("c10-twin-invert", "C10", MARKER, "        if self.payload is None:\n            object.__setattr__(self, \"payload\", payload)\n        else:\n            raise TypeError(\n                f\"Cannot attach payload {payload} to relation {self} with existing payload \"\n                f\"{self.payload}; relation payloads are write-once.\"\n            )",
  "        if self.payload is not None:\n            raise TypeError(\n                f\"Cannot attach payload {payload} to relation {self} with existing payload \"\n                f\"{self.payload}; relation payloads are write-once.\"\n            )\n        object.__setattr__(self, \"payload\", payload)", expect="silent")

# ---------------------------------------------------------------- C09
SQL = "sql/_engine.py"
M("c09-drop-copy-calc", "C09", SQL, "                        result = self.to_payload(target).copy()\n                        result.columns_available[tag]", "                        result = self.to_payload(target)\n                        result.columns_available[tag]", rule="R09.4")
M("c09-drop-copy-sel", "C09", SQL, "                        result = self.to_payload(target).copy()\n                        result.where.extend(", "                        result = self.to_payload(target)\n                        result.where.extend(", rule="R09.4")
M("c09-diag-list", "C09", "_diagnostics.py", "                messages = list(messages)\n", "", rule="R09.4")
M("c09-calc-columns", "C09", "_operations/_calculation.py", "        result = set(target.columns)\n", "        result = target.columns\n", rule="R09.4")
M("c09-payload-copy-shallow", "C09", "sql/_payload.py", "self, where=list(self.where), columns_available=dict(self.columns_available)", "self, where=self.where, columns_available=dict(self.columns_available)", rule="R09.4e")
M("c09-unfreeze-projection", "C09", "_operations/_projection.py", "@final\n@dataclasses.dataclass(frozen=True)\nclass Projection", "@final\n@dataclasses.dataclass\nclass Projection", rule="R09.1")
M("c09-unfreeze-leaf", "C09", "_leaf_relation.py", "@final\n@dataclasses.dataclass(frozen=True)\nclass LeafRelation", "@final\n@dataclasses.dataclass(frozen=False)\nclass LeafRelation", rule="R09.1")
M("c09-sortterm-unfrozen", "C09", "_operations/_sort.py", "@dataclasses.dataclass(frozen=True)\nclass SortTerm", "@dataclasses.dataclass\nclass SortTerm", rule="R09.1")
M("c09-sequence-list", "C09", "_columns/_container.py", "return ColumnExpressionSequence(tuple(items), dtype)", "return ColumnExpressionSequence(items, dtype)", rule="R09.2")
M("c09-projection-no-frozenset", "C09", "_relation.py", "return Projection(frozenset(columns)).apply(", "return Projection(columns).apply(", rule="R09.2")
M("c09-sort-no-tuple", "C09", "_relation.py", "return Sort(tuple(terms)).apply(", "return Sort(terms).apply(", rule="R09.2")
M("c09-sort-then-list", "C09", "_operations/_sort.py", "        return Sort(tuple(new_terms))", "        return Sort(new_terms)", rule="R09.2")
M("c09-setattr-target", "C09", "_operation_relations.py", "        if target is self.target:\n            return self\n", "        object.__setattr__(self, \"columns\", set(self.columns))\n        if target is self.target:\n            return self\n", rule="R09.3")
M("c09-join-cols-mutate", "C09", "_operations/_join.py", "        result = set(self.binary.predicate.columns_required)\n", "        result = self.binary.predicate.columns_required\n", rule="R09.4")
M("c09-where-extend-join", "C09", SQL, "                    where=lhs_payload.where + rhs_payload.where,", "                    where=lhs_payload.where.extend(rhs_payload.where) or lhs_payload.where,", rule="R09.4")
M("c09-leaf-msgs-append", "C09", "_diagnostics.py", "                if relation.max_rows == 0:\n                    if not messages:", "                if relation.max_rows == 0:\n                    relation.messages.append('x')\n                    if not messages:", rule="R09.4")
M("c09-twin-rename-result", "C09", "_operations/_calculation.py", "        result = set(target.columns)\n        result.add(self.tag)\n        return result", "        cols = set(target.columns)\n        cols.add(self.tag)\n        return cols", expect="silent")
M("c09-twin-copy-ctor", "C09", "sql/_payload.py", "self, where=list(self.where), columns_available=dict(self.columns_available)", "self, where=[*self.where], columns_available={**self.columns_available}", expect="silent")
M("c09-twin-frozenset-cols", "C09", "_operations/_calculation.py", "        result = set(target.columns)\n        result.add(self.tag)\n        return result", "        return frozenset(target.columns | {self.tag})", expect="silent")

# ---------------------------------------------------------------- C20
CALC = "_operations/_calculation.py"
PROJ = "_operations/_projection.py"
M("c20-calc-drop-tag-check", "C20", CALC, "        if self.tag in target.columns:\n            raise ColumnError(f\"Calculated column {self.tag} is already present in {target}.\")\n", "", rule="R20.2")
M("c20-calc-wrong-exc", "C20", CALC, "            raise ColumnError(f\"Calculated column {self.tag} is already present in {target}.\")", "            raise ValueError(f\"Calculated column {self.tag} is already present in {target}.\")", rule="R20.2")
M("c20-calc-weaken", "C20", CALC, "        if not (self.expression.columns_required <= target.columns):", "        if not (self.expression.columns_required <= target.columns) and not target.is_locked:", rule="R20.2")
M("c20-proj-superset", "C20", PROJ, "        if not self.columns <= target.columns:", "        if not self.columns >= target.columns:", rule="R20.2")
M("c20-sort-drop-loop", "C20", "_operations/_sort.py", "        for term in self.terms:\n            if not term.expression.columns_required <= target.columns:\n                raise ColumnError(\n                    f\"Sort term {term} for target relation {target} needs \"\n                    f\"columns {set(term.expression.columns_required - target.columns)}.\"\n                )\n", "", rule="R20.2")
M("c20-chain-drop-columns", "C20", "_operations/_chain.py", "        if lhs.columns != rhs.columns:\n            raise ColumnError(f\"Mismatched chain columns: {set(lhs.columns)} != {set(rhs.columns)}.\")\n", "", rule="R20.2")
M("c20-chain-subset", "C20", "_operations/_chain.py", "        if lhs.columns != rhs.columns:", "        if not lhs.columns >= rhs.columns:", rule="R20.2")
M("c20-apply-self", "C20", "_unary_operation.py", "target.engine.backtrack_unary(operation, target, preferred_engine)", "target.engine.backtrack_unary(self, target, preferred_engine)", rule="R20.1")
M("c20-apply-late-begin", "C20", "_binary_operation.py", "        operation = self._begin_apply(lhs, rhs)\n        return lhs.engine.append_binary(operation, lhs, rhs)", "        return lhs.engine.append_binary(self, lhs, rhs)", rule="R20.1")
M("c20-factory-drop-option", "C20", "_relation.py", "        return Projection(frozenset(columns)).apply(\n            self,\n            preferred_engine=preferred_engine,\n            backtrack=backtrack,\n            transfer=transfer,\n            require_preferred_engine=require_preferred_engine,\n        )", "        return Projection(frozenset(columns)).apply(\n            self,\n            preferred_engine=preferred_engine,\n            backtrack=backtrack,\n            transfer=transfer,\n        )", rule="R20.1")
M("c20-factory-finish", "C20", "_relation.py", "        return Chain().apply(self, rhs)", "        return Chain()._finish_apply(self, rhs)", rule="R20.1")
M("c20-getitem-step", "C20", "_relation.py", "        if key.step not in (1, None):\n            raise TypeError(\"Slices with non-unit step are not supported.\")\n", "", rule="R20.2")
M("c20-processor-bypass", "C20", "_processor.py", "                    return operation.apply(new_target), False", "                    return operation._finish_apply(new_target), False", rule="R20.3")
M("c20-join-engine", "C20", "_operations/_join.py", "        if lhs.engine != rhs.engine:\n            raise EngineError(f\"Mismatched join engines: {lhs.engine} != {rhs.engine}.\")\n", "", rule="R20.2")
M("c20-supported-by", "C20", "_unary_operation.py", "        if not self.is_supported_by(target.engine):\n            raise EngineError(f\"Operation {self} is not supported by engine {target.engine}.\")\n", "", rule="R20.2")
M("c20-slice-negative", "C20", "_operations/_slice.py", "        if self.start < 0:\n            raise ValueError(f\"Slice start {self.start} is negative.\")\n", "", rule="R20.2")
M("c20-join-min-partial", "C20", "_operations/_join.py", "        if not (self.min_columns <= fix.columns):", "        if not (self.min_columns <= fix.columns) and is_lhs:", rule="R20.2")
M("c20-twin-issubset", "C20", PROJ, "        if not self.columns <= target.columns:", "        if not self.columns.issubset(target.columns):", expect="silent")
M("c20-twin-difference", "C20", CALC, "        if not (self.expression.columns_required <= target.columns):", "        if self.expression.columns_required - target.columns:", expect="silent")
M("c20-twin-reorder-checks", "C20", "_operations/_chain.py", "        if lhs.engine != rhs.engine:\n            raise EngineError(f\"Mismatched chain engines: {lhs.engine} != {rhs.engine}.\")\n        if lhs.columns != rhs.columns:\n            raise ColumnError(f\"Mismatched chain columns: {set(lhs.columns)} != {set(rhs.columns)}.\")\n",
  "        if lhs.columns != rhs.columns:\n            raise ColumnError(f\"Mismatched chain columns: {set(lhs.columns)} != {set(rhs.columns)}.\")\n        if not lhs.engine == rhs.engine:\n            raise EngineError(f\"Mismatched chain engines: {lhs.engine} != {rhs.engine}.\")\n", expect="silent")

# ---------------------------------------------------------------- C14 / C15 / C17
ENG = "_engine.py"
SEL = "sql/_select.py"
JOIN = "_operations/_join.py"
M("c14-transfer-own-engine", ("C14", "C15"), ENG, "        if target.engine == self:\n            if payload is not None:\n                raise EngineError(\"Cannot attach payload to transfer that will be simplified away.\")\n            return target\n", "", rule="R14.2")
M("c14-transfer-destination", "C14", ENG, "return Transfer(conformed_target, destination=self, payload=payload)", "return Transfer(conformed_target, destination=target.engine, payload=payload)", rule="R14.2")
M("c14-sql-transfer-wrap", ("C14", "C15"), SQL, "        return self.conform(super().transfer(target, payload))", "        return Select.apply_skip(super().transfer(target, payload))", rule="R14.5")
M("c14-identity-builds-node", "C14", "_unary_operation.py", "    def _finish_apply(self, target: Relation) -> Relation:\n        # Docstring inherited.\n        return target\n", "", rule="R14.3")
M("c14-join-drop-engine-check", "C14", JOIN, "        if lhs.engine != rhs.engine:\n            raise EngineError(f\"Mismatched join engines: {lhs.engine} != {rhs.engine}.\")\n", "", rule="R14.2")
M("c14-join-minmax", "C14", JOIN, "operation = dataclasses.replace(self, min_columns=common_columns, max_columns=common_columns)", "operation = dataclasses.replace(self, min_columns=self.min_columns, max_columns=common_columns)", rule="R14.4")
M("c14-join-nonkey", "C14", JOIN, "            common_columns = {tag for tag in lhs.columns & rhs.columns if tag.is_key}", "            common_columns = {tag for tag in lhs.columns & rhs.columns}", rule="R14.4")
M("c14-join-lhs-only", "C14", JOIN, "            common_columns = {tag for tag in lhs.columns & rhs.columns if tag.is_key}", "            common_columns = {tag for tag in lhs.columns if tag.is_key}", rule="R14.4")
M("c14-unaryrel-engine", "C14", "_operation_relations.py", "        return self.target.engine\n", "        return self.operation.preferred_engine\n", rule="R14.6")
M("c14-construct-elsewhere", "C14", "_processor.py", "                    return operation.apply(new_target), False", "                    return UnaryOperationRelation(operation=operation, target=new_target, columns=original.columns), False", rule="R14.1")
M("c14-projection-noop-builds", "C14", "_operations/_projection.py", "        if self.columns == target.columns:\n            return Identity(), target.engine\n", "", rule="R14.5")
M("c14-sql-identity-wrap", "C14", SQL, "            case Identity():\n                return select\n", "            case Identity():\n                return Select.apply_skip(select)\n", rule="R14.5")
M("c14-apply-always-append", "C14", "_unary_operation.py", "        if not done:\n            result = result.engine.append_unary(operation, result)\n        return result", "        result = result.engine.append_unary(operation, result)\n        return target.engine.conform(result)", rule="R14.5")
M("c14-twin-finish", "C14", "_operations/_projection.py", "        if self.columns == target.columns:\n            return target\n        return super()._finish_apply(target)", "        if self.columns != target.columns:\n            return super()._finish_apply(target)\n        return target", expect="silent")
M("c15-backtrack-no-lock", "C03", IT, "        if tree.is_locked:\n            return tree, False, (f\"{tree} is locked\",)\n", "", rule="R03.2")
M("c15-simplify-no-lock", "C15", "_transfer.py", "        if target.is_locked:\n            return None\n", "", rule="R15.1")
M("c15-conform-into-materialization", "C15", SQL, "            case Transfer() | Materialization() | LeafRelation():", "            case Transfer() | LeafRelation():", rule="R15.1")
M("c15-simplify-wrong-engine", "C15", "_transfer.py", "                if destination == new_target.engine:\n                    return new_target\n                else:\n                    return cls.simplify(new_target, destination)", "                return new_target", rule="R15.2")
M("c15-mat-simplify-marker", "C15", "_materialization.py", "                if target.engine == new_target.engine:\n                    return cls.simplify(new_target)", "                return cls.simplify(new_target)", rule="R15.2")
M("c15-materialize-always", "C15", ENG, "        if Materialization.simplify(target):\n            return target\n", "", rule="R15.2")
M("c15-twin-lock-first", "C15", "_transfer.py", "        if target.is_locked:\n            return None\n", "        if target.is_locked is True:\n            return None\n", expect="silent")
M("c17-conform-select", "C17", SQL, "            case Select():\n                return relation\n", "            case Select():\n                return Select.apply_skip(relation)\n", rule="R17.1")
M("c17-conform-order", "C17", SQL, "            case Select():\n                return relation\n            case UnaryOperationRelation(operation=operation, target=target):", "            case UnaryOperationRelation(operation=operation, target=target):", rule="R17.1")
M("c17-append-unary-raw", "C17", SQL, "        conformed_target = self.conform(target)\n        return self._append_unary_to_select(operation, conformed_target)", "        return operation._finish_apply(target)", rule="R17.2")
M("c17-apply-skip-order", "C17", SEL, "        if projection is not None:\n            target = projection._finish_apply(target)\n        if deduplication is not None:\n            target = deduplication._finish_apply(target)\n", "        if deduplication is not None:\n            target = deduplication._finish_apply(target)\n        if projection is not None:\n            target = projection._finish_apply(target)\n", rule="R17.3")
M("c17-apply-skip-on-skipto", "C17", SEL, "            target = deduplication._finish_apply(target)", "            target = deduplication._finish_apply(skip_to)", rule="R17.3")
M("c17-compound-always", "C17", SEL, "        is_compound = False\n        match skip_to:", "        is_compound = True\n        match skip_to:", rule="R17.3")
M("c17-reapply-skip-slice", "C17", SEL, "                slice=kwargs.get(\"slice\", self.slice),", "                slice=kwargs.get(\"slice\", None),", rule="R17.3")
M("c17-reapply-copy", "C17", SEL, "        result = target.engine.conform(target)\n", "        result = dataclasses.replace(self, target=target)\n", rule="R17.3")
M("c17-ctor-swapped", "C17", SEL, "            sort=sort,\n            slice=slice,\n            skip_to=skip_to,", "            sort=Sort(),\n            slice=slice,\n            skip_to=skip_to,", rule="R17.3")
M("c17-twin-sort-guard", "C17", SEL, "        if sort.terms:\n", "        if len(sort.terms) > 0:\n", expect="silent")

# ---------------------------------------------------------------- C04 / C03
SLICE = "_operations/_slice.py"
SORT = "_operations/_sort.py"
SELN = "_operations/_selection.py"
DEDUP = "_operations/_deduplication.py"
UN = "_unary_operation.py"
C34 = ("C04", "C03")
M("c04-slice-not-count-dependent", C34, SLICE, "    def is_count_dependent(self) -> bool:\n        # Docstring inherited.\n        return True", "    def is_count_dependent(self) -> bool:\n        # Docstring inherited.\n        return False", rule="R04.1")
M("c04-slice-not-order-dependent", C34, SLICE, "    def is_order_dependent(self) -> Literal[True]:\n        # Docstring inherited.\n        return True", "    def is_order_dependent(self) -> Literal[True]:\n        # Docstring inherited.\n        return False", rule="R04.1")
M("c04-dedup-drop-count-guard", C34, DEDUP, "        if current.operation.is_count_dependent:\n            return UnaryCommutator(\n                first=None,\n                second=current.operation,\n                done=False,\n                messages=(f\"{current.operation} is count-dependent\",),\n            )\n", "", rule="R04.1")
M("c04-dedup-drop-columns-guard", C34, DEDUP, "        if not current.columns >= current.target.columns:", "        if False:", rule="R04.1")
M("c04-selection-second-self", C34, SELN, "        if current.operation.is_count_dependent:\n            return UnaryCommutator(\n                first=None,\n                second=current.operation,", "        if current.operation.is_count_dependent:\n            return UnaryCommutator(\n                first=None,\n                second=self,", rule="R04.2")
M("c04-selection-fail-done", C34, SELN, "                done=False,\n                messages=(f\"{current.operation} is count-dependent\",),", "                done=True,\n                messages=(f\"{current.operation} is count-dependent\",),", rule="R04.2")
M("c04-calc-unwidened", C34, CALC, "            (\n                Projection(current.operation.columns | {self.tag})\n                if isinstance(current.operation, Projection)\n                else current.operation\n            ),", "            current.operation,", rule="R04.1")
M("c04-sort-sort", C34, SORT, "        if isinstance(current.operation, Reordering):", "        if False:", rule="R04.1")
M("c04-calc-tag-guard", C34, CALC, "        if self.tag in current.target.columns:", "        if False:", rule="R04.3")
M("c04-calc-inputs-guard", C34, CALC, "        if not self.columns_required <= current.target.columns:", "        if not self.columns_required <= current.columns:", rule="R04.3")
M("c04-slice-over-selection", C34, SLICE, "            case Projection() | Calculation():\n                return UnaryCommutator(first=self, second=current.operation)", "            case Projection() | Calculation() | Selection():\n                return UnaryCommutator(first=self, second=current.operation)", rule="R04.1")
M("c04-join-over-dedup", C34, JOIN, "            case Deduplication():\n                # A Join only commutes past Deduplication if the fixed relation\n                # has unique rows, which is not something we can check right\n                # now.\n                return UnaryCommutator(\n                    first=None,\n                    second=current.operation,\n                    done=False,\n                    messages=(\"join-deduplication commutation is not supported\",),\n                )\n", "", rule="R04.1")
M("c04-join-unwidened-projection", C34, JOIN, "                    second=Projection(frozenset(self.applied_columns(current))),", "                    second=current.operation,", rule="R04.1")
M("c04-proj-keeps-tag", C34, PROJ, "                    commuted_columns -= {tag}\n", "                    pass\n", rule="R04.3")
M("c04-proj-drops-required", C34, PROJ, "                first=Projection(commuted_columns | current.operation.columns_required),", "                first=Projection(commuted_columns),", rule="R04.1")
M("c04-proj-no-required-check", C34, PROJ, "        if not commuted_columns >= current.operation.columns_required:", "        if False:", rule="R04.1")
M("c04-proj-elide-used-calc", C34, PROJ, "                if tag not in self.columns:\n                    return UnaryCommutator(first=self, second=Identity())", "                if True:\n                    return UnaryCommutator(first=self, second=Identity())", rule="R04.1")
M("c04-twin-isinstance", C34, SLICE, "        match current.operation:\n            case Projection() | Calculation():\n                return UnaryCommutator(first=self, second=current.operation)\n            case _:\n                return UnaryCommutator(", "        if isinstance(current.operation, (Projection, Calculation)):\n            return UnaryCommutator(first=self, second=current.operation)\n        else:\n                return UnaryCommutator(", expect="silent")
M("c04-twin-sort-guard-merged", C34, SORT, "        if isinstance(current.operation, Reordering):", "        if isinstance(current.operation, (Reordering,)) or False:", expect="silent")
M("c03-apply-always-append", "C03", UN, "        if not done:\n            result = result.engine.append_unary(operation, result)\n        return result", "        result = result.engine.append_unary(operation, result)\n        return result", rule="R03.1")
M("c03-apply-no-transfer", "C03", UN, "                if transfer:\n                    result = result.transferred_to(preferred_engine)\n                elif require_preferred_engine:", "                if transfer:\n                    pass\n                elif require_preferred_engine:", rule="R03.1")
M("c03-apply-require-ignored", "C03", UN, "                elif require_preferred_engine:\n                    raise EngineError(", "                elif require_preferred_engine and backtrack:\n                    raise EngineError(", rule="R03.1")
M("c03-apply-transfer-target", "C03", UN, "                    result = result.transferred_to(preferred_engine)", "                    result = result.transferred_to(target.engine)", rule="R03.1")
M("c03-apply-wrong-engine", "C03", UN, "            result = result.engine.append_unary(operation, result)", "            result = target.engine.append_unary(operation, result)", rule="R03.1")
M("c03-backtrack-done-or", "C03", IT, "                        done and commutator.done,", "                        done or commutator.done,", rule="R03.2")
M("c03-backtrack-rebuild-target", "C03", IT, "                        result = commutator.second._finish_apply(upstream)", "                        result = commutator.second._finish_apply(target)", rule="R03.2")
M("c03-backtrack-fail-tree", "C03", IT, "                if commutator.first is None:\n                    return tree, commutator.done, commutator.messages", "                if commutator.first is None:\n                    return target, commutator.done, commutator.messages", rule="R03.2")
M("c03-backtrack-first-op", "C03", IT, "self.backtrack_unary(commutator.first, target, preferred)", "self.backtrack_unary(operation, target, preferred)", rule="R03.2")
M("c03-backtrack-transfer-finish", "C03", IT, "return transfer.reapply(operation.apply(target)), True, ()", "return transfer.reapply(operation._finish_apply(target)), True, ()", rule="R03.2")
M("c03-twin-apply-rename", "C03", UN, "        done = False\n        result = target\n", "        result = target\n        done = False\n", expect="silent")
