"""The catalogue entries (grouped by property)."""

from .catalogue import M

MARKER = "_marker_relation.py"
IT = "iteration/_engine.py"
PROC = "_processor.py"

# ---------------------------------------------------------------- C10
M("c10-drop-none-test", "C10", MARKER, "        if self.payload is None:\n            object.__setattr__(self, \"payload\", payload)\n        else:\n",
  "        if True:\n            object.__setattr__(self, \"payload\", payload)\n        else:\n", rule="R10.1")
M("c10-silent-second-attach", "C10", MARKER, "            raise TypeError(\n                f\"Cannot attach payload {payload} to relation {self} with existing payload \"\n                f\"{self.payload}; relation payloads are write-once.\"\n            )",
  "            return None", rule="R10.1")
M("c10-exec-cache-after", "C10", IT, "        if (result := relation.payload) is not None:\n            return result\n", "", rule="R10.3")
M("c10-exec-no-attach", "C10", IT, "                relation.attach_payload(result)\n", "", rule="R10.3")
M("c10-exec-attach-other", "C10", IT, "                result = self.execute(target).materialized()\n                relation.attach_payload(result)\n                return result",
  "                result = self.execute(target).materialized()\n                relation.attach_payload(result)\n                return self.execute(target)", rule="R10.3")
M("c10-proc-no-early", "C10", PROC, "        if original.payload is not None:\n            return original, True\n", "", rule="R10.3")
M("c10-proc-transfer-attach", "C10", PROC, "                result = original.reapply(new_target, payload)\n", "                object.__setattr__(original, \"payload\", payload)\n                result = original\n", rule="R10.1")
M("c10-leaf-attach", "C10", "_relation.py", "        raise TypeError(f\"Cannot attach payload {payload} to relation {self}.\")", "        object.__setattr__(self, \"payload\", payload)", rule="R10.1")
M("c10-twin-rename", "C10", IT, "        if (result := relation.payload) is not None:\n            return result\n", "        if (cached := relation.payload) is not None:\n            return cached\n", expect="silent")
M("c10-twin-invert", "C10", MARKER, "        if self.payload is None:\n            object.__setattr__(self, \"payload\", payload)\n        else:\n            raise TypeError(\n                f\"Cannot attach payload {payload} to relation {self} with existing payload \"\n                f\"{self.payload}; relation payloads are write-once.\"\n            )",
  "        if self.payload is not None:\n            raise TypeError(\n                f\"Cannot attach payload {payload} to relation {self} with existing payload \"\n                f\"{self.payload}; relation payloads are write-once.\"\n            )\n        object.__setattr__(self, \"payload\", payload)", expect="silent")
