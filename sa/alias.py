"""Interprocedural "returns an alias of its argument" summaries under an abstract state.

Used for identity-dataflow rules (a documented no-op must hand back the very
object it was given, through every override).  A summary is the set of
*sources* a function's return value can be on the feasible paths:

    'param:<name>'   the object passed for that parameter (incl. 'param:self')
    'FRESH'          a newly constructed object
    'OTHER:<text>'   anything else (attribute of an argument, unknown call ...)
"""

from __future__ import annotations

import ast

from .absval import AbsState, ClsVal, ConstVal, feasible
from .astutil import call_attr, dotted, src
from .model import ClassInfo, FunctionInfo
from .paths import Path, _binds

MAX_DEPTH = 14


class AliasAnalysis:
    def __init__(self, ctx):
        self.ctx = ctx
        self.m = ctx.m
        self.trace: list[str] = []

    # ------------------------------------------------------------------ public

    def returns(self, fi: FunctionInfo, state: AbsState, self_cls: ClassInfo | None = None, depth: int = 0, stack: tuple = ()) -> set[str]:
        if depth > MAX_DEPTH:
            return {"OTHER:<depth>"}
        key = (
            fi.key,
            self_cls.key if self_cls else "",
            tuple(sorted((k, repr(v)) for k, v in state.values.items())),
            tuple(sorted((k, repr(v)) for k, v in state.overrides.items())),
        )
        if key in stack:
            return set()  # recursion contributes nothing new
        stack = stack + (key,)
        ev = self.ctx.ev(fi)
        st0 = state.copy()
        if self_cls is not None and st0.get("self") is None:
            st0.set("self", ClsVal(frozenset([self_cls])))
        out: set[str] = set()
        for p in self.ctx.paths(fi):
            ok, st = feasible(p, st0, ev)
            if not ok or p.outcome != "return":
                continue
            srcs = self.eval(fi, p, len(p.steps), p.value, st0, self_cls, depth, stack)
            out |= srcs
        return out

    # ------------------------------------------------------------------ evaluation

    def _state_at(self, fi: FunctionInfo, p: Path, idx: int, st0: AbsState) -> AbsState:
        ev = self.ctx.ev(fi)
        st = st0.copy()
        for s in p.steps[:idx]:
            ev.narrow(s, st)
        return st

    def eval(self, fi, p: Path, idx: int, expr: ast.expr | None, st0: AbsState, self_cls, depth: int, stack) -> set[str]:
        if expr is None:
            return {"OTHER:None"}
        if isinstance(expr, ast.NamedExpr):
            return self.eval(fi, p, idx, expr.value, st0, self_cls, depth, stack)
        if isinstance(expr, ast.IfExp):
            return self.eval(fi, p, idx, expr.body, st0, self_cls, depth, stack) | self.eval(fi, p, idx, expr.orelse, st0, self_cls, depth, stack)
        if isinstance(expr, ast.Name):
            name = expr.id
            # find the binding step
            for j in range(idx - 1, -1, -1):
                s = p.steps[j]
                if name in _binds(s):
                    bound = self._bound_expr(s, name)
                    if bound is None:
                        return {f"OTHER:{name}"}
                    return self.eval(fi, p, j, bound, st0, self_cls, depth, stack)
            if name in fi.params:
                return {f"param:{name}"}
            return {f"OTHER:{name}"}
        if isinstance(expr, ast.Call):
            return self._eval_call(fi, p, idx, expr, st0, self_cls, depth, stack)
        if isinstance(expr, (ast.Tuple, ast.List, ast.Dict, ast.Set, ast.ListComp, ast.SetComp, ast.DictComp, ast.JoinedStr, ast.BinOp)):
            return {"FRESH"}
        if isinstance(expr, ast.Constant):
            return {f"OTHER:{src(expr)}"}
        return {f"OTHER:{src(expr)}"}

    def _bound_expr(self, step, name: str) -> ast.expr | None:
        n = step.node
        if step.kind == "stmt":
            if isinstance(n, ast.Assign):
                for t in n.targets:
                    if isinstance(t, ast.Name) and t.id == name:
                        return n.value
                    if isinstance(t, ast.Tuple) and isinstance(n.value, ast.Tuple) and len(t.elts) == len(n.value.elts):
                        for te, ve in zip(t.elts, n.value.elts):
                            if isinstance(te, ast.Name) and te.id == name:
                                return ve
            if isinstance(n, ast.AnnAssign) and isinstance(n.target, ast.Name) and n.target.id == name:
                return n.value
        for sub in ast.walk(n) if not isinstance(n, ast.match_case) else []:
            if isinstance(sub, ast.NamedExpr) and isinstance(sub.target, ast.Name) and sub.target.id == name:
                return sub.value
        return None

    def value_of(self, fi, p: Path, idx: int, expr: ast.expr, st0: AbsState, self_cls, depth, stack):
        """Abstract value of an argument expression (through aliases when it is a call)."""
        st = self._state_at(fi, p, idx, st0)
        ev = self.ctx.ev(fi)
        v = ev.value(expr, st)
        if v is not None:
            return v
        if isinstance(expr, ast.NamedExpr):
            return self.value_of(fi, p, idx, expr.value, st0, self_cls, depth, stack)
        if isinstance(expr, ast.Name) and depth <= MAX_DEPTH:
            # a local: the value of what it was last bound to
            for j in range(idx - 1, -1, -1):
                s = p.steps[j]
                if expr.id in _binds(s):
                    bound = self._bound_expr(s, expr.id)
                    if bound is None or (isinstance(bound, ast.Name) and bound.id == expr.id):
                        return None
                    return self.value_of(fi, p, j, bound, st0, self_cls, depth + 1, stack)
            return None
        if isinstance(expr, ast.Call):
            srcs = self._eval_call(fi, p, idx, expr, st0, self_cls, depth + 1, stack)
            if len(srcs) == 1:
                s = next(iter(srcs))
                if s.startswith("param:"):
                    return st.get(s[6:])
        return None

    def _callees(self, fi, call: ast.Call, st: AbsState, self_cls) -> list[tuple[FunctionInfo, ClassInfo | None, ast.expr | None]] | None:
        """Resolved (callee, self class, receiver expr) list, or None when unresolvable."""
        f = call.func
        m = self.m
        if isinstance(f, ast.Attribute):
            recv = f.value
            name = f.attr
            if isinstance(recv, ast.Call) and isinstance(recv.func, ast.Name) and recv.func.id == "super":
                owner = fi.cls
                base_cls = self_cls or owner
                if owner is None or base_cls is None:
                    return None
                mro = m.mro(base_cls)
                if owner not in mro:
                    return None
                for k in mro[mro.index(owner) + 1 :]:
                    if name in k.methods:
                        return [(k.methods[name], base_cls, ast.Name("self", ast.Load()))]
                return None
            ev = self.ctx.ev(fi)
            rv = ev.value(recv, st)
            if isinstance(recv, ast.Name) and recv.id in ("self", "cls") and rv is None:
                c = self_cls or fi.cls
                rv = ClsVal(frozenset([c])) if c else None
            if isinstance(rv, ClsVal) and rv.classes:
                out = []
                for c in rv.classes:
                    meth = m.method(c, name)
                    if meth is None:
                        return None
                    out.append((meth, c, recv))
                return out
            # ClassName.method(...)
            cn = dotted(recv)
            c = m.resolve_class(fi.module, cn) if cn else None
            if c is not None:
                meth = m.method(c, name)
                if meth is not None:
                    return [(meth, c, None)]
            return None
        if isinstance(f, ast.Name):
            fn = m.resolve_function(fi.module, f.id)
            if fn is not None:
                return [(fn, None, None)]
        return None

    def _eval_call(self, fi, p: Path, idx: int, call: ast.Call, st0: AbsState, self_cls, depth, stack) -> set[str]:
        st = self._state_at(fi, p, idx, st0)
        name = dotted(call.func) or ""
        # constructors
        if name:
            c = self.m.resolve_class(fi.module, name.split("[")[0])
            if c is not None or name == "cls":
                return {"FRESH"}
        if call_attr(call) == "cast" and len(call.args) == 2:
            return self.eval(fi, p, idx, call.args[1], st0, self_cls, depth, stack)
        callees = self._callees(fi, call, st, self_cls)
        if not callees:
            return {f"OTHER:{src(call)[:50]}"}
        out: set[str] = set()
        for callee, ccls, recv in callees:
            if callee.is_abstract:
                out.add(f"OTHER:{callee.qualname}(abstract)")
                continue
            params = [q for q in callee.params]
            bind: dict[str, ast.expr] = {}
            pos = [q for q in params if q not in ("self", "cls")]
            if callee.is_classmethod or callee.is_staticmethod or callee.cls is None:
                pass
            for i, a in enumerate(call.args):
                if i < len(pos) and not isinstance(a, ast.Starred):
                    bind[pos[i]] = a
            for k in call.keywords:
                if k.arg:
                    bind[k.arg] = k.value
            cst = AbsState()
            ev = self.ctx.ev(fi)
            for q, a in bind.items():
                v = self.value_of(fi, p, idx, a, st0, self_cls, depth, stack)
                if v is not None:
                    cst.set(q, v)
                at = src(a) if isinstance(a, (ast.Name, ast.Attribute)) else None
                if at is not None:
                    for kx, vx in st.values.items():
                        if kx.startswith(at + "."):
                            cst.set(q + kx[len(at) :], vx)
            # defaults that are constants
            a = callee.node.args
            defaults = dict(zip([x.arg for x in a.args][len(a.args) - len(a.defaults) :], a.defaults))
            for x, d in zip(a.kwonlyargs, a.kw_defaults):
                if d is not None:
                    defaults[x.arg] = d
            for q, d in defaults.items():
                if q not in bind and isinstance(d, ast.Constant):
                    cst.set(q, ConstVal(d.value))
            # overrides stated on the callee's own texts travel with the rule state ("@callee:")
            for kx, vx in st0.overrides.items():
                if kx.startswith("@"):
                    cst.overrides[kx] = vx
                    tag, _, rest = kx[1:].partition(":")
                    if tag == callee.qualname:
                        cst.overrides[rest] = vx
            r = self.returns(callee, cst, ccls, depth + 1, stack)
            for s in r:
                if s.startswith("param:"):
                    q = s[6:]
                    if q in ("self", "cls"):
                        out |= self.eval(fi, p, idx, recv, st0, self_cls, depth, stack) if recv is not None else {"OTHER:cls"}
                    elif q in bind:
                        out |= self.eval(fi, p, idx, bind[q], st0, self_cls, depth, stack)
                    else:
                        out.add(f"OTHER:default of {q}")
                else:
                    out.add(s)
        return out
