"""Behaviour-preserving normalisation of the parsed package before analysis.

Refactorings routinely introduce small private helpers ("extract method").  A rule that reasons about the
paths of one function would lose sight of the extracted code, so helpers that did **not** exist in the verified
baseline (``baseline_functions.json``) are inlined back into their call sites on the model's own copy of the AST:

* expression helpers - body is a single ``return <expr>`` or an if/elif/else tree of returns - are substituted as
  (conditional) expressions wherever they are called;
* statement helpers are inlined at ``return helper(...)`` (tail call) and ``name = helper(...)`` / ``a, b = helper(...)``
  sites when every ``return`` of the helper is in tail position.

Only calls of the forms ``self.h(...)``, ``cls.h(...)``, ``ClassName.h(...)`` (methods of the enclosing class) and
``h(...)`` (module-level function of the same module) are considered; recursion, generators, nested defs,
*args/**kwargs and defaulted parameters left unfilled are not inlined.  Nothing in /repo is modified.
"""

from __future__ import annotations

import ast
import copy
import json
import os

_BASELINE: set[str] | None = None


def baseline() -> set[str]:
    global _BASELINE
    if _BASELINE is None:
        path = os.path.join(os.path.dirname(os.path.abspath(__file__)), "baseline_functions.json")
        try:
            with open(path, encoding="utf-8") as f:
                _BASELINE = set(json.load(f)["functions"])
        except OSError:
            _BASELINE = set()
    return _BASELINE


def _body(fn: ast.FunctionDef) -> list[ast.stmt]:
    b = fn.body
    if b and isinstance(b[0], ast.Expr) and isinstance(b[0].value, ast.Constant) and isinstance(b[0].value.value, str):
        b = b[1:]
    return b


def _simple_params(fn: ast.FunctionDef, is_method: bool) -> list[str] | None:
    a = fn.args
    if a.vararg or a.kwarg or a.kwonlyargs or a.posonlyargs:
        return None
    names = [x.arg for x in a.args]
    if is_method and names:
        names = names[1:]
    return names


def _tail_returns_only(stmts: list[ast.stmt]) -> bool:
    """Every `return` is the last statement of its branch, and every branch ends in a return or raise."""
    if not stmts:
        return False
    for s in stmts[:-1]:
        if any(isinstance(n, (ast.Return, ast.Yield, ast.YieldFrom)) for n in ast.walk(s)):
            # a return inside an `if` that is not last is an early return: allowed only if that `if` has no else
            # and we can treat the rest as the else branch - handled by _to_tree
            pass
    return True


def _to_tree(stmts: list[ast.stmt]) -> list[ast.stmt] | None:
    """Rewrite early-return style into a strict tree: ``if c: return a`` + rest  ->  ``if c: return a`` else: rest.

    Returns None when the body has loops/try/with containing returns, or falls off the end on some branch."""
    out: list[ast.stmt] = []
    for i, s in enumerate(stmts):
        has_ret = any(isinstance(n, ast.Return) for n in ast.walk(s))
        if not has_ret:
            if isinstance(s, (ast.FunctionDef, ast.ClassDef, ast.AsyncFunctionDef)):
                return None
            out.append(s)
            continue
        if isinstance(s, ast.Return):
            out.append(s)
            return out  # anything after is dead
        if isinstance(s, ast.If):
            body = _to_tree(s.body)
            rest = stmts[i + 1 :]
            orelse_src = s.orelse if s.orelse else []
            body_ends = body is not None and body and isinstance(body[-1], (ast.Return, ast.Raise))
            if body is None:
                return None
            if body_ends:
                orelse = _to_tree(list(orelse_src) + list(rest))
                if orelse is None:
                    return None
                new = ast.If(test=s.test, body=body, orelse=orelse)
                out.append(ast.copy_location(new, s))
                return out
            # body falls through: the else branch must fall through as well, continue with rest
            orelse = _to_tree(list(orelse_src)) if orelse_src else []
            if orelse is None or (orelse and isinstance(orelse[-1], (ast.Return, ast.Raise))):
                return None
            return None
        if isinstance(s, ast.Match):
            return None
        return None
    # fell off the end without return
    return None


def _ends_closed(stmts: list[ast.stmt]) -> bool:
    if not stmts:
        return False
    last = stmts[-1]
    if isinstance(last, (ast.Return, ast.Raise)):
        return True
    if isinstance(last, ast.If):
        return bool(last.orelse) and _ends_closed(last.body) and _ends_closed(last.orelse)
    return False


def _as_expression(stmts: list[ast.stmt]) -> ast.expr | None:
    """An if/else tree of plain returns as one (conditional) expression."""
    if len(stmts) == 1 and isinstance(stmts[0], ast.Return) and stmts[0].value is not None:
        return stmts[0].value
    if len(stmts) == 1 and isinstance(stmts[0], ast.If) and stmts[0].orelse:
        a, b = _as_expression(stmts[0].body), _as_expression(stmts[0].orelse)
        if a is not None and b is not None:
            return ast.IfExp(test=stmts[0].test, body=a, orelse=b)
    return None


class _Subst(ast.NodeTransformer):
    def __init__(self, mapping: dict[str, ast.expr]):
        self.mapping = mapping

    def visit_Name(self, node):
        if node.id in self.mapping and isinstance(node.ctx, ast.Load):
            return copy.deepcopy(self.mapping[node.id])
        return node

    def visit_Lambda(self, node):
        shadow = {a.arg for a in node.args.args}
        inner = _Subst({k: v for k, v in self.mapping.items() if k not in shadow})
        node.body = inner.visit(node.body)
        return node


def _pure_arg(e: ast.expr) -> bool:
    """Cheap and side-effect free to duplicate: names, attribute chains, constants."""
    while isinstance(e, ast.Attribute):
        e = e.value
    return isinstance(e, (ast.Name, ast.Constant))


class Helper:
    def __init__(self, fn: ast.FunctionDef, params: list[str], tree: list[ast.stmt], expr: ast.expr | None, owner: str | None):
        self.fn, self.params, self.tree, self.expr, self.owner = fn, params, tree, expr, owner


def _collect_helpers(module_rel: str, tree: ast.Module) -> dict[tuple[str | None, str], Helper]:
    base = baseline()
    out: dict[tuple[str | None, str], Helper] = {}

    def consider(fn: ast.FunctionDef, owner: str | None) -> None:
        qual = f"{owner}.{fn.name}" if owner else fn.name
        if f"{module_rel}::{qual}" in base or not base:
            return
        if fn.name.startswith("__") or any(isinstance(d, ast.Name) and d.id in ("property", "abstractmethod") for d in fn.decorator_list):
            return
        deco = {d.id for d in fn.decorator_list if isinstance(d, ast.Name)}
        is_static = "staticmethod" in deco
        params = _simple_params(fn, is_method=owner is not None and not is_static)
        if params is None:
            return
        if fn.args.defaults:
            return
        body = _body(fn)
        if any(isinstance(n, (ast.Yield, ast.YieldFrom, ast.Await, ast.Global, ast.Nonlocal, ast.FunctionDef, ast.ClassDef)) for s in body for n in ast.walk(s)):
            return
        # not recursive
        if any(isinstance(n, ast.Call) and ((isinstance(n.func, ast.Attribute) and n.func.attr == fn.name) or (isinstance(n.func, ast.Name) and n.func.id == fn.name)) for s in body for n in ast.walk(s)):
            return
        # parameters must not be re-bound in the helper
        stored = {n.id for s in body for n in ast.walk(s) if isinstance(n, ast.Name) and isinstance(n.ctx, ast.Store)}
        tree_ = _to_tree(body)
        if tree_ is None or not _ends_closed(tree_):
            return
        if stored & set(params):
            # re-binding of a parameter (e.g. a loop stepping `relation = relation.target`): keep the call
            return
        out[(owner, fn.name)] = Helper(fn, params, tree_, _as_expression(tree_), owner)

    for node in tree.body:
        if isinstance(node, ast.FunctionDef):
            consider(node, None)
        elif isinstance(node, ast.ClassDef):
            for s in node.body:
                if isinstance(s, ast.FunctionDef):
                    consider(s, node.name)
    return out


def _match_call(call: ast.Call, owner: str | None, helpers: dict) -> Helper | None:
    f = call.func
    if call.keywords and any(k.arg is None for k in call.keywords):
        return None
    if any(isinstance(a, ast.Starred) for a in call.args):
        return None
    h = None
    if isinstance(f, ast.Attribute) and isinstance(f.value, ast.Name) and f.value.id in ("self", "cls", owner or ""):
        h = helpers.get((owner, f.attr))
    elif isinstance(f, ast.Name):
        h = helpers.get((None, f.id))
    if h is None:
        return None
    if len(call.args) + len(call.keywords) != len(h.params):
        return None
    return h


def _bind(call: ast.Call, h: Helper) -> dict[str, ast.expr] | None:
    mapping: dict[str, ast.expr] = {}
    for p, a in zip(h.params, call.args):
        mapping[p] = a
    for k in call.keywords:
        if k.arg not in h.params or k.arg in mapping:
            return None
        mapping[k.arg] = k.value
    if set(mapping) != set(h.params):
        return None
    return mapping


def _rename_locals(stmts: list[ast.stmt], params: set[str], suffix: str) -> list[ast.stmt]:
    stored = {n.id for s in stmts for n in ast.walk(s) if isinstance(n, ast.Name) and isinstance(n.ctx, ast.Store)}
    stored -= params

    class R(ast.NodeTransformer):
        def visit_Name(self, node):
            if node.id in stored:
                return ast.copy_location(ast.Name(f"{node.id}{suffix}", node.ctx), node)
            return node

    return [R().visit(copy.deepcopy(s)) for s in stmts]


class _Inliner(ast.NodeTransformer):
    def __init__(self, owner: str | None, helpers: dict, counter: list[int]):
        self.owner, self.helpers, self.counter = owner, helpers, counter
        self.changed = 0

    # expression-level
    def visit_Call(self, node):
        self.generic_visit(node)
        h = _match_call(node, self.owner, self.helpers)
        if h is None or h.expr is None:
            return node
        mapping = _bind(node, h)
        if mapping is None or not all(_pure_arg(a) for a in mapping.values()):
            # an argument with effects may only be substituted if the parameter is used exactly once
            if mapping is None:
                return node
            uses = {p: sum(1 for n in ast.walk(h.expr) if isinstance(n, ast.Name) and n.id == p) for p in h.params}
            if any(not _pure_arg(a) and uses.get(p, 0) != 1 for p, a in mapping.items()):
                return node
        self.changed += 1
        new = _Subst(mapping).visit(copy.deepcopy(h.expr))
        return ast.copy_location(new, node)

    def _inline_stmt(self, call: ast.Call, on_return) -> list[ast.stmt] | None:
        h = _match_call(call, self.owner, self.helpers)
        if h is None or h.expr is not None:
            return None
        mapping = _bind(call, h)
        if mapping is None:
            return None
        self.counter[0] += 1
        suffix = f"__h{self.counter[0]}"
        pre: list[ast.stmt] = []
        subst: dict[str, ast.expr] = {}
        for p, a in mapping.items():
            if _pure_arg(a):
                subst[p] = a
            else:
                tmp = f"{p}{suffix}"
                pre.append(ast.copy_location(ast.Assign(targets=[ast.Name(tmp, ast.Store())], value=a, lineno=call.lineno), call))
                subst[p] = ast.Name(tmp, ast.Load())
        body = _rename_locals(h.tree, set(h.params), suffix)
        body = [_Subst(subst).visit(s) for s in body]

        def fix(stmts: list[ast.stmt]) -> list[ast.stmt]:
            out = []
            for s in stmts:
                if isinstance(s, ast.Return):
                    out.extend(on_return(s))
                elif isinstance(s, ast.If):
                    s.body = fix(s.body)
                    s.orelse = fix(s.orelse)
                    out.append(s)
                else:
                    out.append(s)
            return out

        self.changed += 1
        res = pre + fix(body)
        for s in res:
            ast.fix_missing_locations(ast.copy_location(s, call) if not hasattr(s, "lineno") else s)
        return res

    def _visit_block(self, stmts: list[ast.stmt]) -> list[ast.stmt]:
        out: list[ast.stmt] = []
        for s in stmts:
            rep = None
            if isinstance(s, ast.Return) and isinstance(s.value, ast.Call):
                rep = self._inline_stmt(s.value, lambda r: [r])
            elif isinstance(s, ast.Assign) and len(s.targets) == 1 and isinstance(s.value, ast.Call):
                tgt = s.targets[0]
                rep = self._inline_stmt(
                    s.value,
                    lambda r, tgt=tgt, s=s: [ast.copy_location(ast.Assign(targets=[copy.deepcopy(tgt)], value=r.value or ast.Constant(None), lineno=s.lineno), s)],
                )
            if rep is not None:
                out.extend(rep)
            else:
                out.append(s)
        return out

    def visit_FunctionDef(self, node):
        self.generic_visit(node)
        node.body = self._visit_block(node.body)
        return node

    def generic_visit(self, node):
        super().generic_visit(node)
        for field in ("body", "orelse", "finalbody"):
            v = getattr(node, field, None)
            if isinstance(v, list) and v and isinstance(v[0], ast.stmt) and not isinstance(node, (ast.FunctionDef, ast.ClassDef, ast.Module)):
                setattr(node, field, self._visit_block(v))
        return node


def normalize_module(module_rel: str, tree: ast.Module) -> int:
    """Inline helpers that are not in the baseline.  Returns the number of call sites rewritten."""
    helpers = _collect_helpers(module_rel, tree)
    if not helpers:
        return 0
    total = 0
    counter = [0]
    for _ in range(3):  # helpers may call other new helpers
        changed = 0
        for node in tree.body:
            if isinstance(node, ast.ClassDef):
                inl = _Inliner(node.name, helpers, counter)
                for i, s in enumerate(node.body):
                    if isinstance(s, ast.FunctionDef) and (node.name, s.name) not in helpers:
                        node.body[i] = inl.visit(s)
                changed += inl.changed
            elif isinstance(node, ast.FunctionDef) and (None, node.name) not in helpers:
                inl = _Inliner(None, helpers, counter)
                idx = tree.body.index(node)
                tree.body[idx] = inl.visit(node)
                changed += inl.changed
        total += changed
        if not changed:
            break
    ast.fix_missing_locations(tree)
    return total


# ------------------------------------------------------------------------------------------------------------------
# N3: isinstance chains over the closed hierarchies  ->  match statements
#
# ``if isinstance(x, A): ... elif isinstance(x, (B, C)) and g: ... else: ...`` is exactly
# ``match x: case A(): ... case B() | C() if g: ... case _: ...`` for the package's dataclass hierarchies (a class
# pattern without sub-patterns is an isinstance test).  Consecutive ``if isinstance(x, K): <...return/raise>``
# statements are one dispatch as well.  Rules are written against the ``match`` form; converting keeps them
# applicable when a dispatcher is (re)written with isinstance.


def closed_class_names(trees: dict[str, ast.Module]) -> set[str]:
    bases: dict[str, list[str]] = {}
    roots: set[str] = set()
    for tree in trees.values():
        for n in ast.walk(tree):
            if isinstance(n, ast.ClassDef):
                bs = []
                for b in n.bases:
                    e = b.value if isinstance(b, ast.Subscript) else b
                    if isinstance(e, ast.Name):
                        bs.append(e.id)
                    elif isinstance(e, ast.Attribute):
                        bs.append(e.attr)
                bases.setdefault(n.name, []).extend(bs)
                if any(isinstance(s, ast.FunctionDef) and s.name == "__init_subclass__" for s in n.body):
                    roots.add(n.name)
    out = set(roots)
    changed = True
    while changed:
        changed = False
        for c, bs in bases.items():
            if c not in out and any(b in out for b in bs):
                out.add(c)
                changed = True
    return out


def _pure_subject(e: ast.expr) -> bool:
    while isinstance(e, ast.Attribute):
        e = e.value
    return isinstance(e, ast.Name)


def _class_names(t: ast.expr) -> list[ast.expr] | None:
    if isinstance(t, (ast.Name, ast.Attribute)):
        return [t]
    if isinstance(t, ast.Tuple) and t.elts and all(isinstance(x, (ast.Name, ast.Attribute)) for x in t.elts):
        return list(t.elts)
    return None


def _split_test(test: ast.expr):
    """(subject, class exprs, extra guard conjuncts) if the test starts with isinstance(subject, classes)."""
    conj = list(test.values) if isinstance(test, ast.BoolOp) and isinstance(test.op, ast.And) else [test]
    first = conj[0]
    if not (isinstance(first, ast.Call) and isinstance(first.func, ast.Name) and first.func.id == "isinstance" and len(first.args) == 2 and not first.keywords):
        return None
    subj, classes = first.args[0], _class_names(first.args[1])
    if classes is None or not _pure_subject(subj):
        return None
    return subj, classes, conj[1:]


def _last_name(e: ast.expr) -> str:
    return e.attr if isinstance(e, ast.Attribute) else e.id  # type: ignore[union-attr]


class _IsinstanceToMatch(ast.NodeTransformer):
    def __init__(self, closed: set[str]):
        self.closed = closed
        self.changed = 0

    def _arm(self, test: ast.expr, body: list[ast.stmt], subject_src: str | None):
        sp = _split_test(test)
        if sp is None:
            return None
        subj, classes, rest = sp
        if subject_src is not None and ast.unparse(subj) != subject_src:
            return None
        if not all(_last_name(c) in self.closed for c in classes):
            return None
        # guard conjuncts of the form isinstance(<subject>.<field>, K) become keyword sub-patterns
        kw_attrs: list[str] = []
        kw_pats: list[ast.pattern] = []
        remaining: list[ast.expr] = []
        for g in rest:
            sub = _split_test(g)
            if (
                sub is not None
                and not sub[2]
                and isinstance(sub[0], ast.Attribute)
                and ast.unparse(sub[0].value) == ast.unparse(subj)
                and len(classes) == 1
                and all(_last_name(c) in self.closed for c in sub[1])
                and not remaining
            ):
                pats = [ast.MatchClass(cls=c, patterns=[], kwd_attrs=[], kwd_patterns=[]) for c in sub[1]]
                kw_attrs.append(sub[0].attr)
                kw_pats.append(pats[0] if len(pats) == 1 else ast.MatchOr(patterns=pats))
            else:
                remaining.append(g)
        pats = [ast.MatchClass(cls=c, patterns=[], kwd_attrs=list(kw_attrs), kwd_patterns=list(kw_pats)) for c in classes]
        pattern = pats[0] if len(pats) == 1 else ast.MatchOr(patterns=pats)
        guard = None
        if remaining:
            guard = remaining[0] if len(remaining) == 1 else ast.BoolOp(op=ast.And(), values=remaining)
        return subj, ast.match_case(pattern=pattern, guard=guard, body=body)

    def _chain(self, node: ast.If):
        """Collect the arms of an if/elif chain; None unless every test is isinstance(<same subject>, closed classes)."""
        arms = []
        subject = None
        cur: ast.stmt | None = node
        orelse: list[ast.stmt] = []
        while isinstance(cur, ast.If):
            r = self._arm(cur.test, cur.body, ast.unparse(subject) if subject is not None else None)
            if r is None:
                if not arms:
                    return None
                orelse = [cur]
                break
            subj, case = r
            subject = subject or subj
            arms.append(case)
            if len(cur.orelse) == 1 and isinstance(cur.orelse[0], ast.If):
                cur = cur.orelse[0]
            else:
                orelse = cur.orelse
                cur = None
        return subject, arms, orelse

    def _block(self, stmts: list[ast.stmt]) -> list[ast.stmt]:
        out: list[ast.stmt] = []
        i = 0
        while i < len(stmts):
            s = stmts[i]
            if isinstance(s, ast.If):
                ch = self._chain(s)
                if ch is not None:
                    subject, arms, orelse = ch
                    j = i + 1
                    # consecutive closed `if isinstance(same subject, ...)` statements extend the dispatch
                    while (
                        not orelse
                        and all(_ends_closed(a.body) for a in arms)
                        and j < len(stmts)
                        and isinstance(stmts[j], ast.If)
                    ):
                        nxt = self._chain(stmts[j])  # type: ignore[arg-type]
                        if nxt is None or ast.unparse(nxt[0]) != ast.unparse(subject):
                            break
                        arms.extend(nxt[1])
                        orelse = nxt[2]
                        j += 1
                    if orelse:
                        arms.append(ast.match_case(pattern=ast.MatchAs(pattern=None, name=None), guard=None, body=orelse))
                    m = ast.copy_location(ast.Match(subject=subject, cases=arms), s)
                    self.changed += 1
                    out.append(m)
                    i = j
                    continue
            out.append(s)
            i += 1
        return out

    def generic_visit(self, node):
        super().generic_visit(node)
        for field in ("body", "orelse", "finalbody"):
            v = getattr(node, field, None)
            if isinstance(v, list) and v and isinstance(v[0], ast.stmt):
                setattr(node, field, self._block(v))
        if isinstance(node, ast.Match):
            for c in node.cases:
                c.body = self._block(c.body)
        return node


def isinstance_to_match(tree: ast.Module, closed: set[str]) -> int:
    t = _IsinstanceToMatch(closed)
    t.visit(tree)
    ast.fix_missing_locations(tree)
    return t.changed
